(* DESIGN-TIME FEASIBILITY PROBE 3 -- not part of the framework: the core lemma of the lattice engine (IntLin): a fold of 2x2 unimodular Bezout steps w.r.t. an integer linear functional preserves the Z-span of a generating list and leaves one pivot plus vectors orthogonal to the functional. The extended gcd is untrusted and its output is checked at run time, so no gcd theory is needed. *)
(* probe 3: Bezout fold on a generating list w.r.t. an integer linear functional preserves the Z-span *)
From Coq Require Import List ZArith Lia.
Import ListNotations.
Local Open Scope Z_scope.

Definition vec := nat -> Z.
Definition veq (u v : vec) : Prop := forall i, u i = v i.
Definition vadd (u v : vec) : vec := fun i => u i + v i.
Definition vscale (k : Z) (u : vec) : vec := fun i => k * u i.
Definition vzero : vec := fun _ => 0.

Inductive span (bs : list vec) : vec -> Prop :=
| sp_zero : span bs vzero
| sp_in b : In b bs -> span bs b
| sp_add u v : span bs u -> span bs v -> span bs (vadd u v)
| sp_scale k u : span bs u -> span bs (vscale k u)
| sp_eq u v : veq u v -> span bs u -> span bs v.

Lemma span_mono bs cs : (forall b, In b bs -> span cs b) -> forall v, span bs v -> span cs v.
Proof.
  intros H v Hv. induction Hv as [|b Hb|u v _ IHu _ IHv|k u _ IHu|u v E _ IHu].
  - constructor. - now apply H. - now apply sp_add. - now apply sp_scale. - eapply sp_eq; eauto.
Qed.

Section Functional.
Variable f : vec -> Z.
Hypothesis f_eq : forall u v, veq u v -> f u = f v.
Hypothesis f_add : forall u v, f (vadd u v) = f u + f v.
Hypothesis f_scale : forall k u, f (vscale k u) = k * f u.

(* untrusted extended gcd with fuel; its output is CHECKED, never believed *)
Fixpoint egcd (fuel : nat) (a b : Z) : Z * Z * Z :=
  match fuel with
  | O => (a, 1, 0)
  | S n => if Z.eqb b 0 then (if Z.ltb a 0 then (- a, -1, 0) else (a, 1, 0))
           else let '(d, u, v) := egcd n b (a mod b) in (d, v, u - (a / b) * v)
  end.

(* one step on a pair: returns (p', o') with f o' = 0, or None if the check fails *)
Definition step (p b : vec) : option (vec * vec) :=
  let g1 := f p in let g2 := f b in
  if Z.eqb g2 0 then Some (p, b) else
  let '(d, u, v) := egcd (Z.to_nat (Z.abs g1 + Z.abs g2) + 2) g1 g2 in
  if Z.eqb d 0 then None else
  let s := g1 / d in let t := g2 / d in
  if (Z.eqb (s * d) g1 && Z.eqb (t * d) g2 && Z.eqb (u * g1 + v * g2) d)%bool
  then Some (vadd (vscale u p) (vscale v b), vadd (vscale (- t) p) (vscale s b))
  else None.

Lemma step_spec p b p' o' :
  step p b = Some (p', o') ->
  f o' = 0 /\
  (forall bs, span (p :: b :: bs) p' /\ span (p :: b :: bs) o') /\
  (forall bs, span (p' :: o' :: bs) p /\ span (p' :: o' :: bs) b).
Proof.
  unfold step. destruct (Z.eqb_spec (f b) 0) as [E0|N0].
  - intros [= <- <-]. split; [exact E0|]. split; intros bs; split; apply sp_in; simpl; auto.
  - destruct (egcd _ (f p) (f b)) as [[d u] v].
    destruct (Z.eqb_spec d 0) as [|Hd]; [discriminate|].
    set (s := f p / d). set (t := f b / d).
    destruct (Z.eqb_spec (s * d) (f p)) as [Hs|]; [|discriminate].
    destruct (Z.eqb_spec (t * d) (f b)) as [Ht|]; [|discriminate].
    destruct (Z.eqb_spec (u * f p + v * f b) d) as [Hb|]; [|discriminate].
    cbn [andb]. intros [= <- <-].
    assert (Hdet : s * u + v * t = 1).
    { apply (Z.mul_reg_l _ _ d Hd).
      replace (d * (s * u + v * t)) with (u * (s * d) + v * (t * d)) by ring.
      rewrite Hs, Ht. lia. }
    split; [|split].
    + rewrite f_add, !f_scale. rewrite <- Hs, <- Ht. ring.
    + intros bs. split.
      * apply sp_add; apply sp_scale; apply sp_in; simpl; auto.
      * apply sp_add; apply sp_scale; apply sp_in; simpl; auto.
    + intros bs.
      set (p' := vadd (vscale u p) (vscale v b)). set (o' := vadd (vscale (- t) p) (vscale s b)).
      split.
      * (* p = s p' - v o' *)
        apply (sp_eq _ (vadd (vscale s p') (vscale (- v) o'))).
        { intros i. unfold p', o', vadd, vscale. transitivity ((s * u + v * t) * p i); [ring|rewrite Hdet; ring]. }
        apply sp_add; apply sp_scale; apply sp_in; simpl; auto.
      * (* b = t p' + u o' *)
        apply (sp_eq _ (vadd (vscale t p') (vscale u o'))).
        { intros i. unfold p', o', vadd, vscale. transitivity ((s * u + v * t) * b i); [ring|rewrite Hdet; ring]. }
        apply sp_add; apply sp_scale; apply sp_in; simpl; auto.
Qed.

(* fold: pivot p, orthogonal accumulator *)
Fixpoint bfold (p : vec) (orth : list vec) (bs : list vec) : option (vec * list vec) :=
  match bs with
  | [] => Some (p, orth)
  | b :: bs' => match step p b with
                | Some (p', o') => bfold p' (o' :: orth) bs'
                | None => None
                end
  end.

Lemma span_weaken_incl bs cs v : incl bs cs -> span bs v -> span cs v.
Proof. intros H. apply span_mono. intros b Hb. apply sp_in. now apply H. Qed.

Theorem bfold_spec : forall bs p orth p' orth',
  (forall o, In o orth -> f o = 0) ->
  bfold p orth bs = Some (p', orth') ->
  (forall o, In o orth' -> f o = 0) /\
  (forall v, span (p :: orth ++ bs) v <-> span (p' :: orth') v).
Proof.
  induction bs as [|b bs IH]; intros p orth p' orth' Ho; cbn [bfold].
  - intros [= <- <-]. split; [exact Ho|]. intros v. now rewrite app_nil_r.
  - destruct (step p b) as [[p1 o1]|] eqn:Es; [|discriminate]. intros Hf.
    destruct (step_spec _ _ _ _ Es) as [Hz [Hfw Hbw]].
    destruct (IH p1 (o1 :: orth) p' orth') as [Ho' Hsp]; [|exact Hf|].
    { intros o [<-|Hin]; [exact Hz|now apply Ho]. }
    split; [exact Ho'|]. intros v. rewrite <- Hsp. clear Hsp.
    assert (I1 : incl (p1 :: o1 :: orth ++ bs) (p1 :: (o1 :: orth) ++ bs)).
    { intros y Hy. cbn [In app] in *. rewrite in_app_iff in *. tauto. }
    assert (I2 : incl (p :: b :: orth ++ bs) (p :: orth ++ b :: bs)).
    { intros y Hy. cbn [In app] in *. rewrite in_app_iff in *. cbn [In]. tauto. }
    split; apply span_mono.
    + intros x Hx. cbn [In] in Hx. rewrite in_app_iff in Hx. cbn [In] in Hx.
      destruct Hx as [<-|[Hx|[<-|Hx]]].
      * eapply span_weaken_incl; [exact I1|apply (proj1 (Hbw (orth ++ bs)))].
      * apply sp_in. cbn [In app]. rewrite in_app_iff. tauto.
      * eapply span_weaken_incl; [exact I1|apply (proj2 (Hbw (orth ++ bs)))].
      * apply sp_in. cbn [In app]. rewrite in_app_iff. tauto.
    + intros x Hx. cbn [In app] in Hx. rewrite in_app_iff in Hx.
      destruct Hx as [<-|[<-|[Hx|Hx]]].
      * eapply span_weaken_incl; [exact I2|apply (proj1 (Hfw (orth ++ bs)))].
      * eapply span_weaken_incl; [exact I2|apply (proj2 (Hfw (orth ++ bs)))].
      * apply sp_in. cbn [In]. rewrite in_app_iff. tauto.
      * apply sp_in. cbn [In]. rewrite in_app_iff. cbn [In]. tauto.
Qed.
End Functional.
Print Assumptions bfold_spec.
