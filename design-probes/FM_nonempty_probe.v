(* DESIGN-TIME FEASIBILITY PROBE 2 -- not part of the framework: eliminating all variables gives an exact emptiness test (nonempty_b_exact), built on FM_exact_probe.v. Compile: coqc -Q . "" FM_exact_probe.v FM_nonempty_probe.v *)
(* probe 2: full elimination => exact emptiness test *)
Require Import FM_exact_probe.
From Coq Require Import List ZArith QArith Lia Lqa Bool.
Import ListNotations.
Local Open Scope Q_scope.

(* dimension bound: all coefficient lists have length <= n *)
Definition dim_ok (n : nat) (cs : list cstr) : Prop := forall c, In c cs -> (length (coefs c) <= n)%nat.

(* after eliminating variable k, coefficient k of every constraint is 0 *)
Lemma elim_coef0 k cs c : In c (elim k cs) -> coef c k = 0%Z.
Proof.
  intros H. apply in_elim in H. destruct H as [[_ H]|[cp [cn [_ [_ [Hp [Hn ->]]]]]]]; [exact H|].
  rewrite coef_comb. lia.
Qed.

(* elimination does not resurrect other zero columns *)
Lemma elim_keeps_zero k j cs : (forall c, In c cs -> coef c j = 0%Z) -> forall c, In c (elim k cs) -> coef c j = 0%Z.
Proof.
  intros H c Hc. apply in_elim in Hc. destruct Hc as [[Hc _]|[cp [cn [Hp [Hn [_ [_ ->]]]]]]]; [auto|].
  rewrite coef_comb, (H _ Hp), (H _ Hn). lia.
Qed.

Lemma length_vadd a : forall b, length (vadd a b) = Nat.max (length a) (length b).
Proof. induction a as [|x a IH]; intros [|y b]; cbn [vadd length]; auto. now rewrite IH. Qed.

Lemma elim_dim n k cs : dim_ok n cs -> dim_ok n (elim k cs).
Proof.
  intros H c Hc. apply in_elim in Hc. destruct Hc as [[Hc _]|[cp [cn [Hp [Hn [_ [_ ->]]]]]]]; [auto|].
  cbn [comb coefs]. rewrite length_vadd. unfold vscale. rewrite !map_length.
  specialize (H _ Hp) as H1. specialize (H _ Hn) as H2. lia.
Qed.

Fixpoint elim_all (n : nat) (cs : list cstr) : list cstr :=
  match n with O => cs | S k => elim_all k (elim k cs) end.

(* a constraint all of whose coefficients (below its length) are zero evaluates to its constant *)
Lemma dot_zero cs : forall p i, (forall j, nth j cs 0%Z = 0%Z) -> dot cs p i == 0.
Proof.
  induction cs as [|c cs IH]; intros p i H; cbn [dot]; [lra|].
  rewrite IH by (intros j; apply (H (S j))). specialize (H O). cbn in H. subst c.
  change (inject_Z 0) with 0. lra.
Qed.

Definition triv_ok (c : cstr) : bool := if strict c then Z.ltb 0 (cst c) else Z.leb 0 (cst c).

Lemma triv_sat c p : (forall j, coef c j = 0%Z) -> (sat c p <-> triv_ok c = true).
Proof.
  intros H. unfold sat, triv_ok, eval. pose proof (dot_zero (coefs c) p 0 H) as E.
  destruct (strict c).
  - rewrite Z.ltb_lt. split; intros H1.
    + apply Zlt_Qlt in H1 || (rewrite Zlt_Qlt; change (inject_Z 0) with 0; lra).
    + rewrite Zlt_Qlt in H1. change (inject_Z 0) with 0 in H1. lra.
  - rewrite Z.leb_le. split; intros H1.
    + rewrite Zle_Qle. change (inject_Z 0) with 0. lra.
    + rewrite Zle_Qle in H1. change (inject_Z 0) with 0 in H1. lra.
Qed.

(* main: exists point <-> all residual constants fine *)
Lemma elim_all_exact n : forall cs p,
  (exists q, (forall i, (n <= i)%nat -> q i == p i) /\ sat_all cs q) <-> sat_all (elim_all n cs) p.
Proof.
  induction n as [|n IH]; intros cs p; cbn [elim_all].
  - split.
    + intros [q [Hq Hs]] c Hc. specialize (Hs c Hc). unfold sat, eval in *.
      assert (E : forall l i, dot l q i == dot l p i).
      { induction l as [|x l IHl]; intros i; cbn [dot]; [lra|]. rewrite IHl, (Hq i) by lia. lra. }
      pose proof (E (coefs c) 0%nat) as E0. destruct (strict c); lra.
    + intros H. exists p. split; [reflexivity|exact H].
  - rewrite <- IH. split.
    + intros [q [Hq Hs]]. exists (upd q n (p n)). split.
      { intros i Hi. unfold upd. destruct (Nat.eqb_spec i n) as [->|Hne]; [reflexivity|apply Hq; lia]. }
      apply (elim_sound n cs (upd q n (p n)) (q n)).
      intros c Hc. specialize (Hs c Hc). unfold sat, eval in *.
      assert (E : forall l i, dot l (upd (upd q n (p n)) n (q n)) i == dot l q i).
      { induction l as [|x l IHl]; intros i; cbn [dot]; [lra|]. rewrite IHl. unfold upd.
        destruct (Nat.eqb_spec i n) as [->|]; lra. }
      pose proof (E (coefs c) 0%nat) as E0. destruct (strict c); lra.
    + intros [q [Hq Hs]]. apply elim_complete in Hs. destruct Hs as [v Hv].
      exists (upd q n v). split; [|exact Hv].
      intros i Hi. unfold upd. destruct (Nat.eqb_spec i n); [lia|]. apply Hq. lia.
Qed.

Definition nonempty_b (n : nat) (cs : list cstr) : bool := forallb triv_ok (elim_all n cs).

Lemma elim_all_zero n : forall cs, (forall c, In c cs -> forall j, (n <= j)%nat -> coef c j = 0%Z) ->
  forall c, In c (elim_all n cs) -> forall j, coef c j = 0%Z.
Proof.
  induction n as [|n IH]; intros cs Hz c Hc j; cbn [elim_all] in Hc.
  - apply (Hz c Hc j). lia.
  - apply (IH (elim n cs)); [|exact Hc]. intros c' Hc' j' Hj'.
    destruct (Nat.eq_dec j' n) as [->|Hne].
    + eapply elim_coef0; eauto.
    + eapply (elim_keeps_zero n j' cs); [|exact Hc']. intros c'' Hc''. apply Hz; [exact Hc''|lia].
Qed.

Theorem nonempty_b_exact n cs : dim_ok n cs -> (nonempty_b n cs = true <-> exists p, sat_all cs p).
Proof.
  intros Hd. unfold nonempty_b. rewrite forallb_forall.
  assert (Hz : forall c, In c (elim_all n cs) -> forall j, coef c j = 0%Z).
  { apply elim_all_zero. intros c Hc j Hj. unfold coef. apply nth_overflow. specialize (Hd c Hc). lia. }
  split.
  - intros H. destruct (proj2 (elim_all_exact n cs (fun _ => 0))) as [q [_ Hq]].
    + intros c Hc. apply (triv_sat c _ (Hz c Hc)). now apply H.
    + now exists q.
  - intros [p Hp] c Hc. apply (triv_sat c p (Hz c Hc)).
    apply (proj1 (elim_all_exact n cs p)); [|exact Hc]. exists p. split; [reflexivity|exact Hp].
Qed.
Print Assumptions nonempty_b_exact.
