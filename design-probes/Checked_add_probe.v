(* DESIGN-TIME FEASIBILITY PROBE -- not part of the framework: transcription of add_signed_int (checked_int_inlines.hh:1027) and its result-relation theorem, all widths at once. *)
From Coq Require Import ZArith Lia Bool.
Local Open Scope Z_scope.

(* Result relations (subset) *)
Inductive res := V_EQ | V_LT | V_GT | V_LT_INF | V_GT_SUP | V_LT_PINF (unrep : bool) | V_GT_MINF (unrep : bool).
Inductive dir := ROUND_UP | ROUND_DOWN | ROUND_IGNORE.
Definition round_up d := match d with ROUND_UP => true | _ => false end.
Definition round_down d := match d with ROUND_DOWN => true | _ => false end.

Record policy := { has_inf : bool; has_nan : bool; check_overflow : bool }.
Record ity := { bits : Z; signed : bool }.
Definition cmin t := if signed t then - 2^(bits t - 1) else 0.
Definition cmax t := if signed t then 2^(bits t - 1) - 1 else 2^(bits t) - 1.
Definition b2z (b:bool) := if b then 1 else 0.
Definition emin p t := cmin t + (if signed t then b2z (has_inf p) + b2z (has_nan p) else 0).
Definition emax p t := cmax t - (if signed t then b2z (has_inf p) else 2 * b2z (has_inf p) + b2z (has_nan p)).
Definition pinf t := cmax t.
Definition minf t := if signed t then cmin t else cmax t - 1.

(* stored value + result *)
Definition set_pos_overflow p t d : Z * res :=
  if round_down d then (emax p t, V_GT_SUP)
  else if has_inf p then (pinf t, V_LT_PINF false) else (0 (* unchanged; modelled separately *), V_LT_PINF true).
Definition set_neg_overflow p t d : Z * res :=
  if round_up d then (emin p t, V_LT_INF)
  else if has_inf p then (minf t, V_GT_MINF false) else (0, V_GT_MINF true).

(* add_signed_int, non-"larger" path: literal transcription *)
Definition add_signed_int p t (x y : Z) d : Z * res :=
  if check_overflow p then
    if 0 <=? y then
      if x >? emax p t - y then set_pos_overflow p t d else (x + y, V_EQ)
    else if x <? emin p t - y then set_neg_overflow p t d else (x + y, V_EQ)
  else (x + y, V_EQ).

(* semantic relation: what the result code claims about exact value e and stored value s *)
Definition claim p t (e : Z) (sr : Z * res) : Prop :=
  let (s, r) := sr in
  match r with
  | V_EQ => s = e /\ emin p t <= s <= emax p t
  | V_LT => e < s | V_GT => s < e
  | V_LT_INF => s = emin p t /\ e < s
  | V_GT_SUP => s = emax p t /\ s < e
  | V_LT_PINF _ => emax p t < e
  | V_GT_MINF _ => e < emin p t
  end.

Theorem add_signed_int_correct p t x y d :
  check_overflow p = true -> signed t = true -> 2 <= bits t ->
  emin p t <= x <= emax p t -> emin p t <= y <= emax p t ->
  claim p t (x + y) (add_signed_int p t x y d).
Proof.
  intros Hc Hs Hb Hx Hy. unfold add_signed_int. rewrite Hc.
  destruct (0 <=? y) eqn:E1.
  - destruct (x >? emax p t - y) eqn:E2.
    + unfold set_pos_overflow. destruct (round_down d); [cbn; lia|]. destruct (has_inf p); cbn; lia.
    + cbn. lia.
  - destruct (x <? emin p t - y) eqn:E2.
    + unfold set_neg_overflow. destruct (round_up d); [cbn; lia|]. destruct (has_inf p); cbn; lia.
    + cbn. lia.
Qed.
Print Assumptions add_signed_int_correct.
