// Standalone reproduction of the C06 known findings with the public interface only.
// build: g++ -std=c++11 -DHAVE_CONFIG_H -I<libdir>/cfg -I/repo/src -I/repo -I/verif/harness repro.cc <libdir>/libppl_verif.a -lgmpxx -lgmp
// usage: repro [hang]
#include "vh_common.hh"
#include <unistd.h>
using namespace Parma_Polyhedra_Library;
using namespace Parma_Polyhedra_Library::IO_Operators;
static const char* nm(MIP_Problem_Status s) { return s == UNFEASIBLE_MIP_PROBLEM ? "UNFEASIBLE" : s == UNBOUNDED_MIP_PROBLEM ? "UNBOUNDED" : "OPTIMIZED"; }
int main(int argc, char** argv) {
  Variable A(0), B(1), C(2);
  { // C06-stale-last-generator
    std::vector<Constraint> cs;
    cs.push_back(A >= 0); cs.push_back(A <= 4); cs.push_back(B >= 0); cs.push_back(B <= 4); cs.push_back(C >= 0); cs.push_back(C <= 4);
    cs.push_back(-A+3*B+3*C >= 4); cs.push_back(-A+3*B-3*C >= -6); cs.push_back(3*A-B-2*C >= -4); cs.push_back(-3*A+3*B-2*C >= -1);
    Variables_Set vs(A, C);
    MIP_Problem inc(3); inc.set_control_parameter(MIP_Problem::PRICING_STEEPEST_EDGE_EXACT); inc.add_to_integer_space_dimensions(vs);
    Constraint_System all;
    for (size_t i = 0; i < cs.size(); ++i) { inc.add_constraint(cs[i]); all.insert(cs[i]); if (i % 2 == 1) inc.is_satisfiable(); }
    inc.set_objective_function(-3*B - C);
    MIP_Problem fresh(3, all, -3*B - C, MAXIMIZATION); fresh.set_control_parameter(MIP_Problem::PRICING_STEEPEST_EDGE_EXACT); fresh.add_to_integer_space_dimensions(vs);
    Coefficient n, d;
    inc.solve(); inc.optimal_value(n, d); std::cout << "incremental: " << n << "/" << d << " at " << inc.optimizing_point() << " OK=" << inc.OK() << "\n";
    fresh.solve(); fresh.optimal_value(n, d); std::cout << "fresh:       " << n << "/" << d << " at " << fresh.optimizing_point() << " OK=" << fresh.OK() << "\n";
  }
  { // C06-unbounded-relaxation-unfeasible
    MIP_Problem p(2); p.add_to_integer_space_dimensions(Variables_Set(A));
    p.add_constraint(2*A >= 1); p.add_constraint(B >= 0); p.set_objective_function(B);
    MIP_Problem q(p);
    std::cout << "max B s.t. 2A>=1, B>=0, A integer: is_satisfiable=" << q.is_satisfiable() << " solve=" << nm(p.solve()) << "\n";
  }
  { // C06-ok-integrality-when-partially-satisfiable
    MIP_Problem p(2); p.add_constraint(-3*A+3*B >= -3); p.add_constraint(-3*A-3*B >= -13); p.add_constraint(B >= 0);
    p.set_objective_function(4*A+2*B); p.solve();
    std::cout << "LP vertex " << p.optimizing_point();
    p.add_to_integer_space_dimensions(Variables_Set(A)); std::cout << "; after add_to_integer_space_dimensions({A}): OK=" << p.OK() << "\n";
  }
  { // C06-ok-throws-on-pending-dimension
    MIP_Problem p(1); p.add_constraint(A >= 0); p.solve(); p.add_space_dimensions_and_embed(1);
    p.add_to_integer_space_dimensions(Variables_Set(B));
    try { bool ok = p.OK(); std::cout << "OK=" << ok << "\n"; } catch (const std::exception& e) { std::cout << "OK() threw: " << e.what() << "\n"; }
  }
  if (argc > 1) { // C06-bnb-nontermination
    MIP_Problem p(2); p.add_to_integer_space_dimensions(Variables_Set(A, B)); p.add_constraint(-5*A + 5*B >= 3);
    alarm(5); std::cout << "is_satisfiable on {-5A+5B>=3}, A,B integer (killed by SIGALRM after 5 s if it does not return) ..." << std::endl;
    std::cout << p.is_satisfiable() << "\n";
  }
  return 0;
}
