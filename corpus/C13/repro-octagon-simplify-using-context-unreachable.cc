// NOT an aliasing defect (met while checking C13 on fresh, DISTINCT copies).
// Octagonal_Shape<mpq_class>::simplify_using_context_assign(y) runs off the end of its main loop into PPL_UNREACHABLE
// (Octagonal_Shape_templates.hh:3547) and the process dies (abort(); observed as SIGABRT / SIGSEGV depending on the build)
// when the constraints of x and of the context y involve DIFFERENT variables.
// Minimal input (2 dimensions): x = { B >= -3 }, y = { A >= 2 }.  BD_Shape<mpq_class> with the same input returns
// true and leaves x = { B >= -3 } (which(=1) below), as expected.
// Other inputs seen: dim 3, x = {A >= -4, C >= -1000000000007, A + B <= -1}, y = {2A <= 1};  x = {3B >= 4, C - B >= -2}, y = {B <= -4, C - A >= -4}.
#include <iostream>
#include <cstdlib>
#include <gmpxx.h>
#include "ppl-config.h"
#include "Octagonal_Shape_defs.hh"
#include "BD_Shape_defs.hh"
#include "C_Polyhedron_defs.hh"
#include "Init_defs.hh"
using namespace Parma_Polyhedra_Library;
using namespace Parma_Polyhedra_Library::IO_Operators;
static Init init;
int main(int argc, char** argv) {
  int which = argc > 1 ? std::atoi(argv[1]) : 0;
  Variable A(0), B(1);
  if (which == 0) {
    Octagonal_Shape<mpq_class> x(2); x.refine_with_constraint(B >= -3);
    Octagonal_Shape<mpq_class> y(2); y.refine_with_constraint(A >= 2);
    bool b = x.simplify_using_context_assign(y);       // never returns: PPL_UNREACHABLE
    std::cout << b << " " << x.constraints() << std::endl;
  }
  if (which == 1) {
    BD_Shape<mpq_class> x(2); x.refine_with_constraint(B >= -3);
    BD_Shape<mpq_class> y(2); y.refine_with_constraint(A >= 2);
    bool b = x.simplify_using_context_assign(y);
    std::cout << b << " " << x.constraints() << std::endl;   // 1 B >= -3
  }
  return 0;
}
