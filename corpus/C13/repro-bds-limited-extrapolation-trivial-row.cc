// NOT an aliasing defect (met while checking C13; belongs to the checks of the weakly relational domains).
// BD_Shape<T>::limited_BHMZ05_extrapolation_assign / limited_CC76_extrapolation_assign (and the Octagonal_Shape twins)
// crash when `cs` contains a constraint WITHOUT variables, e.g. the `0 = 1` that constraints() of an empty shape returns:
// get_limiting_shape (BD_Shape_templates.hh ~3152-3164) accepts the row (extract_bounded_difference says "0 variables",
// coeff = 0), then reads dbm[i][j] with i = j = 0 and calls div_round_up(d, c.inhomogeneous_term(), coeff) with coeff == 0.
// Observed: SIGSEGV for both BD_Shape calls below (which = 0, 1); receiver and argument are DISTINCT objects.
// The Octagonal_Shape twin (which = 2) did not crash on this input.
// build: g++ -std=c++11 -DHAVE_CONFIG_H -I<ppl>/src -I<ppl> repro.cc <libppl objects> -lgmpxx -lgmp
#include <iostream>
#include <cstdlib>
#include <gmpxx.h>
#include "ppl-config.h"
#include "BD_Shape_defs.hh"
#include "Octagonal_Shape_defs.hh"
#include "C_Polyhedron_defs.hh"
#include "Init_defs.hh"
using namespace Parma_Polyhedra_Library;
using namespace Parma_Polyhedra_Library::IO_Operators;
static Init init;
int main(int argc, char** argv) {
  int which = argc > 1 ? std::atoi(argv[1]) : 0;
  Variable A(0), B(1);
  Constraint_System cs;
  cs.insert(Linear_Expression(0) == 1);            // what constraints() of an empty shape returns
  cs.set_space_dimension(2);
  if (which == 0) {
    BD_Shape<mpq_class> x(2);
    x.refine_with_constraint(A <= -3); x.refine_with_constraint(B <= -2);
    (void) x.minimized_constraints();
    BD_Shape<mpq_class> y(x);                      // y == x, so y is contained in x as required
    x.limited_BHMZ05_extrapolation_assign(y, cs);  // crashes
    std::cout << "BD_Shape BHMZ05: " << x.constraints() << std::endl;
  }
  if (which == 1) {
    BD_Shape<mpq_class> x(2);
    x.refine_with_constraint(A <= -3); x.refine_with_constraint(B <= -2);
    (void) x.minimized_constraints();
    BD_Shape<mpq_class> y(x);
    x.limited_CC76_extrapolation_assign(y, cs);    // crashes
    std::cout << "BD_Shape CC76: " << x.constraints() << std::endl;
  }
  if (which == 2) {
    Octagonal_Shape<mpq_class> x(2);
    x.refine_with_constraint(A <= -3); x.refine_with_constraint(B <= -2);
    (void) x.minimized_constraints();
    Octagonal_Shape<mpq_class> y(x);
    x.limited_BHMZ05_extrapolation_assign(y, cs);
    std::cout << "Octagonal_Shape BHMZ05: " << x.constraints() << std::endl;
  }
  return 0;
}
