// NOT an aliasing defect (met while checking C13; belongs to C01/C02-style checks of polyhedra).
// NNC_Polyhedron::positive_time_elapse_assign(y) on a receiver that has PENDING GENERATORS leaves the receiver with
// status  -CS +GS -CP +GP  (generators pending although constraints are not up to date): OK() is false afterwards,
// and later operations on that object behave erratically (a copy of it read through constraints() printed the universe).
// Minimal input (1 dimension): x = universe, generators minimized, then x.add_generator(point(A)) (makes the generator
// pending); y = universe;  x.positive_time_elapse_assign(y);  x.OK() == false.
// Without the pending generator (which = 0) OK() is true.
#include <iostream>
#include <cstdlib>
#include <gmpxx.h>
#include "ppl-config.h"
#include "NNC_Polyhedron_defs.hh"
#include "C_Polyhedron_defs.hh"
#include "Init_defs.hh"
using namespace Parma_Polyhedra_Library;
using namespace Parma_Polyhedra_Library::IO_Operators;
static Init init;
int main(int argc, char** argv) {
  int which = argc > 1 ? std::atoi(argv[1]) : 1;
  Variable A(0);
  NNC_Polyhedron x(1), y(1);
  if (which >= 1) { (void) x.minimized_generators(); x.add_generator(point(A)); }   // status: ... +GS -CP +GP
  x.positive_time_elapse_assign(y);
  std::cout << "OK() after positive_time_elapse_assign: " << x.OK(true) << std::endl;   // 0 when which >= 1
  x.ascii_dump(std::cout);
  return 0;
}
