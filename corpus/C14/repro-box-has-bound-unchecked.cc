// Side lead found by the C20 drivers (C interface), reproduced here through the C++ API only.
//
// (1) Box<ITV>::has_lower_bound(Variable, n, d, closed) / has_upper_bound (src/Box_inlines.hh:270/294) index `seq[var.id()]`
//     after a PPL_ASSERT only: in a release build (assertions off) a Variable outside the box's space dimension reads past
//     the end of the interval sequence -- garbage answer or SIGSEGV -- where every other Box method taking a Variable throws
//     std::invalid_argument.  Reachable from C through ppl_<Box>_has_lower_bound / has_upper_bound (no exception to map:
//     the wrapper cannot report it).  Suggested fix: `if (k >= space_dimension()) throw_dimension_incompatible(...)`.
// (2) linear_partition(p, q) (src/Pointset_Powerset_templates.hh) checks dimensions only while iterating over p's
//     constraints: with p a universe (no constraints) a q of another dimension is accepted silently.
//
// build (see tools/common.py):  g++ -std=c++11 -DHAVE_CONFIG_H -I<lib>/cfg -I/repo/src -I/repo -O1 -frounding-math -w \
//          repro-box-has-bound-unchecked.cc <lib>/libppl_verif.a -lgmpxx -lgmp
// observed on /repo 567b797:  part (2) prints "no exception"; part (1) prints a bound read out of range or dies with SIGSEGV.
#include <iostream>
#include <gmpxx.h>
#include "ppl-config.h"
#include "Box_defs.hh"
#include "Rational_Box.hh"
#include "C_Polyhedron_defs.hh"
#include "NNC_Polyhedron_defs.hh"
#include "Pointset_Powerset_defs.hh"
#include "Init_defs.hh"
using namespace Parma_Polyhedra_Library;
static Init init;

int main() {
  {
    C_Polyhedron p(2), q(3);
    q.add_constraint(Variable(2) >= 1);
    try {
      std::pair<C_Polyhedron, Pointset_Powerset<NNC_Polyhedron> > r = linear_partition(p, q);
      std::cout << "(2) linear_partition(universe of dim 2, polyhedron of dim 3): no exception; intersection has dimension "
                << r.first.space_dimension() << std::endl;
    }
    catch (const std::invalid_argument& e) { std::cout << "(2) invalid_argument (expected): " << e.what() << std::endl; }
  }
  {
    Rational_Box box(2);
    box.add_constraint(Variable(0) >= 1);
    box.add_constraint(Variable(1) <= 3);
    Coefficient n, d; bool closed = false;
    try {
      for (dimension_type v = 2; v < 200000; v = v * 3 + 1) {
        bool b = box.has_lower_bound(Variable(v), n, d, closed);
        std::cout << "(1) 2-dimensional box, has_lower_bound(Variable(" << v << ")) returned " << b << " without any exception" << std::endl;
      }
    }
    catch (const std::invalid_argument& e) { std::cout << "(1) invalid_argument (expected): " << e.what() << std::endl; }
  }
  return 0;
}
