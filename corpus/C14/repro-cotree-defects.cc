// Standalone reproduction (no harness code) of the two CO_Tree exception-safety defects recorded for C14.
//   (1) Sparse_Row(const Dense_Row&) -> CO_Tree(Iterator, n): a coefficient copy that throws leaks indexes[] / data[].
//   (2) Sparse_Row::operator= -> CO_Tree::operator= -> CO_Tree::init: when `new` throws, the cached end iterator dangles.
// build: g++ -std=c++11 -DHAVE_CONFIG_H -I<cfg> -I/repo/src -I/repo repro-cotree-defects.cc libppl_verif.a -lgmpxx -lgmp
#include <gmpxx.h>
#include <new>
#include <cstdlib>
#include <cstdio>
#include <iostream>
#include "ppl-config.h"
#include "Sparse_Row_defs.hh"
#include "Dense_Row_defs.hh"
#include "initializer.hh"
using namespace Parma_Polyhedra_Library;
static Init init_ppl;
static long live_new = 0, new_count = 0, new_fail_at = 0;
static long gmp_count = 0, gmp_fail_at = 0;
void* operator new(size_t n) { if (new_fail_at && ++new_count == new_fail_at) throw std::bad_alloc(); ++live_new; return std::malloc(n ? n : 1); }
void* operator new[](size_t n) { return operator new(n); }
void operator delete(void* p) noexcept { if (p) { --live_new; std::free(p); } }
void operator delete[](void* p) noexcept { operator delete(p); }
void operator delete(void* p, size_t) noexcept { operator delete(p); }
void operator delete[](void* p, size_t) noexcept { operator delete(p); }
static void* g_alloc(size_t n) { if (gmp_fail_at && ++gmp_count == gmp_fail_at) throw std::bad_alloc(); return std::malloc(n); }
static void* g_realloc(void* p, size_t, size_t n) { return std::realloc(p, n); }
static void g_free(void* p, size_t) { std::free(p); }
__attribute__((constructor(101))) static void install() { mp_set_memory_functions(g_alloc, g_realloc, g_free); }

int main() {
  // (1)
  {
    Dense_Row d(4); d[0] = 5; d[2] = 7;
    long before = live_new;
    gmp_count = 0; gmp_fail_at = 1;              // the first coefficient copy fails
    try { Sparse_Row s(d); std::printf("(1) not reached\n"); } catch (const std::bad_alloc&) {}
    gmp_fail_at = 0;
    std::printf("(1) operator-new blocks leaked by Sparse_Row(const Dense_Row&): %ld (expected 0)\n", live_new - before);
  }
  // (2)
  {
    Sparse_Row a(20), b(20);
    for (int i = 1; i < 20; i += 2) a.insert(i, Coefficient(i));
    b.insert(3, Coefficient(1));
    new_count = 0; new_fail_at = 1;              // the index array of the new tree cannot be allocated
    try { b = a; std::printf("(2) not reached\n"); } catch (const std::bad_alloc&) {}
    new_fail_at = 0;
    std::printf("(2) after the failed assignment: walking b.begin()..b.end() (b is documented to be the empty tree) ...\n"); std::fflush(stdout);
    long n = 0; for (Sparse_Row::const_iterator i = b.begin(), e = b.end(); i != e; ++i) { ++n; if (n > 1000000) break; }
    std::printf("(2) visited %ld elements (expected 0)\n", n);
  }
  return 0;
}
