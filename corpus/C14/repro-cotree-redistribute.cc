// Standalone reproduction (no harness code): a GMP allocation failure inside CO_Tree::redistribute_elements_in_subtree
// (reached from Sparse_Row::insert -> CO_Tree::insert_precise -> rebalance) leaves the tree inconsistent:
// the row still passes OK() but the next erase (Sparse_Row::reset) crashes in CO_Tree::count_used_in_subtree.
#include <gmpxx.h>
#include <new>
#include <cstdlib>
#include <cstdio>
#include <iostream>
#include "ppl-config.h"
#include "Sparse_Row_defs.hh"
#include "initializer.hh"
using namespace Parma_Polyhedra_Library;
static Init init_ppl;
static long gmp_count = 0, gmp_fail_at = 0;
static void* g_alloc(size_t n) { if (gmp_fail_at && ++gmp_count == gmp_fail_at) throw std::bad_alloc(); return std::malloc(n); }
static void* g_realloc(void* p, size_t, size_t n) { return std::realloc(p, n); }
static void g_free(void* p, size_t) { std::free(p); }
__attribute__((constructor(101))) static void install() { mp_set_memory_functions(g_alloc, g_realloc, g_free); }

int main() {
  int bad = 0;
  for (long k = 1; k < 200; ++k) {
    Sparse_Row* r = new Sparse_Row(40);
    for (int i = 1; i < 40; i += 13) r->insert(i, Coefficient(i));
    bool thrown = false;
    gmp_count = 0; gmp_fail_at = k;
    try { for (int i = 0; i < 12; ++i) r->insert(2 * i, Coefficient(i + 1)); }
    catch (const std::bad_alloc&) { thrown = true; }
    gmp_fail_at = 0;
    if (!thrown) { delete r; break; }
    bool ok = r->OK();
    std::printf("k=%ld: insert interrupted, OK()=%d; follow-up insert(39) + reset(2) ...\n", k, (int) ok); std::fflush(stdout);
    r->insert(39, Coefficient(1)); r->reset(2);          // crashes (SIGSEGV in CO_Tree::count_used_in_subtree) for the position inside redistribute_elements_in_subtree
    if (!r->OK()) { ++bad; std::printf("k=%ld: invalid after the follow-up\n", k); }
    delete r;
  }
  std::printf("fault positions leaving an invalid row: %d (expected 0)\n", bad);
  return 0;
}
