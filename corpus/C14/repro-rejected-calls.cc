// Standalone reproduction (no harness code) of the rejected-call defects recorded in known_findings.d/C14.rejdom.json.
// Each line prints what the documentation promises and what the library does.
#include "ppl-config.h"
#include <gmpxx.h>
#include <iostream>
#include <sstream>
#include <stdexcept>
#include "Grid_defs.hh"
#include "Box_defs.hh"
#include "BD_Shape_defs.hh"
#include "Octagonal_Shape_defs.hh"
#include "Pointset_Powerset_defs.hh"
#include "Partially_Reduced_Product_defs.hh"
#include "C_Polyhedron_defs.hh"
#include "PIP_Problem_defs.hh"
#include "Rational_Box.hh"
#include "initializer.hh"
using namespace Parma_Polyhedra_Library;
static Init init_ppl;
template <typename F> static std::string run(F f) {
  try { f(); return "no exception"; }
  catch (const std::invalid_argument&) { return "std::invalid_argument"; } catch (const std::length_error&) { return "std::length_error"; }
  catch (const std::bad_alloc&) { return "std::bad_alloc"; } catch (const std::exception& e) { return std::string("other: ") + e.what(); }
}
template <typename D> static std::string dump(const D& d) { std::ostringstream os; d.ascii_dump(os); return os.str(); }
int main() {
  Variable A(0), B(1), C(2);
  { Grid g(3, EMPTY); std::cout << "G1 Grid(3,EMPTY).add_constraint(A >= 1)            documented invalid_argument : " << run([&]() { g.add_constraint(A >= 1); }) << "\n"; }
  { Rational_Box x(3), y(4); x.add_constraint(A <= 5); std::string b = dump(x);
    std::cout << "G2 Box(dim 3).CC76_widening_assign(Box(dim 4))         documented invalid_argument : " << run([&]() { x.CC76_widening_assign(y); }) << (dump(x) == b ? "" : ", receiver changed") << "\n"; }
  { Rational_Box x(3); std::cout << "G3 Box.expand_space_dimension(A, max)                  documented length_error     : " << run([&]() { x.expand_space_dimension(A, Rational_Box::max_space_dimension()); }) << "\n"; }
  { Rational_Box x(3); Constraint_System cs; cs.insert(A == 1); cs.insert(B == 2); cs.insert(A + B <= 3); Rational_Box s(x);
    std::string r = run([&]() { x.add_constraints(cs); });
    std::cout << "G4 Box.add_constraints({A==1, B==2, A+B<=3})           rejected (" << r << "), receiver unchanged: " << (x == s ? "yes" : "NO (A==1, B==2 were added)") << "\n"; }
  { BD_Shape<mpq_class> x(3); Constraint_System cs; cs.insert(A == 1); cs.insert(A + B <= 3); BD_Shape<mpq_class> s(x);
    std::string r = run([&]() { x.add_constraints(cs); });
    std::cout << "G4 BD_Shape.add_constraints({A==1, A+B<=3})            rejected (" << r << "), receiver unchanged: " << (x == s ? "yes" : "NO") << "\n"; }
  { Octagonal_Shape<mpq_class> x(3); Constraint_System cs; cs.insert(A == 1); cs.insert(2 * A - B <= 3); Octagonal_Shape<mpq_class> s(x);
    std::string r = run([&]() { x.add_constraints(cs); });
    std::cout << "G4 Octagonal_Shape.add_constraints({A==1, 2A-B<=3})    rejected (" << r << "), receiver unchanged: " << (x == s ? "yes" : "NO") << "\n"; }
  { Grid x(3); Constraint_System cs; cs.insert(A == 1); cs.insert(B >= 1); Grid s(x);
    std::string r = run([&]() { x.add_constraints(cs); });
    std::cout << "G4 Grid.add_constraints({A==1, B>=1})                  rejected (" << r << "), receiver unchanged: " << (x == s ? "yes" : "NO") << "\n"; }
  { Pointset_Powerset<C_Polyhedron> p(3, EMPTY);
    std::cout << "G6 Powerset(3,EMPTY).add_constraint(Variable(3) == 1)  documented invalid_argument : " << run([&]() { p.add_constraint(Variable(3) == 1); }) << "\n";
    std::cout << "G6 Powerset(3,EMPTY).affine_image(A, B, 0)             documented invalid_argument : " << run([&]() { p.affine_image(A, Linear_Expression(B), Coefficient(0)); }) << "\n";
    Pointset_Powerset<C_Polyhedron> u(3, UNIVERSE);
    std::cout << "G6 Powerset(dim 3).remove_higher_space_dimensions(4)   documented invalid_argument : " << run([&]() { u.remove_higher_space_dimensions(4); }) << "\n";
    Pointset_Powerset<C_Polyhedron> y4(4, UNIVERSE);
    std::cout << "G6 Powerset(dim 3).difference_assign(Powerset(dim 4))  documented invalid_argument : " << run([&]() { u.difference_assign(y4); }) << "\n"; }
  { typedef Domain_Product<C_Polyhedron, Grid>::Direct_Product DP; DP e(3, EMPTY);
    std::cout << "G7 Direct_Product(3,EMPTY).maximize(Variable(3), ...)  documented invalid_argument : " << run([&]() { Coefficient n, d; bool m; (void) e.maximize(Linear_Expression(Variable(3)), n, d, m); }) << "\n";
    std::string r = run([&]() { e.add_space_dimensions_and_embed(DP::max_space_dimension() - 2); });
    std::cout << "G7 Direct_Product(3,EMPTY).add_space_dimensions_and_embed(max-2) rejected (" << r << "), space dimension afterwards " << e.space_dimension() << " (was 3), OK() = " << e.OK() << "\n"; }
  { Constraint_System cs; cs.insert(A >= 0); cs.insert(B <= C); Variables_Set par; par.insert(C);
    PIP_Problem p(3, cs.begin(), cs.end(), par); (void) p.solve();
    Variables_Set vs; vs.insert(A);
    std::string r = run([&]() { p.add_to_parameter_space_dimensions(vs); });
    std::cout << "G8 PIP(solved).add_to_parameter_space_dimensions({A}), A a variable: " << r << ", parameters afterwards: " << p.parameter_space_dimensions().size() << " (was 1)\n"; }
  return 0;
}
