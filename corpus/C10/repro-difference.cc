// Partially_Reduced_Product::difference_assign loses points (public API only)
#include <iostream>
#include <gmpxx.h>
#include "ppl-config.h"
#include "initializer.hh"
#include "Partially_Reduced_Product_defs.hh"
#include "C_Polyhedron_defs.hh"
#include "Grid_defs.hh"
using namespace Parma_Polyhedra_Library;
using namespace Parma_Polyhedra_Library::IO_Operators;
static Init init_;
int main() {
  Variable A(0);
  typedef Domain_Product<C_Polyhedron, Grid>::Constraints_Product CP;
  CP x(1), y(1);
  x.refine_with_congruence((A %= 0) / 1);      // x = (R, Z)        : the integers
  y.refine_with_congruence((A %= 0) / 1);
  y.refine_with_constraint(A >= 0);            // y = ({A>=0}, Z)   : the non-negative integers
  CP d(x);
  d.difference_assign(y);                      // should contain -1, -2, ...
  std::cout << "x \\ y = " << d << "is_empty = " << d.is_empty() << std::endl;
  CP m(1); m.refine_with_constraint(A == -1);
  std::cout << "x contains {-1}: " << x.contains(m) << ", y contains {-1}: " << y.contains(m)
            << ", (x\\y) contains {-1}: " << d.contains(m) << std::endl;
  return 0;
}
