// Grid::maximize ignores the divisor of the grid's point when adding the inhomogeneous term
#include <iostream>
#include <gmpxx.h>
#include "ppl-config.h"
#include "initializer.hh"
#include "Grid_defs.hh"
#include "Partially_Reduced_Product_defs.hh"
using namespace Parma_Polyhedra_Library;
using namespace Parma_Polyhedra_Library::IO_Operators;
static Init init_;
int main() {
  Variable A(0);
  Grid g(1);
  g.add_constraint(3*A == 7);                 // the single point A = 7/3
  Coefficient n, d; bool m;
  bool r = g.maximize(3*A + 1, n, d, m);      // value is 3*(7/3) + 1 = 8
  std::cout << "maximize(3A+1) on {A = 7/3}: " << r << " " << n << "/" << d << "   (expected 8/1)" << std::endl;
  typedef Domain_Product<Grid, Grid>::Congruences_Product GG;
  GG p(1);
  // build the pair ( {3A+1 = 0 mod 2}, {3A = 7} ) : A = 7/3 is in both (3*7/3+1 = 8 = 0 mod 2)
  Grid g1(1); g1.add_congruence((3*A + 1 %= 0) / 2);
  GG q1(g1), q2(g);                           // (g1,g1) and (g,g)
  // public route: components cannot be set independently through the public API except via ascii_load;
  // show the consequence directly on the free function the reduction calls
  Grid a(g1), b(g);
  Congruence cg((3*A + 1 %= 0) / 2);
  bool ret = shrink_to_congruence_no_check(a, b, cg);
  std::cout << "shrink_to_congruence_no_check returned " << ret << "; a empty: " << a.is_empty() << ", b empty: " << b.is_empty()
            << "   (A = 7/3 is in both: expected non-empty)" << std::endl;
  return 0;
}
