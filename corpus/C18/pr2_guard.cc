// Standalone reproducer of finding C18-pr2-guard (no harness code involved).
//   before = universe (1 dim), after = { x >= 1, x' <= x - 1 }  (x' = A, x = B)
// termination_test_MS_2 -> 1 (ranking function x), termination_test_PR_2 -> 0,
// while termination_test_PR on the single pointset `after` -> 1.
#include <iostream>
#include <gmpxx.h>
#include "ppl-config.h"
#include "C_Polyhedron_defs.hh"
#include "NNC_Polyhedron_defs.hh"
#include "termination_defs.hh"
#include "initializer.hh"
using namespace Parma_Polyhedra_Library;
static Init ini;
int main() {
  Variable A(0), B(1);
  C_Polyhedron before(1, UNIVERSE);
  C_Polyhedron after(2, UNIVERSE);
  after.add_constraint(B >= 1);
  after.add_constraint(A <= B - 1);
  std::cout << "MS_2 " << termination_test_MS_2(before, after)
            << "  PR_2 " << termination_test_PR_2(before, after)
            << "  MS " << termination_test_MS(after)
            << "  PR " << termination_test_PR(after) << std::endl;
  NNC_Polyhedron s; all_affine_ranking_functions_PR_2(before, after, s);
  std::cout << "PR_2 space empty: " << s.is_empty() << std::endl;
  return 0;
}
