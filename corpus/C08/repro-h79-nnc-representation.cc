// C08 finding 1: H79_widening_assign on NNC polyhedra depends on the representation of its arguments.
// x = { A > 1 },  y = { 1 < A <= 3 }  (y <= x).  With y built from constraints the widening is { A > 1 };
// with the SAME y built from generators (closure point 1, closure point 3, point 3) it is the universe.
#include <iostream>
#include <gmpxx.h>
#include "ppl-config.h"
#include "NNC_Polyhedron_defs.hh"
#include "initializer.hh"
using namespace Parma_Polyhedra_Library;
static Init init_ppl;
int main() {
  Variable A(0);
  Constraint_System ycs; ycs.insert(A > 1); ycs.insert(A <= 3);
  NNC_Polyhedron y1(ycs);
  Generator_System ygs; ygs.insert(closure_point(A)); ygs.insert(closure_point(3*A)); ygs.insert(point(3*A));
  NNC_Polyhedron y2(ygs);
  NNC_Polyhedron x1(1, UNIVERSE); x1.add_constraint(A > 1);
  NNC_Polyhedron x2(x1);
  std::cout << "y1 == y2: " << (y1 == y2) << "  x contains y: " << x1.contains(y1) << x2.contains(y2) << std::endl;
  x1.H79_widening_assign(y1);
  x2.H79_widening_assign(y2);
  using IO_Operators::operator<<;
  std::cout << "widening with y from constraints: " << x1 << std::endl;
  std::cout << "widening with y from generators : " << x2 << std::endl;
  std::cout << "results equal: " << (x1 == x2) << std::endl;
  return (x1 == x2) ? 0 : 1;
}
