// C08: Grid::congruence_widening_assign (= widening_assign) depends on the congruence system its larger argument
// was built from: the minimized congruence system of a grid is not unique (rows are not reduced against each other),
// and select_wider_congruences compares rows of the two minimized systems positionally.
#include <iostream>
#include <gmpxx.h>
#include "ppl-config.h"
#include "Grid_defs.hh"
#include "initializer.hh"
using namespace Parma_Polyhedra_Library;
static Init init_ppl;
int main() {
  Variable A(0), B(1);
  using IO_Operators::operator<<;
  Grid y(2);  y.add_congruence((A + 16*B + 13 %= 0) / 48); y.add_congruence((3*A - 9 %= 0) / 48);
  Grid x1(2); x1.add_congruence((2*A + 8*B + 2 %= 0) / 24); x1.add_congruence((3*A - 9 %= 0) / 24);
  Grid x2(2); x2.add_congruence((-A + 8*B + 11 %= 0) / 24); x2.add_congruence((3*A - 9 %= 0) / 24);
  std::cout << "x1 == x2: " << (x1 == x2) << "   y <= x1: " << x1.contains(y) << "   y <= x2: " << x2.contains(y) << std::endl;
  Grid w1(x1), w2(x2);
  w1.congruence_widening_assign(y);
  w2.congruence_widening_assign(y);
  std::cout << "x1 widen y = " << w1 << std::endl << "x2 widen y = " << w2 << std::endl << "equal: " << (w1 == w2) << std::endl;
  return (w1 == w2) ? 0 : 1;
}
