// C08 finding 3: BHRZ03_widening_assign on C polyhedra with lines depends on the representation of its arguments
// (through the non-canonical num_rays_null_coord of BHRZ03_Certificate: rays are counted as stored, not reduced
// modulo the lines).  x = {A+5B+5C >= -6, 2A-B >= 1},  y = {A+5B+5C >= 0, 2A-B >= 1},  y <= x, y != x.
#include <iostream>
#include <gmpxx.h>
#include "ppl-config.h"
#include "C_Polyhedron_defs.hh"
#include "initializer.hh"
using namespace Parma_Polyhedra_Library;
static Init init_ppl;
int main() {
  Variable A(0), B(1), C(2);
  Constraint_System xc; xc.insert(A + 5*B + 5*C >= -6); xc.insert(2*A - B >= 1);
  Constraint_System yc; yc.insert(A + 5*B + 5*C >= 0); yc.insert(2*A - B >= 1);
  Generator_System xg; xg.insert(line(5*A + 10*B - 11*C)); xg.insert(ray(A + 2*B)); xg.insert(ray(5*A - B)); xg.insert(point(-5*B - C, 5));
  Generator_System yg; yg.insert(line(5*A + 10*B - 11*C)); yg.insert(ray(A + 2*B)); yg.insert(ray(5*A - B)); yg.insert(point(5*A - B, 11));
  using IO_Operators::operator<<;
  int differ = 0;
  C_Polyhedron ref(3);
  for (int i = 0; i < 4; ++i) {
    C_Polyhedron x = (i & 1) ? C_Polyhedron(xg) : C_Polyhedron(xc);
    C_Polyhedron y = (i & 2) ? C_Polyhedron(yg) : C_Polyhedron(yc);
    bool same_x = (x == C_Polyhedron(xc)), same_y = (y == C_Polyhedron(yc)), pre = x.contains(y);
    x.BHRZ03_widening_assign(y);
    std::cout << "x from " << ((i & 1) ? "generators " : "constraints") << ", y from " << ((i & 2) ? "generators " : "constraints")
              << " (same sets: " << same_x << same_y << ", y <= x: " << pre << "):  " << x << std::endl;
    if (i == 0) ref = x; else if (x != ref) ++differ;
  }
  return differ ? 1 : 0;
}
