// C08: Grid::limited_congruence_extrapolation_assign / limited_generator_extrapolation_assign can add a supplied
// congruence that x does NOT satisfy: the result no longer contains x (here it is empty).
#include <iostream>
#include <gmpxx.h>
#include "ppl-config.h"
#include "Grid_defs.hh"
#include "initializer.hh"
using namespace Parma_Polyhedra_Library;
static Init init_ppl;
int main() {
  Variable A(0), B(1), C(2);
  using IO_Operators::operator<<;
  int bad = 0;
  for (int how = 0; how < 2; ++how) {
    Grid y(3); y.add_constraint(C == -1);
    Grid x(3);
    if (how == 0) x.add_constraint(C == -1);
    else { Grid_Generator_System gs; gs.insert(grid_point(-3*C, 3)); gs.insert(grid_line(A)); gs.insert(grid_line(B));
           gs.insert(grid_point(6*B - 3*C, 3)); gs.insert(parameter(A, 3)); gs.insert(parameter(18*B, 3)); x = Grid(gs); }
    Congruence_System cgs; cgs.insert((A - 2 %= 0) / 3); cgs.insert((C - 3 %= 0) / 3);
    Grid x0(x);
    std::cout << "x = " << x << "   x == y: " << (x == y) << "   x relation with C = 3 (mod 3): ";
    Poly_Con_Relation r = x.relation_with((C - 3 %= 0) / 3);
    std::cout << (r == Poly_Con_Relation::is_included() ? "is_included" : r == Poly_Con_Relation::is_disjoint() ? "is_disjoint" : "other") << std::endl;
    Grid z(x);
    z.limited_congruence_extrapolation_assign(y, cgs);
    std::cout << "  limited_congruence_extrapolation: " << z << "   contains x: " << z.contains(x0) << std::endl;
    if (!z.contains(x0)) ++bad;
    Grid w(x);
    w.limited_generator_extrapolation_assign(y, cgs);
    std::cout << "  limited_generator_extrapolation : " << w << "   contains x: " << w.contains(x0) << std::endl;
    if (!w.contains(x0)) ++bad;
  }
  return bad ? 1 : 0;
}
