// C08 finding 2: BHRZ03_Certificate is not a function of the polyhedron when it has lines: the component
// num_rays_null_coord counts zero coordinates of the rays of whatever minimized generator system the object holds,
// and rays are only determined up to multiples of the lines.
// The same polyhedron {A - C >= 4, 4A + B >= 3} from its constraints (minimized rays (0,1,0),(0,0,-1), line (1,-4,1))
// and from the generators line (1,-4,1), rays (1,-4,0),(0,1,0), point (4,-13,0).
#include <iostream>
#include <gmpxx.h>
#include "ppl-config.h"
#include "C_Polyhedron_defs.hh"
#include "BHRZ03_Certificate_defs.hh"
#include "initializer.hh"
using namespace Parma_Polyhedra_Library;
static Init init_ppl;
int main() {
  Variable A(0), B(1), C(2);
  Constraint_System cs; cs.insert(A - C >= 4); cs.insert(4*A + B >= 3);
  Generator_System g2; g2.insert(line(A - 4*B + C)); g2.insert(ray(A - 4*B)); g2.insert(ray(B)); g2.insert(point(4*A - 13*B));
  C_Polyhedron p1(cs), p2(g2);
  std::cout << "p1 == p2: " << (p1 == p2) << std::endl;
  BHRZ03_Certificate c1(p1), c2(p2);
  std::cout << "c1.compare(c2) = " << c1.compare(c2) << "  c1.compare(p2) = " << c1.compare(p2)
            << "  c2.compare(p1) = " << c2.compare(p1) << "  c2.is_stabilizing(p1) = " << c2.is_stabilizing(p1) << std::endl;
  return c1.compare(c2) == 0 ? 0 : 1;
}
