// C08: Pointset_Powerset<C_Polyhedron>::BHZ03_widening_assign<H79_Certificate>(H79), fourth technique
// (Pointset_Powerset_templates.hh: `ph.difference_assign(bgp99_heuristics_hull); x.add_disjunct(ph);`): the new disjunct
// is the widened hull MINUS the hull of the BGP99-extrapolated powerset, but it is added to x, whose hull can be
// smaller; the hull of the result is then not the widened hull and the step need not decrease the certificate:
// here the result differs from y, its hull has the same H79 certificate as y's hull, and its multiset is larger.
#include <iostream>
#include <map>
#include <gmpxx.h>
#include "ppl-config.h"
#include "C_Polyhedron_defs.hh"
#include "Pointset_Powerset_defs.hh"
#include "H79_Certificate_defs.hh"
#include "Widening_Function_defs.hh"
#include "initializer.hh"
using namespace Parma_Polyhedra_Library;
static Init init_ppl;
typedef Pointset_Powerset<C_Polyhedron> PS;
static C_Polyhedron hull(const PS& s) { C_Polyhedron h(s.space_dimension(), EMPTY); for (PS::const_iterator i = s.begin(); i != s.end(); ++i) h.upper_bound_assign(i->pointset()); return h; }
int main() {
  Variable A(0), B(1);
  using IO_Operators::operator<<;
  C_Polyhedron seg(2); seg.add_constraint(A == -1); seg.add_constraint(B >= -3); seg.add_constraint(B <= -1);
  C_Polyhedron d1(2);  d1.add_constraint(A >= -1); d1.add_constraint(1 - A + B >= 0); d1.add_constraint(B <= 2);
  C_Polyhedron d2(2);  d2.add_constraint(A <= 0); d2.add_constraint(B <= -1); d2.add_constraint(4 + A + B >= 0); d2.add_constraint(A >= -1);
  PS y(2, EMPTY); y.add_disjunct(seg); y.add_disjunct(d1); y.omega_reduce();
  PS x(2, EMPTY); x.add_disjunct(d1); x.add_disjunct(d2); x.omega_reduce();
  std::cout << "y entails x: " << y.definitely_entails(x) << std::endl;
  PS r(x);
  r.BHZ03_widening_assign<H79_Certificate>(y, widen_fun_ref(&Polyhedron::H79_widening_assign));
  r.omega_reduce();
  C_Polyhedron hy = hull(y), hr = hull(r);
  H79_Certificate cy(hy);
  std::cout << "result: " << r << std::endl << "hull(y) = " << hy << std::endl << "hull(result) = " << hr << std::endl;
  int c = cy.compare(hr);
  bool same = r.definitely_entails(y) && y.definitely_entails(r);
  std::cout << "result == y: " << same << "   H79_Certificate(hull y).compare(hull result) = " << c
            << "   #disjuncts y = " << y.size() << ", result = " << r.size() << std::endl;
  return (!same && c != 1 && r.size() > y.size()) ? 1 : 0;
}
