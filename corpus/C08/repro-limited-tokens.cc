// OBSERVATION (precision remark, NOT a finding against C08): limited / bounded extrapolations pass their token pointer
// to the PLAIN widening, exactly as the property and the documentation of the delay technique state ("a token is
// consumed when plain widening would lose precision"); consequently a token can be spent although the extrapolation
// with the supplied limiting system would itself have been precise.  Exit code 1 only signals that this was observed.
#include <iostream>
#include <gmpxx.h>
#include "ppl-config.h"
#include "C_Polyhedron_defs.hh"
#include "BD_Shape_defs.hh"
#include "initializer.hh"
using namespace Parma_Polyhedra_Library;
static Init init_ppl;
template <typename D> static int run(const char* name, bool cc76) {
  Variable A(0), B(1);
  D x(2), y(2);
  x.add_constraint(A >= 0); x.add_constraint(A <= 5); x.add_constraint(B >= 0); x.add_constraint(B <= 1);
  y.add_constraint(A >= 0); y.add_constraint(A <= 4); y.add_constraint(B >= 0); y.add_constraint(B <= 1);
  Constraint_System cs; cs.insert(A <= 5);
  D plain(x); plain.limited_H79_extrapolation_assign(y, cs);
  unsigned t = 1; D tok(x); tok.limited_H79_extrapolation_assign(y, cs, &t);
  std::cout << name << ": limited_H79(y, cs) == x: " << (plain == x) << "   with one token: tokens left " << t << ", object unchanged: " << (tok == x) << std::endl;
  return (plain == x && t != 1) ? 1 : 0;
}
int main() { int r = run<C_Polyhedron>("C_Polyhedron", false); r += run<BD_Shape<mpq_class> >("BD_Shape<mpq_class>", false); return r ? 1 : 0; }
