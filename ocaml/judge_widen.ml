(* Judge for the C08 widening scripts (harness/run_widen.cc): replays the script next to what the real library
   printed.  Untrusted glue: parsing, dispatch, bookkeeping.  Every verdict is a call into code extracted from Coq
   (module Widen): incl_sys / equiv_sys (exact, Base/Sys.v), the certificate transcriptions (Widen/Cert.v), the
   reference limited extrapolation and token numbers (Widen/PolyW.v), the multiset order (Widen/PSet.v).

   usage: judge_widen <script> <obsfile>
   output:  FAIL <case> <step> <kind> | <script line> | <detail>
            UNDECIDED <case> <step> <kind> | <script line>
            GENBUG <case> <step> | <script line> | <why>        (the generator broke a precondition: not judged)
            STAT steps <n> checks <n> undecided <n> cases <n> timeouts <n>
            COV <what> <count>                                                                          *)
open Widen
open Wzutil

let split s = List.filter (fun x -> x <> "") (String.split_on_char ' ' s)

exception Syntax of string

type cur = { mutable t : string list }
let next c = match c.t with x :: r -> c.t <- r; x | [] -> raise (Syntax "missing token")
let nexti c = int_of_string (next c)
let nextz c = z_of_string (next c)
let rec take_z c n = if n = 0 then [] else let x = nextz c in x :: take_z c (n - 1)

let kind_of = function "=" -> EQ | ">=" -> GE | ">" -> GT | k -> raise (Syntax ("kind " ^ k))
let read_con c dim = let k = kind_of (next c) in let b = nextz c in let a = take_z c dim in { ccoefs = a; ccst = b; ckd = k }
let read_cons c dim = let k = nexti c in List.init k (fun _ -> read_con c dim)
let gkind_of = function "l" -> GLine | "r" -> GRay | "p" -> GPoint | "c" -> GClosure | k -> raise (Syntax ("gkind " ^ k))
let read_gen c dim = let k = gkind_of (next c) in let d = nextz c in let a = take_z c dim in { gk = k; gcoefs = a; gdiv = d }
let read_gens c dim = let k = nexti c in List.init k (fun _ -> read_gen c dim)

let nat = nat_of_int
let is_point g = (match g.gk with GPoint -> true | _ -> false)
let has_point gs = List.exists is_point gs
let sys_of_gens dim gs = if has_point gs then cons_of_gens (nat dim) gs else false_sys

let stats_steps = ref 0 and stats_checks = ref 0 and stats_undecided = ref 0 and stats_cases = ref 0
let cov : (string, int) Hashtbl.t = Hashtbl.create 64
let bump k = Hashtbl.replace cov k (1 + try Hashtbl.find cov k with Not_found -> 0)

(* every call into the verified (worst-case exponential) procedures runs under a time budget; exhausting it makes
   the check UNDECIDED, never a verdict *)
exception Timeout
let budget = ref (try float_of_string (Sys.getenv "VERIF_JUDGE_BUDGET") with _ -> 4.0)
let timeouts = ref 0
let armed = ref false
let () = Sys.set_signal Sys.sigalrm (Sys.Signal_handle (fun _ -> if !armed then begin armed := false; raise Timeout end))
let timed (f : unit -> 'a) (dflt : 'a) : 'a =
  let stop () = armed := false; ignore (Unix.setitimer Unix.ITIMER_REAL { Unix.it_interval = 0.0; it_value = 0.0 }) in
  try
    armed := true;
    ignore (Unix.setitimer Unix.ITIMER_REAL { Unix.it_interval = 0.0; it_value = !budget });
    let r = f () in stop (); r
  with Timeout -> stop (); incr timeouts; Gc.compact (); dflt
     | Stack_overflow | Out_of_memory -> stop (); incr timeouts; Gc.compact (); dflt

(* ---- objects ---- *)
type obj = { topo : string; dim : int; flags : string; s : sys; cons : con list; gens : gen list; ok : int;
             lin : int (* dimension of the lineality space, as the library reports it; -1 unknown *);
             w : string (* which operator produced it *); args : int list (* its operands *);
             tok : int (* tokens left after the call that produced it; -1: none *) }
let parse_st tag line =
  let c = { t = split line } in
  if next c <> tag then raise (Syntax ("expected " ^ tag ^ ": " ^ line));
  let id = nexti c in let topo = next c in let dim = nexti c in let flags = next c in
  if next c <> "cons" then raise (Syntax "expected cons");
  let cons = read_cons c dim in
  if next c <> "gens" then raise (Syntax "expected gens");
  let gens = read_gens c dim in
  if next c <> "ok" then raise (Syntax "expected ok");
  let ok = nexti c in
  let lin = (match c.t with "lin" :: v :: _ -> int_of_string v | _ -> -1) in
  id, { topo; dim; flags; s = sys_of_cons cons; cons; gens; ok; lin; w = ""; args = []; tok = -1 }

let pool : (int, obj) Hashtbl.t = Hashtbl.create 64
let get id = try Hashtbl.find pool id with Not_found -> raise (Syntax (Printf.sprintf "unknown object %d" id))

type certs = { bc : bhrz03_cert; hc : h79_cert }
let certs : (int, certs option) Hashtbl.t = Hashtbl.create 64     (* None: empty polyhedron *)

let dimn o = nat (o.dim + 1)
let incl a b = timed (fun () -> incl_sys (dimn a) a.s b.s) None
let equiv a b = timed (fun () -> equiv_sys (dimn a) a.s b.s) None
let equiv_s n s t = timed (fun () -> equiv_sys n s t) None

type verdict = Ok | Fail of string | Undecided
let want expected = function
  | Some b -> if b = expected then Ok else Fail (Printf.sprintf "verified oracle says %b" b)
  | None -> Undecided

let int_of_nat = int_of_nat
let z_is z i = (z = z_of_int i)
let int_of_zsmall z = if z_is z 0 then 0 else if z_is z 1 then 1 else if z_is z (-1) then -1 else 99

let show_bc (b : bhrz03_cert) =
  Printf.sprintf "(%d,%d,%d,%d,[%s])" (int_of_nat b.b_affine_dim) (int_of_nat b.b_lin_space_dim) (int_of_nat b.b_num_constraints)
    (int_of_nat b.b_num_points) (String.concat ";" (List.map (fun x -> string_of_int (int_of_nat x)) b.b_rays))
let show_hc (h : h79_cert) = Printf.sprintf "(%d,%d)" (int_of_nat h.h_affine_dim) (int_of_nat h.h_num_constraints)

(* why two certificates of the same set differ *)
let cert_diff (a : certs) (b : certs) =
  if a.hc = b.hc && a.bc.b_affine_dim = b.bc.b_affine_dim && a.bc.b_lin_space_dim = b.bc.b_lin_space_dim
     && a.bc.b_num_constraints = b.bc.b_num_constraints && a.bc.b_num_points = b.bc.b_num_points
     && a.bc.b_rays <> b.bc.b_rays && int_of_nat a.bc.b_lin_space_dim > 0 then "lines-present-rays-differ"
  else if a.hc = b.hc && a.bc.b_affine_dim = b.bc.b_affine_dim && a.bc.b_lin_space_dim = b.bc.b_lin_space_dim
     && a.bc.b_num_constraints = b.bc.b_num_constraints && a.bc.b_num_points <> b.bc.b_num_points then "points-differ"
  else "other"

let read_bc c =
  (* b ad lin nc np n r0.. ok k *)
  if next c <> "b" then raise (Syntax "expected b");
  let ad = nexti c in let lin = nexti c in let nc = nexti c in let np = nexti c in let n = nexti c in
  let rays = List.init n (fun _ -> nat (nexti c)) in
  if next c <> "ok" then raise (Syntax "expected ok");
  let ok = nexti c in
  { b_affine_dim = nat ad; b_lin_space_dim = nat lin; b_num_constraints = nat nc; b_num_points = nat np; b_rays = rays }, ok

let () =
  let casefile = Sys.argv.(1) and obsfile = Sys.argv.(2) in
  let ic = open_in casefile and io = open_in obsfile in
  let rdo () = try Some (input_line io) with End_of_file -> None in
  let rd () = match rdo () with Some l -> l | None -> raise (Syntax "observation file ended early") in
  let case = ref "?" and step = ref 0 in
  let cur_line = ref "" in
  let report kind v =
    incr stats_checks;
    match v with
    | Ok -> ()
    | Fail d -> Printf.printf "FAIL %s %d %s | %s | %s\n" !case !step kind !cur_line d
    | Undecided -> incr stats_undecided; Printf.printf "UNDECIDED %s %d %s | %s\n" !case !step kind !cur_line in
  let genbug why = Printf.printf "GENBUG %s %d | %s | %s\n" !case !step !cur_line why in
  let expect_res cmd = match split (rd ()) with
    | ["res"; c; "ok"] when c = cmd -> `Ok
    | ["res"; c; "exn"; cls] when c = cmd -> `Exn cls
    | "HARNESS-ERROR" :: _ as l -> Printf.printf "HARNESS %s\n" (String.concat " " l); exit 3
    | l -> raise (Syntax ("expected res " ^ cmd ^ ": " ^ String.concat " " l)) in
  let read_tok () = match split (rd ()) with ["tok"; v] -> int_of_string v | l -> raise (Syntax ("expected tok: " ^ String.concat " " l)) in
  (* optional `key value` pairs after the fixed arguments *)
  let opt key toks = let rec f = function k :: v :: _ when k = key -> Some v | _ :: r -> f r | [] -> None in f toks in
  (try
    while true do
      let line = input_line ic in
      cur_line := line;
      let toks = split line in
      (match toks with
       | [] -> ()
       | "case" :: id :: _ -> case := id; step := 0; Hashtbl.reset pool; Hashtbl.reset certs; incr stats_cases; ignore (rd ())
       | "end" :: _ -> ignore (rd ())
       | "new" :: rest ->
           incr step; incr stats_steps;
           (match expect_res "new" with
            | `Exn cls -> report "input/exception" (Fail ("constructor threw " ^ cls))
            | `Ok ->
              let id, o = parse_st "st" (rd ()) in
              Hashtbl.replace pool id o;
              let c = { t = rest } in
              let _ = nexti c in let _ = next c in let dim = nexti c in let how = next c in
              bump ("new:" ^ how);
              (* the value of a constructed chain element is properties C01/C02's business; what matters here is
                 that the arguments of every widening are nested, which is verified at each call.  Constraint
                 descriptions are cheap to compare, so they are. *)
              (match how with
               | "cons" -> let spec = sys_of_cons (read_cons c dim) in report "input/new" (want true (equiv_s (nat (dim + 1)) o.s spec))
               | _ -> ());
              report "input/OK" (if o.ok = 1 then Ok else Fail "OK() false"))
       | ["newe"; _; _; _; st; _] ->
           incr step; incr stats_steps;
           (match expect_res "newe" with
            | `Exn cls -> report "input/exception" (Fail ("constructor threw " ^ cls))
            | `Ok ->
              let id, o = parse_st "st" (rd ()) in
              Hashtbl.replace pool id o;
              bump ("empty:" ^ st); bump ("emptyflags:" ^ o.topo ^ ":" ^ o.flags);
              (* the generator's claim: this object denotes the empty set *)
              (match timed (fun () -> nonempty_sys (dimn o) o.s) None with
               | Some false -> ()
               | Some true -> Printf.printf "GENBUG %s %d | %s | the object is not empty\n" !case !step line
               | None -> report "input/empty" Undecided);
              report "input/OK" (if o.ok = 1 then Ok else Fail "OK() false"))
       | ["mk"; id; route; src; _] ->
           incr step; incr stats_steps;
           (match expect_res "mk" with
            | `Exn cls -> report ("route/" ^ route ^ "/exception") (Fail ("threw " ^ cls))
            | `Ok ->
              let id', o = parse_st "st" (rd ()) in
              assert (id' = int_of_string id);
              Hashtbl.replace pool id' o;
              bump ("route:" ^ route); bump ("flags:" ^ o.flags);
              report ("route/" ^ route) (want true (equiv o (get (int_of_string src))));
              report ("route/" ^ route ^ "/OK") (if o.ok = 1 then Ok else Fail "OK() false"))
       | ["hull"; id; a; b] ->
           incr step; incr stats_steps;
           (match expect_res "hull" with
            | `Exn cls -> report "hull/exception" (Fail ("threw " ^ cls))
            | `Ok ->
              let id', o = parse_st "st" (rd ()) in
              Hashtbl.replace pool id' o;
              report "hull/upper-bound" (want true (incl (get (int_of_string a)) o));
              report "hull/upper-bound" (want true (incl (get (int_of_string b)) o)))
       | "widen" :: w :: id :: x :: y :: t :: extra ->
           incr step; incr stats_steps;
           (* extra parameters (custom stop points) are part of the call, not of the operator's name *)
           let w = (match String.index_opt w '[' with
             | Some i -> bump ("stop-points:" ^ string_of_int (List.length (List.filter (fun z -> z <> "") (String.split_on_char ',' (String.sub w (i + 1) (String.length w - i - 2))))));
                         String.sub w 0 i
             | None -> w) in
           let t = int_of_string t in
           bump ("widen:" ^ w ^ (if t < 0 then "" else if t = 0 then "/tok0" else "/tok"));
           (match expect_res "widen" with
            | `Exn cls -> report (w ^ "/exception") (Fail ("well-formed call threw " ^ cls))
            | `Ok ->
              let t' = read_tok () in
              let id', r = parse_st "st" (rd ()) in
              let _, ya = parse_st "sty" (rd ()) in
              let w = if r.topo = "C" || r.topo = "NNC" then w else r.topo ^ "." ^ w in
              let r = { r with w = w; args = [int_of_string x; int_of_string y]; tok = t' } in
              assert (id' = int_of_string id);
              Hashtbl.replace pool id' r;
              let xo = get (int_of_string x) and yo = get (int_of_string y) in
              (match incl yo xo with
               | Some true ->
                 bump ("flagsx:" ^ xo.flags);
                 report (w ^ "/upper-bound") (want true (incl xo r));
                 report (w ^ "/arg-changed") (want true (equiv ya yo));
                 (* an empty smaller argument: every widening is the identity on x, and no token is spent *)
                 (match timed (fun () -> nonempty_sys (dimn yo) yo.s) None with
                  | Some false ->
                    bump ("empty-y:" ^ w);
                    report (w ^ "/empty-argument") (want true (equiv r xo));
                    if t >= 0 && t' <> t then report (w ^ "/empty-argument-tokens") (Fail (Printf.sprintf "y is empty (verified) but tokens went %d -> %d" t t'))
                  | _ -> ());
                 report (w ^ "/OK") (if r.ok = 1 && ya.ok = 1 then Ok else Fail "OK() false after the widening");
                 if r.dim <> xo.dim || r.topo <> xo.topo then report (w ^ "/dim") (Fail "dimension or topology changed");
                 (match opt "plain" extra with
                  | Some p when t >= 0 ->
                    let po = get (int_of_string p) in
                    (match incl po xo with
                     | Some contained ->
                       let exp_t = int_of_nat (tok_after contained (nat t)) in
                       if contained then bump "tokens:kept" else if t > 0 then bump "tokens:spent" else bump "tokens:none";
                       report (w ^ "/tokens-count") (if exp_t = t' then Ok else Fail (Printf.sprintf "tokens %d -> %d, specification %d (plain widening %s contained in x)" t t' exp_t (if contained then "is" else "is not")));
                       report (w ^ "/tokens-value") (want true (if tok_keeps_x (nat t) then equiv r xo else equiv r po))
                     | None -> report (w ^ "/tokens-count") Undecided)
                  | _ -> if t' <> -1 && t < 0 then report (w ^ "/tokens-count") (Fail "token count without a token pointer"))
               | Some false -> genbug "y is not contained in x"
               | None -> report (w ^ "/precondition") Undecided))
       | "lim" :: w :: kind :: id :: x :: y :: t :: rest ->
           incr step; incr stats_steps;
           let t = int_of_string t in
           bump ("lim:" ^ w ^ "/" ^ kind ^ (if t > 0 then "/tok" else ""));
           (match expect_res "lim" with
            | `Exn cls -> report (w ^ "/" ^ kind ^ "/exception") (Fail ("well-formed call threw " ^ cls))
            | `Ok ->
              let t' = read_tok () in
              let id', r = parse_st "st" (rd ()) in
              let _, ya = parse_st "sty" (rd ()) in
              let w = if r.topo = "C" || r.topo = "NNC" then w else r.topo ^ "." ^ w in
              Hashtbl.replace pool id' { r with w = w ^ "/" ^ kind; args = [int_of_string x; int_of_string y]; tok = t' };
              let xo = get (int_of_string x) and yo = get (int_of_string y) in
              let c = { t = rest } in
              let cs = (match next c with
                | "cons" -> read_cons c xo.dim
                | "consx" -> bump "lim:own-constraints"; xo.cons          (* x's own constraints as the limit *)
                | _ -> raise (Syntax "expected cons")) in
              let extra = c.t in
              let k = w ^ "/" ^ kind in
              (* triggering condition attached to the comparisons with the plain widening of the same objects *)
              let cnd = ":" ^ xo.topo ^ (if xo.lin > 0 then "+lines" else "") in
              (match incl yo xo with
               | Some true ->
                 report (k ^ "/lower") (want true (incl xo r));
                 (match timed (fun () -> nonempty_sys (dimn yo) yo.s) None with
                  | Some false ->
                    bump ("empty-y:" ^ k);
                    report (k ^ "/empty-argument") (want true (equiv r xo));
                    if t >= 0 && t' <> t then report (k ^ "/empty-argument-tokens") (Fail (Printf.sprintf "y is empty (verified) but tokens went %d -> %d" t t'))
                  | _ -> ());
                 report (k ^ "/arg-changed") (want true (equiv ya yo));
                 report (k ^ "/OK") (if r.ok = 1 then Ok else Fail "OK() false");
                 (match opt "plain" extra with
                  | None -> ()
                  | Some p ->
                    let po = get (int_of_string p) in
                    if t <= 0 then begin
                      report (k ^ "/upper" ^ cnd) (want true (incl r po));
                      (* every supplied constraint that x satisfies is kept *)
                      List.iter (fun cn ->
                        match timed (fun () -> entails_b (dimn xo) xo.s cn) None with
                        | Some true -> bump "lim:constraint-kept"; report (k ^ "/keeps") (want true (timed (fun () -> entails_b (dimn r) r.s cn) None))
                        | Some false -> bump "lim:constraint-dropped"
                        | None -> report (k ^ "/keeps") Undecided) cs;
                      (match timed (fun () -> limited_ref (dimn xo) xo.s po.s cs) None with
                       | Some lref ->
                         if kind = "limited" then report (k ^ "/exact" ^ cnd) (want true (equiv_s (dimn xo) r.s lref))
                         else report (k ^ "/below-limited" ^ cnd) (want true (timed (fun () -> incl_sys (dimn xo) r.s lref) None))
                       | None -> report (k ^ "/exact") Undecided);
                      if t = 0 && t' <> 0 then report (k ^ "/tokens-count") (Fail "tokens changed from 0")
                    end else begin
                      (match incl po xo with
                       | Some contained ->
                         let exp_t = int_of_nat (tok_after contained (nat t)) in
                         report (k ^ "/tokens-count") (if exp_t = t' then Ok else Fail (Printf.sprintf "tokens %d -> %d, specification %d" t t' exp_t));
                         report (k ^ "/tokens-value") (want true (equiv r xo));
                         (* OBSERVATION only (not an obligation of the property, which states the token protocol against the
                            PLAIN widening): how often the extrapolation with the same limiting system would have been precise
                            although the plain widening is not *)
                         (match opt "lplain" extra with
                          | Some lp ->
                            (match incl (get (int_of_string lp)) xo with
                             | Some c2 -> bump (if c2 = contained then "lim-tokens:agree" else "lim-tokens:limited-precise-plain-not")
                             | None -> ())
                          | None -> ())
                       | None -> report (k ^ "/tokens-count") Undecided)
                    end)
               | Some false -> genbug "y is not contained in x"
               | None -> report (k ^ "/precondition") Undecided))
       | ["cert"; id] ->
           incr step; incr stats_steps;
           (match expect_res "cert" with
            | `Exn cls -> report "cert/exception" (Fail ("threw " ^ cls))
            | `Ok ->
              let c = { t = split (rd ()) } in
              if next c <> "cert" then raise (Syntax "expected cert");
              let id' = nexti c in assert (id' = int_of_string id);
              (match c.t with
               | ["empty"] -> Hashtbl.replace certs id' None
               | _ ->
                 let o = get id' in
                 let bc, ok = read_bc c in
                 if next c <> "h" then raise (Syntax "expected h");
                 let had = nexti c in let hnc = nexti c in
                 let hc = { h_affine_dim = nat had; h_num_constraints = nat hnc } in
                 if next c <> "min" then raise (Syntax "expected min");
                 if next c <> "cons" then raise (Syntax "expected cons");
                 let mc = read_cons c o.dim in
                 if next c <> "gens" then raise (Syntax "expected gens");
                 let mg = read_gens c o.dim in
                 Hashtbl.replace certs id' (Some { bc; hc });
                 bump "cert";
                 (* the model's OK() on the library's numbers *)
                 report "cert/OK-tie" (if bhrz03_ok bc = (ok = 1) then Ok else Fail (Printf.sprintf "library OK() %d, transcription %b on %s" ok (bhrz03_ok bc) (show_bc bc)));
                 report "cert/OK" (if ok = 1 then Ok else Fail ("BHRZ03_Certificate::OK() false on " ^ show_bc bc));
                 (* recount from the minimized systems the library prints *)
                 let eqs = List.map (fun k -> k.ckd = EQ) mc in
                 let gs = List.map (fun g -> match g.gk with
                   | GPoint -> GSPoint | GClosure -> GSClosure | GLine -> GSLine
                   | GRay -> GSRay (nat (List.length (List.filter (fun a -> a = Z0) g.gcoefs)))) mg in
                 let rb = bhrz03_of (nat o.dim) eqs gs and rh = h79_of (nat o.dim) eqs in
                 report "cert/recount-bhrz03" (if rb = bc then Ok else Fail (Printf.sprintf "library %s, recounted from its minimized systems %s" (show_bc bc) (show_bc rb)));
                 report "cert/recount-h79" (if rh = hc then Ok else Fail (Printf.sprintf "library %s, recounted %s" (show_hc hc) (show_hc rh)));
                 (* the minimized systems describe the object *)
                 report "cert/min-cons" (want true (equiv_s (dimn o) (sys_of_cons mc) o.s))))
       | ["cmp"; a; b] ->
           incr step; incr stats_steps;
           (match expect_res "cmp" with
            | `Exn cls -> report "cert/exception" (Fail ("threw " ^ cls))
            | `Ok ->
              (match split (rd ()), Hashtbl.find_opt certs (int_of_string a), Hashtbl.find_opt certs (int_of_string b) with
               | ["cmp"; _; _; "B"; c1; c2; s1; o1; "H"; h1; h2; o2], Some (Some ca), Some (Some cb) ->
                 bump "cmp";
                 let chk name got model = report ("cert/compare-tie/" ^ name) (if int_of_string got = model then Ok else Fail (Printf.sprintf "library %s, transcription %d on %s vs %s" got model (show_bc ca.bc) (show_bc cb.bc))) in
                 let m1 = int_of_zsmall (bhrz03_compare ca.bc cb.bc) in
                 chk "bhrz03-cert" c1 m1;
                 chk "bhrz03-ph" c2 (int_of_zsmall (bhrz03_compare_ph ca.bc cb.bc));
                 chk "bhrz03-is_stabilizing" s1 (if bhrz03_is_stabilizing ca.bc cb.bc then 1 else 0);
                 chk "bhrz03-Compare" o1 (if m1 = 1 then 1 else 0);
                 let mh = int_of_zsmall (h79_compare ca.hc cb.hc) in
                 chk "h79-cert" h1 mh;
                 chk "h79-ph" h2 (int_of_zsmall (h79_compare_ph ca.hc cb.hc));
                 chk "h79-Compare" o2 (if mh = 1 then 1 else 0)
               | _ -> raise (Syntax "cmp needs certificates of non-empty objects")))
       | "ps" :: rest ->
           incr step; incr stats_steps;
           (match expect_res "ps" with
            | `Exn cls -> report "ps/exception" (Fail ("threw " ^ cls))
            | `Ok ->
              let c = { t = rest } in
              let k = nexti c in let xs = List.init k (fun _ -> nexti c) in
              let m = nexti c in let ys = List.init m (fun _ -> nexti c) in
              let o = { t = split (rd ()) } in
              if next o <> "ps" then raise (Syntax "expected ps");
              let read_ms tag =
                if next o <> tag then raise (Syntax ("expected " ^ tag));
                let n = nexti o in
                List.init n (fun _ -> let bc, _ = read_bc o in if next o <> "n" then raise (Syntax "expected n"); let cnt = nexti o in (bc, nat cnt)) in
              let xm = read_ms "x" in let ym = read_ms "y" in
              if next o <> "stab" then raise (Syntax "expected stab");
              let stab = nexti o in
              let cert_of id = match Hashtbl.find_opt certs id with Some (Some c) -> c.bc | _ -> raise (Syntax "ps needs certificates") in
              let mx = ms_of_list bhrz03_compare (List.map cert_of xs) and my = ms_of_list bhrz03_compare (List.map cert_of ys) in
              bump "ps";
              report "ps/collect-tie" (if mx = xm && my = ym then Ok else Fail "collect_certificates: the library's multiset differs from the transcription's");
              let ms = ms_stabilizing bhrz03_compare xm ym in
              report "ps/stabilizing-tie" (if ms = (stab = 1) then Ok else Fail (Printf.sprintf "is_cert_multiset_stabilizing: library %d, transcription %b" stab ms));
              (* irreflexive and asymmetric on what was collected *)
              if ms && ms_stabilizing bhrz03_compare ym xm then report "ps/asymmetry" (Fail "x < y and y < x"))
       | "#!" :: "same" :: a :: b :: _ ->
           incr step;
           let ao = get (int_of_string a) and bo = get (int_of_string b) in
           bump ("same:" ^ ao.w);
           (* triggering condition: topology, and whether the larger operand has lines *)
           let lines = (match ao.args with x :: _ -> (try (get x).lin > 0 with _ -> false) | [] -> false) in
           report (ao.w ^ "/value-dependence:" ^ ao.topo ^ (if lines then "+lines" else "")) (match equiv ao bo with
             | Some true -> Ok
             | Some false -> Fail "equal arguments (verified) in different representations gave different results (verified)"
             | None -> Undecided)
       | "#!" :: "sametok" :: a :: b :: _ ->
           incr step;
           let ao = get (int_of_string a) and bo = get (int_of_string b) in
           report (ao.w ^ "/value-dependence-tokens:" ^ ao.topo) (if ao.tok = bo.tok then Ok else Fail (Printf.sprintf "equal arguments in different states: %d tokens left in one run, %d in the other" ao.tok bo.tok))
       | "#!" :: "samecert" :: a :: b :: _ ->
           incr step;
           (match Hashtbl.find_opt certs (int_of_string a), Hashtbl.find_opt certs (int_of_string b) with
            | Some (Some ca), Some (Some cb) ->
              (match equiv (get (int_of_string a)) (get (int_of_string b)) with
               | Some true -> report ("cert/value:" ^ (if ca = cb then "" else cert_diff ca cb)) (if ca = cb then Ok else Fail (Printf.sprintf "equal sets (verified), certificates %s and %s" (show_bc ca.bc) (show_bc cb.bc)))
               | _ -> ())
            | Some None, Some None -> ()
            | Some None, Some (Some _) | Some (Some _), Some None -> report "cert/value" (Fail "one representation empty, the other not")
            | _ -> ())
       | "#!" :: "step" :: w :: prev :: res :: _ ->
           (* THE PER-STEP HYPOTHESIS of certified_widening_terminates on this step of the real library *)
           incr step;
           let po = get (int_of_string prev) and ro = get (int_of_string res) in
           (match Hashtbl.find_opt certs (int_of_string prev), Hashtbl.find_opt certs (int_of_string res) with
            | Some (Some cp), Some (Some cr) ->
              (match incl po ro, equiv po ro with
               | Some true, Some same ->
                 report (w ^ "/cert-grows") (if bhrz03_grows_b cp.bc cr.bc && h79_grows_b cp.hc cr.hc then Ok
                   else Fail (Printf.sprintf "nested polyhedra but a dimension decreased: %s then %s" (show_bc cp.bc) (show_bc cr.bc)));
                 if same then begin
                   bump ("step:" ^ w ^ ":stationary");
                   report (w ^ "/cert-value:" ^ (if cp = cr then "" else cert_diff cp cr)) (if cp = cr then Ok else Fail (Printf.sprintf "stationary step (verified) but the certificate changed: %s then %s" (show_bc cp.bc) (show_bc cr.bc)))
                 end else begin
                   bump ("step:" ^ w ^ ":changed");
                   report (w ^ "/cert-decrease") (if bhrz03_is_stabilizing cp.bc cr.bc then Ok
                     else Fail (Printf.sprintf "the value changed but the BHRZ03 certificate did not decrease: %s then %s" (show_bc cp.bc) (show_bc cr.bc)));
                   if w = "H79" then
                     report (w ^ "/cert-decrease-h79") (if h79_is_stabilizing cp.hc cr.hc then Ok
                       else Fail (Printf.sprintf "the value changed but the H79 certificate did not decrease: %s then %s" (show_hc cp.hc) (show_hc cr.hc)))
                 end
               | Some false, _ -> report (w ^ "/iterates-ascending") (Fail "the new iterate does not contain the previous one")
               | _ -> report (w ^ "/cert-decrease") Undecided)
            | _ -> bump ("step:" ^ w ^ ":empty"))
       | t :: _ when t.[0] = '#' -> ()
       | _ -> raise (Syntax ("unknown script line: " ^ line)))
    done
  with End_of_file -> ());
  Printf.printf "STAT steps %d checks %d undecided %d cases %d timeouts %d\n" !stats_steps !stats_checks !stats_undecided !stats_cases !timeouts;
  Hashtbl.iter (fun k v -> Printf.printf "COV %s %d\n" k v) cov
