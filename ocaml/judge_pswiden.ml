(* Judge for the C08 grid / powerset scripts (harness/run_pswiden.cc).  Untrusted glue: parsing, dispatch,
   bookkeeping.  Verdicts come from extracted Coq code:
     module Widen: incl_sys / equiv_sys (polyhedra), the certificate transcriptions (grid_compare, the bhrz03 and h79 ones),
                   grid_of / bhrz03_of / h79_of (certificate RECOUNTED from the minimized systems of a fresh object),
                   ms_of_list / ms_stabilizing (multiset order), tok_after / tok_keeps_x;
     module Grid : contains_b (exact inclusion: congruences of the container, generators of the containee),
                   gens_add_cgs (exact meet), dims_ok, dd_agree (C05's verified grid reference).
   output: as judge_widen (FAIL / UNDECIDED / GENBUG / STAT / COV). *)
let split s = List.filter (fun x -> x <> "") (String.split_on_char ' ' s)
exception Syntax of string

(* numbers of the two extracted modules *)
module WZ = Wzutil
module GZ = struct
  open Grid
  let rec pos_of_int n = if n = 1 then XH else if n land 1 = 0 then XO (pos_of_int (n lsr 1)) else XI (pos_of_int (n lsr 1))
  let z_of_int n = if n = 0 then Z0 else if n > 0 then Zpos (pos_of_int n) else Zneg (pos_of_int (-n))
  let rec nat_of_int n = if n <= 0 then O else S (nat_of_int (n - 1))
  let ten = z_of_int 10
  let z_of_string s =
    let s = String.trim s in
    let neg, s = if String.length s > 0 && s.[0] = '-' then true, String.sub s 1 (String.length s - 1) else false, s in
    if String.length s = 0 then failwith "z_of_string: empty";
    let r = ref Z0 in
    String.iter (fun ch -> if ch < '0' || ch > '9' then failwith ("z_of_string: " ^ s);
                  r := Z.add (Z.mul !r ten) (z_of_int (Char.code ch - 48))) s;
    if neg then Z.opp !r else !r
  let pos_of_z = function Zpos p -> p | _ -> failwith "positive expected"
end

type cur = { mutable t : string list }
let next c = match c.t with x :: r -> c.t <- r; x | [] -> raise (Syntax "missing token")
let nexti c = int_of_string (next c)
let rec take c n = if n = 0 then [] else let x = next c in x :: take c (n - 1)

(* ---- values ---- *)
type gridv = { gcgs : Grid.cg list; ggens : Grid.ggen list }
type polyv = { s : Widen.sys; lin : int }
type value = VG of gridv | VP of polyv
type obj = { d : string; dim : int; flags : string; v : value; ok : int; w : string; args : int list; tok : int }

let read_wcon c dim =
  let k = (match next c with "=" -> Widen.EQ | ">=" -> Widen.GE | ">" -> Widen.GT | k -> raise (Syntax ("kind " ^ k))) in
  let b = WZ.z_of_string (next c) in let a = List.map WZ.z_of_string (take c dim) in
  { Widen.ccoefs = a; ccst = b; ckd = k }
let read_wcons c dim = let k = nexti c in List.init k (fun _ -> read_wcon c dim)
let read_wgen c dim =
  let k = (match next c with "l" -> Widen.GLine | "r" -> Widen.GRay | "p" -> Widen.GPoint | "c" -> Widen.GClosure | k -> raise (Syntax ("gkind " ^ k))) in
  let dv = WZ.z_of_string (next c) in let a = List.map WZ.z_of_string (take c dim) in
  { Widen.gk = k; gcoefs = a; gdiv = dv }
let read_wgens c dim = let k = nexti c in List.init k (fun _ -> read_wgen c dim)
(* congruence  m b a..  :  a.x + b = 0 (mod m) *)
let read_cg c dim =
  let m = GZ.z_of_string (next c) in let b = GZ.z_of_string (next c) in let a = List.map GZ.z_of_string (take c dim) in
  { Grid.cg_a = a; cg_b = b; cg_m = m }
let read_cgs c dim = let k = nexti c in List.init k (fun _ -> read_cg c dim)
let read_ggen c dim =
  let k = next c in let dv = GZ.z_of_string (next c) in let a = List.map GZ.z_of_string (take c dim) in
  match k with "p" -> Grid.GPoint (a, GZ.pos_of_z dv) | "q" -> Grid.GParam (a, GZ.pos_of_z dv) | "l" -> Grid.GLine a | _ -> raise (Syntax ("ggen " ^ k))
let read_ggens c dim = let k = nexti c in List.init k (fun _ -> read_ggen c dim)

let expect c w = let x = next c in if x <> w then raise (Syntax ("expected " ^ w ^ ", got " ^ x))

(* st-like line:  <tag> <id> <D> <dim> <flags> (cgs .. ggens .. | cons .. gens ..) ok b [lin k] *)
let parse_st tag line =
  let c = { t = split line } in
  expect c tag;
  let id = nexti c in let d = next c in let dim = nexti c in let flags = next c in
  let v = if d = "G" then begin
      expect c "cgs"; let cg = read_cgs c dim in expect c "ggens"; let gg = read_ggens c dim in VG { gcgs = cg; ggens = gg }
    end else begin
      expect c "cons"; let cs = read_wcons c dim in expect c "gens"; let _ = read_wgens c dim in VP { s = Widen.sys_of_cons cs; lin = -1 }
    end in
  expect c "ok"; let ok = nexti c in
  let v = (match v, c.t with VP p, "lin" :: k :: _ -> VP { p with lin = int_of_string k } | _ -> v) in
  id, { d; dim; flags; v; ok; w = ""; args = []; tok = -1 }

(* ---- verified decisions under a time budget ---- *)
exception Timeout
let budget = ref (try float_of_string (Sys.getenv "VERIF_JUDGE_BUDGET") with _ -> 4.0)
let timeouts = ref 0
let armed = ref false
let () = Sys.set_signal Sys.sigalrm (Sys.Signal_handle (fun _ -> if !armed then begin armed := false; raise Timeout end))
let timed (f : unit -> 'a) (dflt : 'a) : 'a =
  let stop () = armed := false; ignore (Unix.setitimer Unix.ITIMER_REAL { Unix.it_interval = 0.0; it_value = 0.0 }) in
  try armed := true; ignore (Unix.setitimer Unix.ITIMER_REAL { Unix.it_interval = 0.0; it_value = !budget });
      let r = f () in stop (); r
  with Timeout -> stop (); incr timeouts; Gc.compact (); dflt
     | Stack_overflow | Out_of_memory -> stop (); incr timeouts; Gc.compact (); dflt

(* a <= b *)
let incl (a : obj) (b : obj) : bool option =
  match a.v, b.v with
  | VG x, VG y ->
      let n = GZ.nat_of_int a.dim in
      if not (Grid.dims_ok n y.gcgs) then None
      else timed (fun () -> Some (Grid.contains_b n y.gcgs (Grid.gens_of_ppl x.ggens))) None
  | VP x, VP y -> timed (fun () -> Widen.incl_sys (WZ.nat_of_int (a.dim + 1)) x.s y.s) None
  | _ -> None
let oand a b = match a, b with Some x, Some y -> Some (x && y) | Some false, _ | _, Some false -> Some false | _ -> None
let equiv a b = oand (incl a b) (incl b a)
(* the two descriptions the library printed for a grid agree (C05's obligation; relied upon by [incl]) *)
let dd_ok (o : obj) = match o.v with
  | VG x -> (match timed (fun () -> Grid.dd_agree (GZ.nat_of_int o.dim) x.gcgs (Grid.gens_of_ppl x.ggens)) Grid.Unk with Grid.Ans b -> Some b | Grid.Unk -> None)
  | VP _ -> Some true
(* the object denotes the empty set (decided from the constraints / congruences the library printed) *)
let is_empty_obj (o : obj) : bool option = match o.v with
  | VP p -> (match timed (fun () -> Widen.nonempty_sys (WZ.nat_of_int (o.dim + 1)) p.s) None with Some b -> Some (not b) | None -> None)
  | VG g -> (match timed (fun () -> Grid.cgs_to_gens (GZ.nat_of_int o.dim) g.gcgs) Grid.Unk with Grid.Ans gs -> Some (Grid.is_empty_b gs) | Grid.Unk -> None)
let has_lines o = match o.v with VP p -> p.lin > 0 | VG _ -> false
(* a grid whose printed generator system has a point or parameter of divisor <> 1 (trigger of C05-relation-cg-divisor) *)
let gen_divisor o = match o.v with
  | VG g -> List.exists (function Grid.GPoint (_, d) | Grid.GParam (_, d) -> d <> Grid.XH | Grid.GLine _ -> false) g.ggens
  | VP _ -> false

(* the congruence systems the library printed for two grids are the same lists (up to order) *)
let same_rows a b = match a.v, b.v with
  | VG x, VG y -> List.sort compare x.gcgs = List.sort compare y.gcgs
  | _ -> true

type verdict = Ok | Fail of string | Undecided
let want expected = function Some b -> if b = expected then Ok else Fail (Printf.sprintf "verified oracle says %b" b) | None -> Undecided

(* ---- certificates ---- *)
type cert = CG of Widen.grid_cert | CP of Widen.bhrz03_cert * Widen.h79_cert
type certinfo = { lib : cert; recount : cert; cflags : string }
let nat = WZ.nat_of_int
let ion = WZ.int_of_nat
let show_cert = function
  | CG g -> Printf.sprintf "(eq %d, pc %d)" (ion g.Widen.g_num_equalities) (ion g.Widen.g_num_proper_congruences)
  | CP (b, h) -> Printf.sprintf "(%d,%d,%d,%d,[%s])/(%d,%d)" (ion b.Widen.b_affine_dim) (ion b.Widen.b_lin_space_dim) (ion b.Widen.b_num_constraints)
                   (ion b.Widen.b_num_points) (String.concat ";" (List.map (fun x -> string_of_int (ion x)) b.Widen.b_rays))
                   (ion h.Widen.h_affine_dim) (ion h.Widen.h_num_constraints)
(* cert-like line: <tag> <id> empty | g neq npc flags F min cgs .. | b ad lin nc np n r.. ok k h ad nc flags F min cons .. gens .. *)
let parse_cert tag dim line : certinfo option =
  let c = { t = split line } in
  expect c tag; let _ = nexti c in
  match next c with
  | "empty" -> None
  | "g" ->
      let neq = nexti c in let npc = nexti c in expect c "flags"; let fl = next c in expect c "min"; expect c "cgs";
      let mc = read_cgs c dim in
      let lib = CG { Widen.g_num_equalities = nat neq; g_num_proper_congruences = nat npc } in
      let recount = CG (Widen.grid_of (nat dim) (List.map (fun k -> k.Grid.cg_m = Grid.Z0) mc)) in
      Some { lib; recount; cflags = fl }
  | "b" ->
      let ad = nexti c in let lin = nexti c in let nc = nexti c in let np = nexti c in let n = nexti c in
      let rays = List.init n (fun _ -> nat (nexti c)) in
      expect c "ok"; let _ = nexti c in expect c "h"; let had = nexti c in let hnc = nexti c in
      expect c "flags"; let fl = next c in expect c "min"; expect c "cons";
      let mc = read_wcons c dim in expect c "gens"; let mg = read_wgens c dim in
      let bc = { Widen.b_affine_dim = nat ad; b_lin_space_dim = nat lin; b_num_constraints = nat nc; b_num_points = nat np; b_rays = rays } in
      let hc = { Widen.h_affine_dim = nat had; h_num_constraints = nat hnc } in
      let eqs = List.map (fun k -> k.Widen.ckd = Widen.EQ) mc in
      let gs = List.map (fun g -> match g.Widen.gk with
        | Widen.GPoint -> Widen.GSPoint | Widen.GClosure -> Widen.GSClosure | Widen.GLine -> Widen.GSLine
        | Widen.GRay -> Widen.GSRay (nat (List.length (List.filter (fun a -> a = Widen.Z0) g.Widen.gcoefs)))) mg in
      Some { lib = CP (bc, hc); recount = CP (Widen.bhrz03_of (nat dim) eqs gs, Widen.h79_of (nat dim) eqs); cflags = fl }
  | k -> raise (Syntax ("cert kind " ^ k))

(* which lazy state: the four up-to-date / minimized flags of the status word *)
let state_class fl =
  let has s = (try ignore (Str.search_forward (Str.regexp_string s) fl 0); true with Not_found -> false) in
  Printf.sprintf "%s%s%s%s" (if has "+CS" then "C" else "c") (if has "+CM" then "M" else "m") (if has "+GS" then "G" else "g") (if has "+GM" then "M" else "m")
  ^ (if has "+CP" then "+pc" else "") ^ (if has "+GP" then "+pg" else "")

(* a certificate differs between lib and recount: for polyhedra with lines and only the ray vector differing, it is
   the known rays-modulo-lines finding *)
let cert_cond (ci : certinfo) = match ci.lib, ci.recount with
  | CP (b, h), CP (b', h') when h = h' && { b with Widen.b_rays = [] } = { b' with Widen.b_rays = [] } && ion b.Widen.b_lin_space_dim > 0 -> "lines-present-rays-differ"
  | CG _, _ -> "grid-state-" ^ state_class ci.cflags
  | _ -> "state-" ^ state_class ci.cflags

(* ---- powersets ---- *)
type pset = { pd : string; pdim : int; ds : (obj * certinfo option) list; hull : obj; hcert : certinfo option; pargs : int list }

let stats_steps = ref 0 and stats_checks = ref 0 and stats_undecided = ref 0 and stats_cases = ref 0
let cov : (string, int) Hashtbl.t = Hashtbl.create 64
let bump k = Hashtbl.replace cov k (1 + try Hashtbl.find cov k with Not_found -> 0)

let () =
  let casefile = Sys.argv.(1) and obsfile = Sys.argv.(2) in
  let ic = open_in casefile and io = open_in obsfile in
  let rd () = try input_line io with End_of_file -> raise (Syntax "observation file ended early") in
  let case = ref "?" and step = ref 0 and cur_line = ref "" in
  let report kind v =
    incr stats_checks;
    match v with
    | Ok -> ()
    | Fail dt -> Printf.printf "FAIL %s %d %s | %s | %s\n" !case !step kind !cur_line dt
    | Undecided -> incr stats_undecided; Printf.printf "UNDECIDED %s %d %s | %s\n" !case !step kind !cur_line in
  let genbug why = Printf.printf "GENBUG %s %d | %s | %s\n" !case !step !cur_line why in
  let expect_res cmd = match split (rd ()) with
    | ["res"; c; "ok"] when c = cmd -> `Ok
    | ["res"; c; "exn"; cls] when c = cmd -> `Exn cls
    | "HARNESS-ERROR" :: _ as l -> Printf.printf "HARNESS %s\n" (String.concat " " l); exit 3
    | l -> raise (Syntax ("expected res " ^ cmd ^ ": " ^ String.concat " " l)) in
  let pool : (int, obj) Hashtbl.t = Hashtbl.create 64 in
  let certs : (int, certinfo option) Hashtbl.t = Hashtbl.create 64 in
  let pss : (int, pset) Hashtbl.t = Hashtbl.create 64 in
  let get id = try Hashtbl.find pool id with Not_found -> raise (Syntax (Printf.sprintf "unknown object %d" id)) in
  let psget id = try Hashtbl.find pss id with Not_found -> raise (Syntax (Printf.sprintf "unknown powerset %d" id)) in
  let opt key toks = let rec f = function k :: v :: _ when k = key -> Some v | _ :: r -> f r | [] -> None in f toks in
  let dname o = if o.d = "G" then "Grid" else "Poly" in
  (* the library's certificate of an object in its lazy state against the recount from a fresh object *)
  let check_cert_state where (ci : certinfo option) = match ci with
    | None -> ()
    | Some ci ->
      bump ("certstate:" ^ (match ci.lib with CG _ -> "G:" | CP _ -> "P:") ^ state_class ci.cflags);
      report (where ^ (if ci.lib = ci.recount then "" else ":" ^ cert_cond ci))
        (if ci.lib = ci.recount then Ok
         else Fail (Printf.sprintf "certificate of the object in state %s is %s; recounted from the minimized description of a fresh copy: %s" (state_class ci.cflags) (show_cert ci.lib) (show_cert ci.recount))) in
  let read_ps tag : int * pset =
    let c = { t = split (rd ()) } in
    expect c tag; let id = nexti c in let pd = next c in let pdim = nexti c in let k = nexti c in
    let ds = List.init k (fun _ -> let _, o = parse_st "dst" (rd ()) in let ci = parse_cert "dcert" pdim (rd ()) in (o, ci)) in
    let _, hull = parse_st "hst" (rd ()) in let hcert = parse_cert "hcert" pdim (rd ()) in
    id, { pd; pdim; ds; hull; hcert; pargs = [] } in
  (* every disjunct of a is contained in some disjunct of b *)
  let entails (a : pset) (b : pset) : bool option =
    List.fold_left (fun acc (x, _) ->
      let r = List.fold_left (fun e (y, _) -> match e, incl x y with Some true, _ | _, Some true -> Some true | None, _ | _, None -> None | _ -> Some false) (Some false) b.ds in
      oand acc r) (Some true) a.ds in
  let psequiv a b = oand (entails a b) (entails b a) in
  let check_ps_certs where (p : pset) = List.iter (fun (_, ci) -> check_cert_state where ci) p.ds in
  let cmp_tie a b (l : string list) =
    match Hashtbl.find_opt certs a, Hashtbl.find_opt certs b, l with
    | Some (Some ca), Some (Some cb), [c1; c2; s1; o1] ->
      let chk name got model = report ("cert/compare-tie/" ^ name) (if int_of_string got = model then Ok else Fail (Printf.sprintf "library %s, transcription %d on %s vs %s" got model (show_cert ca.lib) (show_cert cb.lib))) in
      let small z = if z = WZ.z_of_int 0 then 0 else if z = WZ.z_of_int 1 then 1 else if z = WZ.z_of_int (-1) then -1 else 99 in
      (match ca.lib, cb.lib with
       | CG x, CG y ->
         let m = small (Widen.grid_compare x y) in
         chk "grid-cert" c1 m; chk "grid-gr" c2 (small (Widen.grid_compare_gr x y));
         chk "grid-is_stabilizing" s1 (if Widen.grid_is_stabilizing x y then 1 else 0); chk "grid-Compare" o1 (if m = 1 then 1 else 0)
       | CP (x, _), CP (y, _) ->
         let m = small (Widen.bhrz03_compare x y) in
         chk "bhrz03-cert" c1 m; chk "bhrz03-ph" c2 (small (Widen.bhrz03_compare_ph x y));
         chk "bhrz03-is_stabilizing" s1 (if Widen.bhrz03_is_stabilizing x y then 1 else 0); chk "bhrz03-Compare" o1 (if m = 1 then 1 else 0)
       | _ -> ())
    | _ -> () in
  (* strict decrease of the certificate [cy] -> [cr] of the base-level widening, on RECOUNTED certificates *)
  let base_decrease (cy : certinfo) (cr : certinfo) = match cy.recount, cr.recount with
    | CG y, CG r -> Widen.grid_is_stabilizing y r
    | CP (y, _), CP (r, _) -> Widen.bhrz03_is_stabilizing y r
    | _ -> false in
  (try
    while true do
      let line = input_line ic in
      cur_line := line;
      let toks = split line in
      (match toks with
       | [] -> ()
       | "case" :: id :: _ -> case := id; step := 0; Hashtbl.reset pool; Hashtbl.reset certs; Hashtbl.reset pss; incr stats_cases; ignore (rd ())
       | "end" :: _ -> ignore (rd ())
       | "new" :: _ ->
           incr step; incr stats_steps;
           (match expect_res "new" with
            | `Exn cls -> report "input/exception" (Fail ("constructor threw " ^ cls))
            | `Ok -> let id, o = parse_st "st" (rd ()) in Hashtbl.replace pool id o;
                     report "input/dd" (want true (dd_ok o)); report "input/OK" (if o.ok = 1 then Ok else Fail "OK() false"))
       | ["newe"; _; _; _; st; _] ->
           incr step; incr stats_steps;
           (match expect_res "newe" with
            | `Exn cls -> report "input/exception" (Fail ("constructor threw " ^ cls))
            | `Ok -> let id, o = parse_st "st" (rd ()) in Hashtbl.replace pool id o;
                     bump ("empty:" ^ o.d ^ ":" ^ st); bump ("emptystate:" ^ o.d ^ ":" ^ state_class o.flags);
                     (match is_empty_obj o with
                      | Some true -> ()
                      | Some false -> genbug "the object is not empty"
                      | None -> report "input/empty" Undecided);
                     report "input/dd" (want true (dd_ok o)); report "input/OK" (if o.ok = 1 then Ok else Fail "OK() false"))
       | ["mk"; id; route; src; _] ->
           incr step; incr stats_steps;
           (match expect_res "mk" with
            | `Exn cls -> report ("route/" ^ route ^ "/exception") (Fail ("threw " ^ cls))
            | `Ok -> let id', o = parse_st "st" (rd ()) in assert (id' = int_of_string id); Hashtbl.replace pool id' o;
                     bump ("route:" ^ o.d ^ "." ^ route); bump ("state:" ^ o.d ^ ":" ^ state_class o.flags);
                     report ("route/" ^ dname o ^ "." ^ route ^ "/dd") (want true (dd_ok o));
                     report ("route/" ^ dname o ^ "." ^ route) (want true (equiv o (get (int_of_string src))));
                     report ("route/" ^ dname o ^ "." ^ route ^ "/OK") (if o.ok = 1 then Ok else Fail "OK() false"))
       | ["join"; _; a; b] ->
           incr step; incr stats_steps;
           (match expect_res "join" with
            | `Exn cls -> report "join/exception" (Fail ("threw " ^ cls))
            | `Ok -> let id', o = parse_st "st" (rd ()) in Hashtbl.replace pool id' o;
                     report "join/upper-bound" (want true (incl (get (int_of_string a)) o));
                     report "join/upper-bound" (want true (incl (get (int_of_string b)) o)))
       | ("widen" | "lim" as cmd) :: w :: id :: x :: y :: t :: rest ->
           incr step; incr stats_steps;
           let t = int_of_string t in
           (match expect_res cmd with
            | `Exn cls -> report (w ^ "/exception") (Fail ("well-formed call threw " ^ cls))
            | `Ok ->
              let t' = (match split (rd ()) with ["tok"; v] -> int_of_string v | _ -> raise (Syntax "expected tok")) in
              let id', r = parse_st "st" (rd ()) in let _, ya = parse_st "sty" (rd ()) in
              assert (id' = int_of_string id);
              let xo = get (int_of_string x) and yo = get (int_of_string y) in
              let w = dname xo ^ "." ^ w ^ (if cmd = "lim" then "/limited" else "") in
              let r = { r with w = w; args = [int_of_string x; int_of_string y]; tok = t' } in
              Hashtbl.replace pool id' r;
              bump ((if cmd = "lim" then "lim:" else "widen:") ^ w ^ (if t > 0 then "/tok" else if t = 0 then "/tok0" else ""));
              (match incl yo xo with
               | Some true ->
                 bump ("statex:" ^ xo.d ^ ":" ^ state_class xo.flags);
                 let gd = if cmd = "lim" && gen_divisor xo then ":gen-divisor" else "" in
                 report (w ^ (if cmd = "lim" then "/lower" ^ gd else "/upper-bound")) (want true (incl xo r));
                 report (w ^ "/arg-changed") (want true (equiv ya yo));
                 (* an empty smaller argument: the identity on x, and no token is spent *)
                 (match is_empty_obj yo with
                  | Some true ->
                    bump ("empty-y:" ^ w);
                    report (w ^ "/empty-argument") (want true (equiv r xo));
                    if t >= 0 && t' <> t then report (w ^ "/empty-argument-tokens") (Fail (Printf.sprintf "y is empty (verified) but tokens went %d -> %d" t t'))
                  | _ -> ());
                 report (w ^ "/dd") (want true (dd_ok r));
                 report (w ^ "/OK") (if r.ok = 1 && ya.ok = 1 then Ok else Fail "OK() false after the widening");
                 let plain = (match opt "plain" rest with Some p -> Some (get (int_of_string p)) | None -> None) in
                 (match plain with
                  | Some po when t > 0 || (t = 0 && cmd = "widen") ->
                    (match incl po xo with
                     | Some contained ->
                       let exp_t = ion (Widen.tok_after contained (nat t)) in
                       if contained then bump "tokens:kept" else if t > 0 then bump "tokens:spent" else bump "tokens:none";
                       report (w ^ "/tokens-count") (if exp_t = t' then Ok else Fail (Printf.sprintf "tokens %d -> %d, specification %d" t t' exp_t));
                       report (w ^ "/tokens-value") (want true (if Widen.tok_keeps_x (nat t) then equiv r xo else equiv r po))
                     | None -> report (w ^ "/tokens-count") Undecided)
                  | Some po when cmd = "lim" ->
                    (* limited = plain meet { c | x entails c } *)
                    report (w ^ "/upper" ^ gd) (want true (incl r po));
                    (match xo.v, r.v, po.v with
                     | VG xg, VG rg, VG pg ->
                       let c = { t = rest } in expect c "cgs";
                       let cs = read_cgs c xo.dim in
                       let n = GZ.nat_of_int xo.dim in
                       if Grid.dims_ok n cs then begin
                         let sel = List.filter (fun cg -> Grid.contains_b n [cg] (Grid.gens_of_ppl xg.ggens)) cs in
                         bump "lim:kept" ; ignore sel;
                         List.iter (fun cg -> report (w ^ "/keeps" ^ gd) (if Grid.contains_b n [cg] (Grid.gens_of_ppl rg.ggens) then Ok else Fail "a supplied congruence that x satisfies does not hold in the result")) sel;
                         (match timed (fun () -> Grid.gens_add_cgs n (Grid.gens_of_ppl pg.ggens) sel) Grid.Unk with
                          | Grid.Ans lref -> report (w ^ "/exact" ^ gd) (if Grid.dims_ok n rg.gcgs then (if Grid.contains_b n rg.gcgs lref then Ok else Fail "the result is smaller than (x widen y) meet {c | x entails c}") else Undecided)
                          | Grid.Unk -> report (w ^ "/exact") Undecided)
                       end
                     | _ -> ())
                  | _ -> ())
               | Some false -> genbug "y is not contained in x"
               | None -> report (w ^ "/precondition") Undecided))
       | ["cert"; id] ->
           incr step; incr stats_steps;
           (match expect_res "cert" with
            | `Exn cls -> report "cert/exception" (Fail ("threw " ^ cls))
            | `Ok -> let o = get (int_of_string id) in
                     let ci = parse_cert "cert" o.dim (rd ()) in
                     Hashtbl.replace certs (int_of_string id) ci; bump "cert";
                     check_cert_state ("cert/state-independent/" ^ dname o) ci)
       | ["cmp"; a; b] ->
           incr step; incr stats_steps;
           (match expect_res "cmp" with
            | `Exn cls -> report "cert/exception" (Fail ("threw " ^ cls))
            | `Ok -> (match split (rd ()) with
                      | "cmp" :: _ :: _ :: _ :: l -> bump "cmp"; cmp_tie (int_of_string a) (int_of_string b) l
                      | _ -> raise (Syntax "cmp")))
       | "#!" :: "same" :: a :: b :: _ ->
           incr step;
           let ao = get (int_of_string a) and bo = get (int_of_string b) in
           bump ("same:" ^ ao.w);
           let lines = (match ao.args with x :: _ -> (try has_lines (get x) with _ -> false) | [] -> false) in
           let gd = (match ao.args with x :: _ -> (try gen_divisor (get x) with _ -> false) | [] -> false) || (match bo.args with x :: _ -> (try gen_divisor (get x) with _ -> false) | [] -> false) in
           let islim = (let n = String.length ao.w in n > 8 && String.sub ao.w (n - 8) 8 = "/limited") in
           let rows = (match ao.args, bo.args with
             | [x1; y1], [x2; y2] -> (try not (same_rows (get x1) (get x2)) || not (same_rows (get y1) (get y2)) with _ -> false)
             | _ -> false) in
           report (ao.w ^ "/value-dependence:" ^ ao.d ^ (if lines then "+lines" else "") ^ (if gd && islim then "+gen-divisor" else "") ^ (if rows && not (gd && islim) then "+rows-differ" else "")) (match equiv ao bo with
             | Some true -> Ok
             | Some false -> Fail "equal arguments (verified) in different lazy states gave different results (verified)"
             | None -> Undecided)
       | "#!" :: "sametok" :: a :: b :: _ ->
           incr step;
           let ao = get (int_of_string a) and bo = get (int_of_string b) in
           report (ao.w ^ "/value-dependence-tokens:" ^ ao.d) (if ao.tok = bo.tok then Ok else Fail (Printf.sprintf "equal arguments in different states: %d tokens left in one run, %d in the other" ao.tok bo.tok))
       | "#!" :: "samecert" :: a :: b :: _ ->
           incr step;
           (match Hashtbl.find_opt certs (int_of_string a), Hashtbl.find_opt certs (int_of_string b) with
            | Some (Some ca), Some (Some cb) ->
              (match equiv (get (int_of_string a)) (get (int_of_string b)) with
               | Some true ->
                 let same = (ca.lib = cb.lib) in
                 report ("cert/value" ^ (if same then "" else ":" ^ (if ca.lib = ca.recount then cert_cond cb else cert_cond ca)))
                   (if same then Ok else Fail (Printf.sprintf "equal sets (verified); certificate %s in state %s, %s in state %s" (show_cert ca.lib) (state_class ca.cflags) (show_cert cb.lib) (state_class cb.cflags)))
               | _ -> ())
            | _ -> ())
       | "#!" :: "step" :: w :: prev :: res :: _ ->
           incr step;
           let po = get (int_of_string prev) and ro = get (int_of_string res) in
           let w = dname po ^ "." ^ w in
           (match Hashtbl.find_opt certs (int_of_string prev), Hashtbl.find_opt certs (int_of_string res) with
            | Some (Some cp), Some (Some cr) ->
              (match incl po ro, equiv po ro with
               | Some true, Some same ->
                 if same then begin bump ("step:" ^ w ^ ":stationary");
                   report (w ^ "/cert-value") (if cp.recount = cr.recount then Ok else Fail "stationary step but the (recounted) certificate changed") end
                 else begin bump ("step:" ^ w ^ ":changed");
                   report (w ^ "/cert-decrease" ^ (if has_lines ro then ":lines" else ""))
                     (if base_decrease cp cr then Ok else Fail (Printf.sprintf "the value changed but the certificate (recounted from fresh copies) did not decrease: %s then %s" (show_cert cp.recount) (show_cert cr.recount))) end
               | Some false, _ -> report (w ^ "/iterates-ascending") (Fail "the new iterate does not contain the previous one")
               | _ -> report (w ^ "/cert-decrease") Undecided)
            | _ -> bump ("step:" ^ w ^ ":empty"))
       | ("psnew" | "psadd" | "psmk" as cmd) :: rest ->
           incr step; incr stats_steps;
           (match expect_res cmd with
            | `Exn cls -> report ("ps/" ^ cmd ^ "/exception") (Fail ("threw " ^ cls))
            | `Ok ->
              let id, p = read_ps "pst" in
              Hashtbl.replace pss id p; bump ("ps:" ^ cmd);
              List.iter (fun (o, _) -> report ("ps/" ^ cmd ^ "/dd") (want true (dd_ok o))) p.ds;
              check_ps_certs ("cert/state-independent/" ^ (if p.pd = "G" then "Grid" else "Poly") ^ "/in-powerset") p;
              if cmd = "psmk" then report "route/powerset" (want true (psequiv p (psget (int_of_string (List.nth rest 1))))))
       | ["pswiden"; cn; w; id; x; y] ->
           incr step; incr stats_steps;
           (match expect_res "pswiden" with
            | `Exn cls -> report ("ps." ^ cn ^ "." ^ w ^ "/exception") (Fail ("well-formed call threw " ^ cls))
            | `Ok ->
              let id', r = read_ps "pst" in let _, ya = read_ps "psty" in
              assert (id' = int_of_string id);
              let r = { r with pargs = [int_of_string x; int_of_string y] } in
              Hashtbl.replace pss id' r;
              let xo = psget (int_of_string x) and yo = psget (int_of_string y) in
              let k = "ps" ^ xo.pd ^ "." ^ cn ^ "." ^ w in
              bump ("pswiden:" ^ k);
              (match entails yo xo with
               | Some true ->
                 report (k ^ "/upper-bound") (want true (entails xo r));
                 report (k ^ "/arg-changed") (want true (psequiv ya yo));
                 if yo.ds = [] then begin bump ("empty-y:" ^ k); report (k ^ "/empty-argument") (want true (psequiv r xo)) end;
                 check_ps_certs ("cert/state-independent/" ^ (if r.pd = "G" then "Grid" else "Poly") ^ "/in-powerset") r;
                 (* the per-step hypothesis at powerset level, on certificates recounted from fresh copies:
                    hull certificate decreases, or it is equal and (the multiset decreases or a non-singleton became a singleton) *)
                 (match psequiv r yo, yo.hcert, r.hcert with
                  | Some true, _, _ -> bump ("psstep:" ^ k ^ ":stationary")
                  | Some false, Some hy, Some hr ->
                    bump ("psstep:" ^ k ^ ":changed");
                    let lines = has_lines r.hull || List.exists (fun (o, _) -> has_lines o) r.ds || List.exists (fun (o, _) -> has_lines o) yo.ds in
                    let rc l = List.filter_map (fun (_, ci) -> match ci with Some c -> Some c.recount | None -> None) l in
                    let dec =
                      (match hy.recount, hr.recount with
                       | CG a, CG b ->
                         let hc = Widen.grid_compare_gr a b in
                         if hc = WZ.z_of_int 1 then true
                         else if hc = WZ.z_of_int 0 then
                           let ms l = Widen.ms_of_list Widen.grid_compare (List.filter_map (function CG g -> Some g | _ -> None) (rc l)) in
                           Widen.ms_stabilizing Widen.grid_compare (ms r.ds) (ms yo.ds) || (List.length r.ds = 1 && List.length yo.ds > 1)
                         else false
                       | CP (a, ha), CP (b, hb) ->
                         if cn = "H79" then begin
                           let hc = Widen.h79_compare_ph ha hb in
                           if hc = WZ.z_of_int 1 then true
                           else if hc = WZ.z_of_int 0 then
                             let ms l = Widen.ms_of_list Widen.h79_compare (List.filter_map (function CP (_, h) -> Some h | _ -> None) (rc l)) in
                             Widen.ms_stabilizing Widen.h79_compare (ms r.ds) (ms yo.ds) || (List.length r.ds = 1 && List.length yo.ds > 1)
                           else false end
                         else begin
                           let hc = Widen.bhrz03_compare_ph a b in
                           if hc = WZ.z_of_int 1 then true
                           else if hc = WZ.z_of_int 0 then
                             let ms l = Widen.ms_of_list Widen.bhrz03_compare (List.filter_map (function CP (b, _) -> Some b | _ -> None) (rc l)) in
                             Widen.ms_stabilizing Widen.bhrz03_compare (ms r.ds) (ms yo.ds) || (List.length r.ds = 1 && List.length yo.ds > 1)
                           else false end
                       | _ -> false) in
                    (* the shape of the result of the `fourth technique': x itself plus one new disjunct *)
                    let xplus = List.length r.ds = List.length xo.ds + 1
                                && List.for_all (fun (o, _) -> List.exists (fun (o', _) -> equiv o o' = Some true) r.ds) xo.ds in
                    report (k ^ "/cert-decrease" ^ (if xplus then ":x-plus-one-disjunct" else if lines then ":lines" else ""))
                      (if dec then Ok else Fail (Printf.sprintf "the powerset changed in value but its certificate (hull %s -> %s, disjunct certificates recounted from fresh copies) did not decrease" (show_cert hy.recount) (show_cert hr.recount)))
                  | Some false, _, _ -> bump ("psstep:" ^ k ^ ":empty")
                  | None, _, _ -> report (k ^ "/cert-decrease") Undecided)
               | Some false -> genbug "y does not entail x"
               | None -> report (k ^ "/precondition") Undecided))
       | "#!" :: "pssame" :: kname :: a :: b :: _ ->
           incr step;
           let ao = psget (int_of_string a) and bo = psget (int_of_string b) in
           bump ("pssame:" ^ kname);
           let lines = has_lines ao.hull || has_lines bo.hull in
           let rows_ps (p : pset) (q : pset) = List.exists (fun (o, _) -> not (List.exists (fun (o', _) -> same_rows o o') q.ds)) p.ds in
           let rows = (match ao.pargs, bo.pargs with
             | [x1; y1], [x2; y2] -> (try rows_ps (psget x1) (psget x2) || rows_ps (psget y1) (psget y2) with _ -> false)
             | _ -> false) in
           report (kname ^ "/value-dependence:" ^ ao.pd ^ (if lines then "+lines" else "") ^ (if rows then "+rows-differ" else "")) (match psequiv ao bo with
             | Some true -> Ok
             | Some false -> Fail "equal powersets (verified, disjunct by disjunct) whose disjuncts are in different lazy states gave different results (verified)"
             | None -> Undecided)
       | t :: _ when t.[0] = '#' -> ()
       | _ -> raise (Syntax ("unknown script line: " ^ line)))
    done
  with End_of_file -> ());
  Printf.printf "STAT steps %d checks %d undecided %d cases %d timeouts %d\n" !stats_steps !stats_checks !stats_undecided !stats_cases !timeouts;
  Hashtbl.iter (fun k v -> Printf.printf "COV %s %d\n" k v) cov
