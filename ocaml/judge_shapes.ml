(* Judge for the shapes case language (harness/run_shapes.cc): properties C03 and C04.
   Untrusted glue (parsing, dispatch, bookkeeping) around functions extracted from Coq (module Shapes):
   every verdict is the answer of a verified decision procedure (incl_sys / equiv_sys / nonempty_sys /
   sup_expr) on constraint systems obtained by verified translations (sys_of_dbm / sys_of_oct /
   sys_of_box / cons_of_gens) and verified reference operators (Poly/PolyOps.v).

   usage: judge_shapes <casefile> <obsfile>
   output:  FAIL <case> <step> <kind> | <case line> | <detail>      kind starts with C03: or C04:
            UNDECIDED <case> <step> <kind> | <case line>
            STAT ... / COV <what> <count>                                                          *)
open Shapes
open Zutil_shapes

let split s = List.filter (fun x -> x <> "") (String.split_on_char ' ' s)
exception Syntax of string
exception Skip of string

type cur = { mutable t : string list }
let next c = match c.t with x :: r -> c.t <- r; x | [] -> raise (Syntax "missing token")
let nexti c = int_of_string (next c)
let nextz c = z_of_string (next c)
let rec take_z c n = if n = 0 then [] else let x = nextz c in x :: take_z c (n - 1)
let kind_of = function "=" -> EQ | ">=" -> GE | ">" -> GT | k -> raise (Syntax ("kind " ^ k))
let read_con c dim = let k = kind_of (next c) in let b = nextz c in let a = take_z c dim in { ccoefs = a; ccst = b; ckd = k }
let read_cons c dim = let k = nexti c in List.init k (fun _ -> read_con c dim)
let gkind_of = function "l" -> GLine | "r" -> GRay | "p" -> GPoint | "c" -> GClosure | k -> raise (Syntax ("gkind " ^ k))
let read_gen c dim = let k = gkind_of (next c) in let d = nextz c in let a = take_z c dim in { gk = k; gcoefs = a; gdiv = d }
let read_gens c dim = let k = nexti c in List.init k (fun _ -> read_gen c dim)
let read_expr_n c = let n = nexti c in let b = nextz c in let a = take_z c n in { lcoefs = a; lcst = b }
let read_rel c = match next c with "<" -> Some RLT | "<=" -> Some RLE | "==" -> Some REQ | ">=" -> Some RGE | ">" -> Some RGT | "!=" -> None | r -> raise (Syntax ("rel " ^ r))
(* congruence: m b a..  ; returns (modulus, lin) *)
let read_cg c dim = let m = nextz c in let b = nextz c in let a = take_z c dim in (m, { lcoefs = a; lcst = b })
let read_cgs c dim = let k = nexti c in List.init k (fun _ -> read_cg c dim)

let nat = nat_of_int
let is_point g = (match g.gk with GPoint -> true | _ -> false)
let has_point gs = List.exists is_point gs

(* ---- time budget for the worst-case exponential verified procedures ---- *)
exception Timeout
let budget = ref (try float_of_string (Sys.getenv "VERIF_JUDGE_BUDGET") with _ -> 4.0)
let timeouts = ref 0
let armed = ref false
let () = Sys.set_signal Sys.sigalrm (Sys.Signal_handle (fun _ -> if !armed then begin armed := false; raise Timeout end))
let timed (f : unit -> 'a) (dflt : 'a) : 'a =
  (* re-entrant: a nested call runs under the budget of the outermost one (it must not disarm the timer) *)
  if !armed then f () else begin
  let stop () = armed := false; ignore (Unix.setitimer Unix.ITIMER_REAL { Unix.it_interval = 0.0; it_value = 0.0 }) in
  try
    armed := true;
    ignore (Unix.setitimer Unix.ITIMER_REAL { Unix.it_interval = 0.0; it_value = !budget });
    let r = f () in stop (); r
  with Timeout -> stop (); incr timeouts; Gc.compact (); dflt
     | Stack_overflow | Out_of_memory -> stop (); incr timeouts; Gc.compact (); dflt
     | e -> stop (); raise e          (* Skip / Syntax pass through, but never leave the timer armed *)
  end

(* ---- systems ---- *)
let sys_dim (s : sys) = List.fold_left (fun a (c : cstr) -> max a (List.length c.coefs)) (List.fold_left (fun a (e : lin) -> max a (List.length e.lcoefs)) 0 s.eqs) s.ineqs
let dn (ss : sys list) extra = nat (List.fold_left (fun a s -> max a (sys_dim s)) extra ss + 1)
let incl a b = timed (fun () -> incl_sys (dn [a; b] 0) a b) None
let equiv a b = timed (fun () -> equiv_sys (dn [a; b] 0) a b) None
let nonempty a = timed (fun () -> nonempty_sys (dn [a] 0) a) None
let single_c (c : cstr) : sys = { eqs = []; ineqs = [c] }
let con_sys k = sys_of_cons [k]

(* ---- objects ---- *)
type fam = Bds | Oct | Box | Poly | Grid | Gens
type obj = { kind : string; fam : fam; car : string; dim : int; flags : string; empty_marked : bool;
             rows : q ext list list;            (* matrix rows (Bds / Oct) *)
             itvs : itv list;                   (* intervals (Box) *)
             gamma : sys; cons : con list; ok : int; bad : string option }

let fam_of kind = match String.sub kind 0 3 with
  | "bds" -> Bds | "oct" -> Oct | "box" -> Box | "cpo" | "nnc" -> Poly | "gri" -> Grid | "gen" -> Gens | _ -> raise (Syntax ("kind " ^ kind))
let car_of kind = match String.index_opt kind '_' with Some i -> String.sub kind (i + 1) (String.length kind - i - 1) | None -> ""

let q_of_string s =
  match String.index_opt s '/' with
  | Some i -> let n = z_of_string (String.sub s 0 i) and d = z_of_string (String.sub s (i + 1) (String.length s - i - 1)) in
              (match d with Zpos p -> { qnum = n; qden = p } | _ -> raise (Syntax ("bad rational " ^ s)))
  | None -> raise (Syntax ("bad rational " ^ s))

let parse_st line : int * obj =
  let c = { t = split line } in
  if next c <> "st" then raise (Syntax ("expected st: " ^ line));
  let id = nexti c in let kind = next c in let dim = nexti c in let flags = next c in
  let fam = fam_of kind in
  if next c <> "rep" then raise (Syntax "expected rep");
  let bad = ref None in
  let entry s = match s with "+inf" -> PInf | "-inf" | "nan" -> bad := Some ("matrix entry " ^ s); PInf | _ -> Fin (q_of_string s) in
  let tag = next c in
  let empty_marked = (tag = "E") in
  let rows = ref [] in
  let itvs_r = ref [] in
  let gamma_pre =
    match tag with
    | "E" -> `Sys false_sys
    | "M" ->
        let r = nexti c in
        let rs = List.init r (fun i -> let len = (match fam with Oct -> (i lor 1) + 1 | _ -> r) in List.init len (fun _ -> entry (next c))) in
        rows := rs;
        (match fam with
         | Bds -> `Sys (sys_of_dbm (nat (r - 1)) (mat_of_rows rs))
         | Oct -> `Sys (sys_of_oct (nat (r / 2)) (mat_of_rows rs))
         | _ -> raise (Syntax "rep M on a non-matrix kind"))
    | "B" ->
        let n = nexti c in
        let b s = if s = "-inf" || s = "+inf" then BInf else
            let op = (s.[0] = 'o') in BVal (q_of_string (String.sub s 1 (String.length s - 1)), op) in
        let itvs = List.init n (fun _ -> let lo = next c in let hi = next c in if lo = "e" then IEmpty else IBounds (b lo, b hi)) in
        itvs_r := itvs;
        `Sys (sys_of_box itvs)
    | "P" -> `Cons
    | "G" -> let e = nexti c in if e = 1 then `Sys false_sys else `Grid
    | "S" -> `Gens
    | _ -> raise (Syntax ("rep " ^ tag)) in
  let gamma, cons =
    match gamma_pre with
    | `Sys s -> if next c <> "cons" && fam <> Grid then raise (Syntax "expected cons");
                let cs = (match fam with Grid -> ignore (read_cgs c dim); [] | _ -> read_cons c dim) in s, cs
    | `Cons -> if next c <> "cons" then raise (Syntax "expected cons"); let cs = read_cons c dim in sys_of_cons cs, cs
    | `Grid -> if next c <> "cgs" then raise (Syntax "expected cgs");
               let cgs = read_cgs c dim in
               (* convex closed supersets of a non-empty grid are exactly those of its affine hull: the equalities *)
               { eqs = List.filter_map (fun (m, e) -> if m = Z0 then Some e else None) cgs; ineqs = [] }, []
    | `Gens -> if next c <> "gens" then raise (Syntax "expected gens");
               let gs = read_gens c dim in (if has_point gs then cons_of_gens (nat dim) gs else false_sys), [] in
  if next c <> "ok" then raise (Syntax "expected ok");
  let ok = nexti c in
  id, { kind; fam; car = car_of kind; dim; flags; empty_marked; rows = !rows; itvs = !itvs_r; gamma; cons; ok; bad = !bad }

(* ---- bookkeeping ---- *)
let prop = ref "C03"
let stats_steps = ref 0 and stats_checks = ref 0 and stats_undecided = ref 0 and stats_cases = ref 0
let cov : (string, int) Hashtbl.t = Hashtbl.create 64
let bump k = Hashtbl.replace cov k (1 + try Hashtbl.find cov k with Not_found -> 0)
type verdict = Ok | Fail of string | Undecided
let of_ob expected what = function Some b -> if b = expected then Ok else Fail what | None -> Undecided

let pool : (int, obj) Hashtbl.t = Hashtbl.create 16
let get id = try Hashtbl.find pool id with Not_found -> raise (Syntax "unknown object")

let exact_car o = (o.car = "q")
let is_main o = (match o.fam with Bds | Oct | Box -> true | _ -> false)

(* best abstraction of a union of pieces in the domain of [o]; None = undecided; Some None = empty *)
let templates o d = match o.fam with
  | Bds -> bds_templates (nat d) | Oct -> oct_templates (nat d) | Box -> box_templates (nat d) | _ -> []
let keep_open o = (o.fam = Box && o.car = "q")
let alpha_pieces o d (pieces : sys list) : (lin * tbound) list option option =
  let es = templates o d in
  let rec go acc = function
    | [] -> Some acc
    | p :: r ->
        (match nonempty p with
         | None -> None
         | Some false -> go acc r
         | Some true ->
             (match timed (fun () -> alpha_t (keep_open o) (nat (max d (sys_dim p))) p es) None with
              | None -> None
              | Some l -> go (match acc with None -> Some l | Some a -> Some (zip_max a l)) r)) in
  go None pieces

(* pieces of  X \ Y  as NNC systems: X /\ not c for each constraint / equality side of Y *)
let diff_pieces (x : sys) (y : sys) : sys list =
  let neg_piece c = { eqs = x.eqs; ineqs = neg_c c :: x.ineqs } in
  List.map neg_piece y.ineqs
  @ List.concat_map (fun (e : lin) -> [ { eqs = x.eqs; ineqs = { coefs = e.lcoefs; cst = e.lcst; strict = true } :: x.ineqs };
                                        { eqs = x.eqs; ineqs = neg_c { coefs = e.lcoefs; cst = e.lcst; strict = false } :: x.ineqs } ]) y.eqs

(* is the polyhedron P contained in X u Y ?  P \ X  must be inside Y *)
let incl_union (p : sys) (x : sys) (y : sys) : bool option =
  List.fold_left (fun acc piece -> match acc with Some true -> incl piece y | a -> a) (Some true) (diff_pieces p x)

(* number of non-zero coefficients / expressibility of  x_v' = e / d  in the domain *)
let nz (e : lin) = List.filter (fun (_, a) -> a <> Z0) (List.mapi (fun i a -> (i, a)) e.lcoefs)
let expressible fam v (e : lin) (d : z) =
  match nz e with
  | [] -> true
  | [ (w, a) ] ->
      (match fam with
       | Box -> w = v
       | Bds -> Z.eqb a d
       | Oct -> Z.eqb a d || Z.eqb a (Z.opp d)
       | _ -> false)
  | _ -> false

type claim = Exact | Best | Sound
(* reference semantics of one operation: new dimension, pieces of the exact result, the documented claim, extra checks *)
type refres = { rdim : int; pieces : sys list; claim : claim; within_pre : bool }

let check_den d = if d = Z0 then raise (Skip "zero denominator")

let relax_if_closed_dom o (k : con) = k   (* strict constraints are refused by BDS/Oct (exception) and kept by rational boxes *)

let ref_op (x : obj) (c : cur) (ret : string option) : refres =
  let op = next c in let n = x.dim in let xs = x.gamma in
  let fr = max n (sys_dim xs) in   (* scratch coordinate *)
  let same s = { rdim = n; pieces = [ s ]; claim = Exact; within_pre = false } in
  let arg () = let y = get (nexti c) in if y.kind <> x.kind then raise (Syntax "argument kind") else y in
  match op with
  | "add_constraint" -> let k = read_con c n in same (union_sys xs (con_sys k))
  | "add_constraints" | "add_recycled_constraints" -> let ks = read_cons c n in same (union_sys xs (sys_of_cons ks))
  | "refine_with_constraint" -> let k = read_con c n in { (same (union_sys xs (con_sys k))) with claim = Sound; within_pre = true }
  | "propagate_constraints" -> let ks = read_cons c n in { (same (union_sys xs (sys_of_cons ks))) with claim = Sound; within_pre = true }
  | "refine_with_constraints" -> let ks = read_cons c n in { (same (union_sys xs (sys_of_cons ks))) with claim = Sound; within_pre = true }
  | "add_congruence" | "refine_with_congruence" ->
      let (m, e) = read_cg c n in
      if m <> Z0 then raise (Skip "proper congruence");
      { (same (union_sys xs { eqs = [ e ]; ineqs = [] })) with claim = (if op = "add_congruence" then Exact else Sound); within_pre = true }
  | "add_congruences" | "refine_with_congruences" ->
      let cgs = read_cgs c n in
      if List.exists (fun (m, _) -> m <> Z0) cgs then raise (Skip "proper congruence");
      { (same (union_sys xs { eqs = List.map snd cgs; ineqs = [] })) with claim = (if op = "add_congruences" then Exact else Sound); within_pre = true }
  | "intersection_assign" -> let y = arg () in same (union_sys xs y.gamma)
  | "upper_bound_assign" -> let y = arg () in { rdim = n; pieces = [ xs; y.gamma ]; claim = Best; within_pre = false }
  | "integer_upper_bound_assign_if_exact" -> raise (Skip "integer semantics: judged on integer points in the main loop")
  | "upper_bound_assign_if_exact" ->
      let y = arg () in
      (match ret with
       | Some "1" -> { rdim = n; pieces = [ xs; y.gamma ]; claim = Best; within_pre = false }
       | _ -> same xs)
  | "difference_assign" -> let y = arg () in { rdim = n; pieces = diff_pieces xs y.gamma; claim = Best; within_pre = true }
  | "simplify_using_context_assign" ->
      (* meet-preserving simplification: result /\ y = x /\ y; in particular the result contains x /\ y *)
      let y = arg () in { (same (union_sys xs y.gamma)) with claim = Sound }
  | "concatenate_assign" -> let y = arg () in { (same (concatenate (nat n) xs y.gamma)) with rdim = n + y.dim }
  | "topological_closure_assign" -> same (relax xs)
  | "closure" | "reduction" | "obs_constraints" | "obs_minimized_constraints" | "obs_is_empty" -> same xs
  | "incremental_closure" -> ignore (nexti c); let k = read_con c n in same (union_sys xs (con_sys k))
  | "assign" | "swap" | "swap_std" -> let y = arg () in same y.gamma
  | "affine_image" | "affine_preimage" ->
      let v = nexti c in let d = nextz c in let e = read_expr_n c in check_den d;
      if v >= n || List.length e.lcoefs > n then raise (Skip "dimension-incompatible");
      let s = (if op = "affine_image" then affine_image else affine_preimage) (nat v) (nat fr) e d xs in
      { (same s) with claim = (if expressible x.fam v e d then Exact else Sound) }
  | "generalized_affine_image" | "generalized_affine_preimage" ->
      let v = nexti c in let r = read_rel c in let d = nextz c in let e = read_expr_n c in check_den d;
      if v >= n || List.length e.lcoefs > n then raise (Skip "dimension-incompatible");
      (match r with None -> raise (Skip "NOT_EQUAL") | Some r ->
        let s = (if op = "generalized_affine_image" then generalized_affine_image else generalized_affine_preimage) (nat v) (nat fr) r e d xs in
        { (same s) with claim = (if expressible x.fam v e d then Exact else Sound) })
  | "bounded_affine_image" | "bounded_affine_preimage" ->
      let v = nexti c in let d = nextz c in let lb = read_expr_n c in let ub = read_expr_n c in check_den d;
      if v >= n || List.length lb.lcoefs > n || List.length ub.lcoefs > n then raise (Skip "dimension-incompatible");
      let s = (if op = "bounded_affine_image" then bounded_affine_image else bounded_affine_preimage) (nat v) (nat fr) lb ub d xs in
      (* bounds that mention var itself compose two relations: exactness is only claimed for boxes *)
      let self_free (e : lin) = x.fam = Box || not (List.exists (fun (w, _) -> w = v) (nz e)) in
      { (same s) with claim = (if expressible x.fam v lb d && expressible x.fam v ub d && self_free lb && self_free ub then Exact else Sound) }
  | "generalized_affine_image_lhs" | "generalized_affine_preimage_lhs" ->
      let l = read_expr_n c in let r = read_rel c in let e = read_expr_n c in
      if List.length l.lcoefs > n || List.length e.lcoefs > n then raise (Skip "dimension-incompatible");
      (match r with None -> raise (Skip "NOT_EQUAL") | Some r ->
        (* V = variables of lhs.  image: { q | exists p in X, p = q outside V, lhs(q) r rhs(p) };
           preimage: { p | exists q in X, q = p outside V, lhs(q) r rhs(p) }.  The other copy of the V coordinates
           lives at fresh indices fr+1+i and is eliminated (rename_sys / elim_vars: each proved exact). *)
        let vs = List.map fst (nz l) in
        if vs = [] then raise (Skip "lhs without variables");
        let base = fr + 1 in
        let f k = let k' = int_of_nat k in if List.mem k' vs then nat (base + k') else k in
        let rel_lin a b = ladd a (lneg b) in     (* a - b *)
        let s =
          if op = "generalized_affine_image_lhs" then
            union_sys (rename_sys f xs) (rel_sys r (rel_lin l (rename_e f e)))
          else
            union_sys (rename_sys f xs) (rel_sys r (rel_lin (rename_e f l) e)) in
        let s = elim_vars (List.map (fun v -> nat (base + v)) vs) s in
        { (same s) with claim = Sound })
  | "unconstrain" -> let v = nexti c in if v >= n then raise (Skip "dimension-incompatible"); same (unconstrain (nat v) xs)
  | "unconstrain_set" -> let k = nexti c in let vs = List.init k (fun _ -> nexti c) in
      if List.exists (fun v -> v >= n) vs then raise (Skip "dimension-incompatible");
      same (unconstrain_set (List.map nat vs) xs)
  | "add_space_dimensions_and_embed" -> let m = nexti c in { (same xs) with rdim = n + m }
  | "add_space_dimensions_and_project" -> let m = nexti c in { (same (project_dims (nat n) (nat m) xs)) with rdim = n + m }
  | "remove_higher_space_dimensions" -> let k = nexti c in if k > n then raise (Skip "dimension-incompatible");
      { (same (remove_higher (nat k) (nat (max n (sys_dim xs))) xs)) with rdim = k }
  | "remove_space_dimensions" ->
      let k = nexti c in let vs = List.init k (fun _ -> nexti c) in
      if List.exists (fun v -> v >= n) vs then raise (Skip "dimension-incompatible");
      let cnt = ref 0 in
      let pf = List.init n (fun i -> if List.mem i vs then None else (let j = !cnt in incr cnt; Some (nat j))) in
      { (same (map_dims pf (nat (fr + 1)) xs)) with rdim = !cnt }
  | "map_space_dimensions" ->
      let k = nexti c in let m = List.init k (fun _ -> nexti c) in
      if k <> n then raise (Skip "partial function arity");
      let pf = List.map (fun j -> if j < 0 then None else Some (nat j)) m in
      let newdim = List.fold_left (fun a j -> if j >= 0 then max a (j + 1) else a) 0 m in
      { (same (map_dims pf (nat (max fr newdim + 1)) xs)) with rdim = newdim }
  | "expand_space_dimension" -> let v = nexti c in let m = nexti c in
      if v >= n then raise (Skip "dimension-incompatible");
      { (same (expand (nat v) (nat n) (nat m) xs)) with rdim = n + m }
  | "fold_space_dimensions" ->
      let k = nexti c in let vs = List.init k (fun _ -> nexti c) in let dest = nexti c in
      if List.exists (fun v -> v >= n) vs || dest >= n || List.mem dest vs then raise (Skip "dimension-incompatible");
      if vs = [] then same xs else begin
        (* result space: the dimensions not in vs, compacted.  piece for w in dest :: vs: keep w's values in dest's slot *)
        let newidx = let cnt = ref 0 in List.init n (fun i -> if List.mem i vs then -1 else (let j = !cnt in incr cnt; j)) in
        let rd = n - List.length vs in
        let piece w =
          let pf = List.init n (fun i ->
            if i = w then Some (nat (List.nth newidx dest))
            else if i = dest || List.mem i vs then None
            else Some (nat (List.nth newidx i))) in
          map_dims pf (nat (fr + 1)) xs in
        { rdim = rd; pieces = List.map piece (dest :: vs); claim = Best; within_pre = false }
      end
  | "time_elapse_assign" ->
      let y = arg () in
      (* { x + t*y' | x in X, y' in Y, t >= 0 } = X  u  { x + z | x in X, exists t > 0, z/t in Y }:
         q = x + z, X(x), a.z + b*t (>= | > | =) 0 for every constraint a.y + b (>= | > | =) 0 of Y, t > 0 *)
      let ys = y.gamma in
      (match nonempty xs, nonempty ys with
       | Some true, Some true ->
           let m = max fr (sys_dim ys) + 1 in
           (* coordinates: q at 0..n-1 (result), x at m..m+n-1, z at m+n..m+2n-1, t at m+2n *)
           let fx k = nat (m + int_of_nat k) and fz k = nat (m + n + int_of_nat k) in
           let tt = m + 2 * n in
           let add_t (coefs : z list) (b : z) = (* coefs . z + b * t *)
             let l = List.length coefs in coefs @ List.init (max 0 (tt - l)) (fun _ -> Z0) @ [ b ] in
           let zc = List.map (fun (cc : cstr) -> let h = rename_c fz { cc with cst = Z0 } in { coefs = add_t h.coefs cc.cst; cst = Z0; strict = cc.strict }) ys.ineqs in
           let ze = List.map (fun (e : lin) -> let h = rename_e fz { e with lcst = Z0 } in { lcoefs = add_t h.lcoefs e.lcst; lcst = Z0 }) ys.eqs in
           let tpos = { coefs = add_t [] (z_of_int 1); cst = Z0; strict = true } in
           let link = List.init n (fun i -> (* q_i - x_i - z_i = 0 *)
             ladd (lvar (nat i)) (lneg (ladd (lvar (nat (m + i))) (lvar (nat (m + n + i)))))) in
           let xr = rename_sys fx xs in
           let s = { eqs = link @ ze @ xr.eqs; ineqs = tpos :: zc @ xr.ineqs } in
           let s = elim_vars (List.init (2 * n + 1) (fun i -> nat (m + i))) s in
           { rdim = n; pieces = [ xs; s ]; claim = Sound; within_pre = false }
       | Some false, _ | _, Some false -> same false_sys
       | _ -> raise (Skip "undecided emptiness"))
  | _ -> raise (Skip ("op " ^ op))

(* ---- checks on a state ---- *)
let report_ref : (string -> string -> verdict -> unit) ref = ref (fun _ _ _ -> ())
let tags : string ref = ref ""
let lazy_tags : (unit -> string) ref = ref (fun () -> "")
let rep kind line v = !report_ref kind line (match v with Fail d -> let t = !tags ^ (!lazy_tags) () in if t <> "" then Fail (d ^ " tags:" ^ t) else v | v -> v)
let b2s b = if b then "1" else "0"
let ob2s = function Some true -> "1" | Some false -> "0" | None -> "u"
let obj_tags pfx (o : obj) =
  let ne = nonempty o.gamma in
  let has_sub (sub : string) (str : string) =
    let n = String.length sub and m = String.length str in
    let rec go i = i + n <= m && (String.sub str i n = sub || go (i + 1)) in go 0 in
  Printf.sprintf " %sempty=%s %smarked=%s %suniverse=%s %sreduced=%s" pfx (match ne with Some b -> b2s (not b) | None -> "u") pfx (b2s o.empty_marked)
    pfx (ob2s (timed (fun () -> q_is_universe (dn [ o.gamma ] o.dim) o.gamma) None))
    pfx (b2s (has_sub "+SPR" o.flags))

let check_state_basic line (o : obj) =
  if is_main o then begin
    (* OK() re-closes a copy and compares: with upward rounding the closure is not idempotent, so it is only
       required of the exact carriers *)
    if o.car = "q" || o.car = "z" then rep "C03:OK" line (if o.ok = 1 then Ok else Fail "OK() returned false") else (if o.ok <> 1 then bump "OK-false-inexact-carrier");
    (match o.bad with Some b -> rep "C03:entry" line (Fail b) | None -> ());
    (* constraints() denotes the same set as the private representation *)
    (let v = of_ob true "constraints() and the dumped representation denote different sets" (equiv (sys_of_cons o.cons) o.gamma) in
     rep "C03:cons-vs-rep" line v;
     (* exact carriers: the observers constraints() / minimized_constraints() are exact whatever the history (C04) *)
     if !prop = "C04" && exact_car o then rep "C04:cons-vs-rep" line v)
  end

(* result vs reference *)
let check_result line (tag : string) (res : obj) (r : refres) (pre : sys option) =
  if res.dim <> r.rdim then rep ("C03:" ^ tag ^ "/dim") line (Fail (Printf.sprintf "dimension %d, reference %d" res.dim r.rdim));
  (* C03: gamma(result) contains every piece of the exact result *)
  List.iter (fun p ->
    let v = of_ob true "result does not contain the exact result (verified inclusion test)" (incl p res.gamma) in
    rep ("C03:" ^ tag ^ "/contains-exact") line v;
    (* exactness / bestness (C04) is an equality: for exact carriers the containment is part of it *)
    if !prop = "C04" && exact_car res then rep ("C04:" ^ tag ^ "/contains-exact") line v) r.pieces;
  if !prop = "C04" && exact_car res then begin
    (match r.claim with
     | Exact ->
         (match r.pieces with
          | [ p ] -> rep ("C04:" ^ tag ^ "/exact") line (of_ob true "result is larger than the exact result although the operation is exact in this domain" (incl res.gamma p))
          | _ -> ())
     | Best ->
         (match alpha_pieces res r.rdim r.pieces with
          | None -> rep ("C04:" ^ tag ^ "/best") line Undecided
          | Some None -> rep ("C04:" ^ tag ^ "/best") line (of_ob false "exact result is empty but the result is not" (nonempty res.gamma))
          | Some (Some l) -> rep ("C04:" ^ tag ^ "/best") line (of_ob true "result is not the smallest element of the domain containing the exact result" (incl res.gamma (sys_of_pairs l))))
     | Sound -> ());
    (match pre with
     | Some p when r.within_pre -> rep ("C04:" ^ tag ^ "/within-receiver") line (of_ob true "result is not contained in the receiver's previous value" (incl res.gamma p))
     | _ -> ())
  end

(* closure model vs implementation matrix (BD shapes) *)
let qle_ext (a : q ext) (b : q ext) = match a, b with _, PInf -> true | PInf, Fin _ -> false | Fin x, Fin y -> qle_bool x y
let check_closure_model line (pre : obj) (post : obj) =
  if (pre.fam = Bds || pre.fam = Oct) && not pre.empty_marked && pre.rows <> [] then begin
    let n = (if pre.fam = Bds then List.length pre.rows - 1 else List.length pre.rows / 2) in
    let m = mat_of_rows pre.rows in
    let model = timed (fun () -> Some (if pre.fam = Bds then closure qc (nat n) m else strong_closure qc (nat n) m)) None in
    match model with
    | None -> rep "C03:closure-model" line Undecided
    | Some None ->
        (* model: empty.  exact carriers must find it; inexact ones may keep a non-empty over-approximation *)
        bump "closure-model:empty";
        if pre.car = "q" || pre.car = "z" then
          rep "C04:closure-model/empty" line (if post.empty_marked then Ok else Fail "exact closure finds a negative cycle, implementation does not mark the shape empty")
    | Some (Some mm) ->
        bump "closure-model:nonempty";
        if post.empty_marked then rep "C03:closure-model/empty" line (Fail "implementation marks empty a shape whose exact closure is non-empty")
        else begin
          let mrows = (if pre.fam = Bds then rows_of_mat (nat n) mm else rows_of_oct (nat n) mm) in
          let all2 f a b = List.for_all2 (fun ra rb -> List.for_all2 f ra rb) a b in
          (* entrywise: impl >= exact closure (never below: would cut points) *)
          rep "C03:closure-model/ge" line (if all2 qle_ext mrows post.rows then Ok else Fail "an entry of the implementation's closed matrix is below the exact shortest-path bound");
          if pre.car = "q" || (pre.car = "z" && pre.fam = Bds) then
            rep "C04:closure-model/eq" line (if all2 qle_ext post.rows mrows then Ok else Fail "an entry of the implementation's closed matrix is above the exact shortest-path bound");
          if !prop = "C04" && pre.fam = Bds then
            rep "C04:closure-model/closed_b" line (if closed_b (nat n) mm then Ok else Fail "model closure is not closed (model bug)")
        end
  end

(* ---- queries ---- *)
let b01 s = (s = "1")
let qeq (q : q) (nz : z) (dz : z) = Z.eqb (Z.mul q.qnum dz) (Z.mul nz (Zpos q.qden))
let qle_frac (q : q) (nz : z) (dz : z) = (* q <= nz/dz, dz > 0 *) Z.leb (Z.mul q.qnum dz) (Z.mul nz (Zpos q.qden))

(* affine dimension of a non-empty set: number of coordinates k whose value is not determined by x_0..x_{k-1} *)
let aff_dim (s : sys) (n : int) : int option =
  let m = max n (sys_dim s) in
  let f k = nat (m + int_of_nat k) in
  let s2 = rename_sys f s in
  let rec go k acc =
    if k = n then Some acc else
      let eqs = List.init k (fun i -> ladd (lvar (nat i)) (lneg (lvar (nat (m + i))))) in
      let lt = c_of (ladd (lvar (nat (m + k))) (lneg (lvar (nat k)))) true in
      let t = { eqs = eqs @ s.eqs @ s2.eqs; ineqs = lt :: s.ineqs @ s2.ineqs } in
      match nonempty t with None -> None | Some b -> go (k + 1) (if b then acc + 1 else acc) in
  go 0 0

let rec ref_query line (x : obj) (c : cur) (ans : string list) =
  let q = next c in let n = x.dim in let xs = x.gamma in
  let exact = (!prop = "C04" && exact_car x) in
  let ansb () = match ans with [ "ans"; "b"; v ] -> b01 v | _ -> raise (Syntax "expected ans b") in
  (* definite(v): when the implementation answers v the reference must agree (C03); exact carriers: always (C04) *)
  let cmpb ?(definite = [ true ]) (r : bool option Lazy.t) =
    let a = ansb () in
    if List.mem a definite then
      rep ("C03:" ^ q ^ "/definite") line (match Lazy.force r with Some b -> if b = a then Ok else Fail (Printf.sprintf "implementation answers %b, verified reference %b" a b) | None -> Undecided);
    if exact then
      rep ("C04:" ^ q) line (match Lazy.force r with Some b -> if b = a then Ok else Fail (Printf.sprintf "implementation %b, verified reference %b" a b) | None -> Undecided) in
  let arg () = let y = get (nexti c) in if y.kind <> x.kind then raise (Syntax "argument kind") else y in
  let dnx = dn [ xs ] n in
  match q with
  | "is_empty" -> cmpb (lazy (timed (fun () -> q_is_empty dnx xs) None))
  | "is_universe" -> cmpb (lazy (timed (fun () -> q_is_universe dnx xs) None))
  | "is_bounded" -> cmpb (lazy (timed (fun () -> q_is_bounded (nat (max n (sys_dim xs))) xs) None))
  | "is_topologically_closed" -> cmpb ~definite:[] (lazy (timed (fun () -> q_is_closed dnx xs) None))
  | "contains" -> let y = arg () in cmpb (lazy (incl y.gamma xs))
  | "strictly_contains" -> let y = arg () in cmpb (lazy (timed (fun () -> q_strictly_contains (dn [ xs; y.gamma ] n) xs y.gamma) None))
  | "is_disjoint_from" -> let y = arg () in
      (* does the extracted model of the code (closure of both, then intersect, close, test emptiness) give the same answer? *)
      let model =
        if x.rows = [] || y.rows = [] || x.empty_marked || y.empty_marked then "na" else
        (match x.fam with
         | Bds -> let n = nat (List.length x.rows - 1) in
             (match timed (fun () -> Some (closure qc n (mat_of_rows x.rows), closure qc n (mat_of_rows y.rows))) None with
              | Some (Some a, Some b) -> b2s (fixed_is_disjoint qc n a b) | Some _ -> "1" | None -> "u")
         | Oct -> let n = nat (List.length x.rows / 2) in
             (match timed (fun () -> Some (strong_closure qc n (mat_of_rows x.rows), strong_closure qc n (mat_of_rows y.rows))) None with
              | Some (Some a, Some b) -> b2s (oct_fixed_is_disjoint qc n a b) | Some _ -> "1" | None -> "u")
         | _ -> "na") in
      tags := !tags ^ " model_answer=" ^ model;
      cmpb (lazy (timed (fun () -> q_is_disjoint (dn [ xs; y.gamma ] n) xs y.gamma) None))
  | "equals" -> let y = arg () in cmpb (lazy (equiv xs y.gamma))
  | "constrains" -> let v = nexti c in cmpb ~definite:[ false ] (lazy (timed (fun () -> q_constrains dnx (nat v) xs) None))
  | "bounds_from_above" -> let e = read_expr_n c in cmpb (lazy (timed (fun () -> q_bounds_above (nat (max n (sys_dim xs))) e xs) None))
  | "bounds_from_below" -> let e = read_expr_n c in cmpb (lazy (timed (fun () -> q_bounds_below (nat (max n (sys_dim xs))) e xs) None))
  | "is_discrete" ->
      cmpb (lazy (match nonempty xs with Some false -> Some true | Some true -> (match aff_dim xs n with Some d -> Some (d = 0) | None -> None) | None -> None))
  | "affine_dimension" ->
      (match ans with
       | [ "ans"; "n"; v ] ->
           if exact then
             rep "C04:affine_dimension" line
               (match nonempty xs with
                | Some false -> if v = "0" then Ok else Fail ("empty set, implementation answers " ^ v)
                | Some true -> (match aff_dim xs n with Some d -> if string_of_int d = v then Ok else Fail (Printf.sprintf "implementation %s, reference %d" v d) | None -> Undecided)
                | None -> Undecided)
       | _ -> raise (Syntax "expected ans n"))
  | "relation_with_con_n" | "relation_with_gen_n" | "relation_with_cg_n" ->
      (* argument of smaller space dimension k: same reference as the argument padded with zero coefficients *)
      let k = nexti c in
      if k > n then raise (Skip "arity above the dimension");
      let rec take m l = if m = 0 then [], l else (match l with h :: r -> let a, b = take (m - 1) r in h :: a, b | [] -> raise (Syntax "missing token")) in
      let head, rest = take (2 + k) c.t in
      tags := !tags ^ Printf.sprintf " arg_arity=%d" k;
      ref_query line x { t = (String.sub q 0 (String.length q - 2)) :: head @ List.init (n - k) (fun _ -> "0") @ rest } ans
  | "relation_with_cg" ->
      (* only equalities (modulus 0) are judged: relation with the corresponding equality constraint *)
      (match c.t with
       | m :: rest when m = "0" -> ref_query line x { t = "relation_with_con" :: "=" :: rest } ans
       | _ ->
         (* proper congruence  e = 0 (mod m): the values of e on the (convex) set form an interval [lo, hi] given by the
            verified infimum / supremum; the hyperplanes e = k*m meeting the set are those with k*m in that interval *)
         let (m, e) = read_cg c n in
         let m = Z.abs m in
         tags := !tags ^ " cg_modulus=" ^ string_of_z m;
         let nn = nat (max n (max (sys_dim xs) (List.length e.lcoefs))) in
         let fl (q : q) = Z.div q.qnum (Z.mul (Zpos q.qden) m) in                       (* floor (q / m) *)
         let ce (q : q) = Z.opp (Z.div (Z.opp q.qnum) (Z.mul (Zpos q.qden) m)) in       (* ceiling (q / m) *)
         let is_mult (q : q) (k : z) = Z.eqb q.qnum (Z.mul (Z.mul k m) (Zpos q.qden)) in
         let expected =
           (match timed (fun () -> Some (q_minimize nn e xs, q_maximize nn e xs)) None with
            | Some (Some SupEmpty, _) | Some (_, Some SupEmpty) -> Some (true, true, false)
            | Some (Some SupUnbounded, Some _) | Some (Some _, Some SupUnbounded) -> Some (false, false, true)
            | Some (Some (SupVal (lo, la)), Some (SupVal (hi, ha))) ->
                let kmin = ce lo and kmax = fl hi in
                let kmin = if (not la) && is_mult lo kmin then Z.add kmin (z_of_int 1) else kmin in
                let kmax = if (not ha) && is_mult hi kmax then Z.sub kmax (z_of_int 1) else kmax in
                let disj = Z.ltb kmax kmin in
                let incl_ = (not disj) && la && ha && qeq_bool lo hi && is_mult lo kmin in
                Some (disj, incl_, (not disj) && not incl_)
            | _ -> None) in
         (match ans, expected with
          | [ "ans"; "rel"; d; i; _; si ], Some (ed, ei, esi) ->
              let one name (v : string) (e : bool) =
                if b01 v && name <> "strictly_intersects" then rep ("C03:relation_with_cg/" ^ name) line (if e then Ok else Fail (name ^ " reported but false"));
                if exact then rep ("C04:relation_with_cg/" ^ name) line (if e = b01 v then Ok else Fail (Printf.sprintf "%s: implementation %s, reference %b" name v e)) in
              one "is_disjoint" d ed; one "is_included" i ei; one "strictly_intersects" si esi
          | [ "ans"; "rel"; _; _; _; _ ], None -> rep "C03:relation_with_cg" line Undecided
          | _ -> raise (Syntax "expected ans rel")))
  | "relation_with_con" ->
      let k = read_con c n in
      tags := !tags ^ Printf.sprintf " con_vars=%d con_kind=%s" (List.length (List.filter (fun a -> a <> Z0) k.ccoefs)) (match k.ckd with EQ -> "eq" | GE -> "ge" | GT -> "gt");
      (if x.fam = Box then
         match List.filter (fun (_, a) -> a <> Z0) (List.mapi (fun i a -> (i, a)) k.ccoefs) with
         | [ (v, a) ] when v < List.length x.itvs ->
             (match List.nth x.itvs v with
              | IBounds (lo, hi) ->
                  let neg = (match a with Zneg _ -> true | _ -> false) in
                  tags := !tags ^ Printf.sprintf " con_is_upper_bound=%s itv_upper_unbounded=%s itv_lower_unbounded=%s" (b2s neg) (b2s (hi = BInf)) (b2s (lo = BInf))
              | IEmpty -> tags := !tags ^ " itv_empty=1")
         | _ -> ());
      (match ans with
       | [ "ans"; "rel"; d; i; s; si ] ->
           let one name r v =
             (* a reported relation must hold (C03); for exact carriers the four documented relations are reported exactly (C04) *)
             let rv = timed (fun () -> Lazy.force r) None in
             if b01 v && name <> "strictly_intersects" then rep ("C03:relation_with_con/" ^ name) line (match rv with Some b -> if b then Ok else Fail (name ^ " reported but false") | None -> Undecided);
             if exact then rep ("C04:relation_with_con/" ^ name) line (match rv with Some b -> if b = b01 v then Ok else Fail (Printf.sprintf "%s: implementation %s, verified reference %b" name v b) | None -> Undecided) in
           one "is_disjoint" (lazy (rel_is_disjoint dnx xs k)) d;
           one "is_included" (lazy (rel_is_included dnx xs k)) i;
           one "saturates" (lazy (rel_saturates dnx xs k)) s;
           one "strictly_intersects" (lazy (rel_strictly_intersects dnx xs k)) si
       | _ -> raise (Syntax "expected ans rel"))
  | "relation_with_gen" ->
      let g = read_gen c n in
      if is_point g then begin
        let eqs = List.mapi (fun i ci -> { lcoefs = List.init n (fun j -> if i = j then g.gdiv else Z0); lcst = Z.opp ci }) g.gcoefs in
        cmpb (lazy (nonempty { eqs = eqs @ xs.eqs; ineqs = xs.ineqs }))
      end else begin
        (* ray / line r: subsumed iff the set is non-empty and r is in its recession cone (lineality space):
           a.r >= 0 (= 0) for every constraint a.x + b >= 0 (= 0) of the denotation (each listed constraint is valid,
           so the condition is necessary; it is obviously sufficient).  closure points: not judged *)
        (match g.gk with GClosure -> raise (Skip "closure point") | _ -> ());
        let dotz (coefs : z list) = let rec go cs rs acc = (match cs, rs with a :: cr, b :: rr -> go cr rr (Z.add acc (Z.mul a b)) | _ -> acc) in go coefs g.gcoefs Z0 in
        let is_line = (match g.gk with GLine -> true | _ -> false) in
        let in_cone = List.for_all (fun (e : lin) -> dotz e.lcoefs = Z0) xs.eqs
                      && List.for_all (fun (cc : cstr) -> match dotz cc.coefs with Z0 -> true | Zpos _ -> not is_line | Zneg _ -> false) xs.ineqs in
        tags := !tags ^ " gen_kind=" ^ (if is_line then "line" else "ray");
        cmpb (lazy (match nonempty xs with Some true -> Some in_cone | Some false -> Some false | None -> None))
      end
  | "maximize" | "minimize" | "maximize_nw" | "minimize_nw" ->
      let e = read_expr_n c in
      tags := !tags ^ Printf.sprintf " expr_vars=%d" (List.length (nz e));
      let mx = (q = "maximize" || q = "maximize_nw") in
      let nn = nat (max n (max (sys_dim xs) (List.length e.lcoefs))) in
      let r = timed (fun () -> if mx then q_maximize nn e xs else q_minimize nn e xs) None in
      (match r, ans with
       | None, _ -> rep ("C03:" ^ q) line Undecided
       | Some (SupVal (m, att)), ("ans" :: "opt" :: "1" :: nz :: dz :: mxf :: grest) ->
           let nz = z_of_string nz and dz = z_of_string dz in
           let nz, dz = (match dz with Zneg _ -> Z.opp nz, Z.opp dz | _ -> nz, dz) in
           (* C03: the reported optimum bounds the expression on the set *)
           let sound = if mx then qle_frac m nz dz else (Z.leb (Z.mul nz (Zpos m.qden)) (Z.mul m.qnum dz)) in
           rep ("C03:" ^ q ^ "/bound") line (if sound then Ok else Fail "reported optimum is beaten by a point of the denoted set");
           if exact then begin
             rep ("C04:" ^ q ^ "/value") line (if qeq m nz dz then Ok else Fail "optimal value differs from the verified supremum/infimum");
             rep ("C04:" ^ q ^ "/attained") line (if att = b01 mxf then Ok else Fail (Printf.sprintf "attained flag %s, verified %b" mxf att));
             if att && grest <> [] then begin
               let gc = { t = grest } in let g = read_gen gc n in
               if not (is_point g) then rep ("C04:" ^ q ^ "/witness") line (Fail "witness is not a point") else begin
                 let eqs = List.mapi (fun i ci -> { lcoefs = List.init n (fun j -> if i = j then g.gdiv else Z0); lcst = Z.opp ci }) g.gcoefs in
                 let inside = nonempty { eqs = eqs @ xs.eqs; ineqs = xs.ineqs } in
                 let valc = { lcoefs = List.map (fun a -> Z.mul a dz) e.lcoefs; lcst = Z.sub (Z.mul e.lcst dz) nz } in
                 let valok = nonempty { eqs = valc :: eqs; ineqs = [] } in
                 rep ("C04:" ^ q ^ "/witness") line
                   (match inside, valok with
                    | Some true, Some true -> Ok
                    | Some false, _ -> Fail "witness point is not in the set"
                    | _, Some false -> Fail "expression at the witness differs from the reported optimum"
                    | _ -> Undecided)
               end
             end
           end
       | Some (SupVal _), _ ->
           (* "unbounded / empty" answered for a bounded non-empty set: not a definite answer in the unsafe direction for C03 *)
           if exact then rep ("C04:" ^ q) line (Fail "implementation reports unbounded/empty, verified reference finds a finite optimum")
       | Some SupUnbounded, ("ans" :: "opt" :: "1" :: _) -> rep ("C03:" ^ q ^ "/bound") line (Fail "finite optimum reported for an expression unbounded on the denoted set")
       | Some SupEmpty, ("ans" :: "opt" :: "1" :: _) -> if exact then rep ("C04:" ^ q) line (Fail "optimum reported on an empty set")
       | Some _, _ -> rep ("C03:" ^ q) line Ok)
  | _ -> raise (Skip ("query " ^ q))

(* ---- integer points of small shapes (untrusted evaluation; only used for integer_upper_bound_assign_if_exact) ---- *)
let eval_lin (coefs : z list) (cst : z) (pt : int list) : z =
  let rec go cs ps acc = match cs, ps with
    | c :: cr, p :: pr -> go cr pr (Z.add acc (Z.mul c (z_of_int p)))
    | c :: cr, [] -> go cr [] acc     (* coordinates beyond the dimension do not occur *)
    | [], _ -> acc in
  go coefs pt cst
let sat_point (s : sys) (pt : int list) : bool =
  List.for_all (fun (e : lin) -> eval_lin e.lcoefs e.lcst pt = Z0) s.eqs
  && List.for_all (fun (c : cstr) -> match eval_lin c.coefs c.cst pt with Z0 -> not c.strict | Zpos _ -> true | Zneg _ -> false) s.ineqs
let cube_sys n lo hi : sys =
  { eqs = []; ineqs = List.concat (List.init n (fun i ->
      [ { coefs = List.init n (fun j -> if i = j then z_of_int 1 else Z0); cst = z_of_int (- lo); strict = false };
        { coefs = List.init n (fun j -> if i = j then z_of_int (-1) else Z0); cst = z_of_int hi; strict = false } ])) }
let rec cube_points n lo hi : int list list =
  if n = 0 then [ [] ] else
    let rest = cube_points (n - 1) lo hi in
    List.concat (List.init (hi - lo + 1) (fun v -> List.map (fun r -> (lo + v) :: r) rest))
(* Some (points) when the set lies inside the cube [lo,hi]^n (decided by the verified inclusion test) *)
let int_points n lo hi (s : sys) : int list list option =
  match incl s (cube_sys n lo hi) with
  | Some true -> Some (List.filter (sat_point s) (cube_points n lo hi))
  | _ -> None

(* ---- constructors ---- *)
let ref_new (o : obj) (how : string) (c : cur) : refres =
  let n = o.dim in
  let mk ps cl = { rdim = n; pieces = ps; claim = cl; within_pre = false } in
  match how with
  | "universe" -> mk [ empty_sys ] Exact
  | "empty" -> mk [ false_sys ] Exact
  | "cons" -> mk [ sys_of_cons (read_cons c n) ] Exact
  | "gens" -> let gs = read_gens c n in if has_point gs then mk [ cons_of_gens (nat n) gs ] Best else mk [ false_sys ] Exact
  | "cgs" -> let cgs = read_cgs c n in
      if List.exists (fun (m, _) -> m <> Z0) cgs then raise (Skip "proper congruence");
      mk [ { eqs = List.map snd cgs; ineqs = [] } ] Exact
  | "twin" -> let src = get (nexti c) in { rdim = src.dim; pieces = [ src.gamma ]; claim = Exact; within_pre = false }
  | "from" ->
      let src = get (nexti c) in let cx = next c in
      (* every complexity class must be sound; the smallest enclosing element is documented for ANY_COMPLEXITY
         (and whenever the source is itself a box / BD shape / octagon / grid / generator system) *)
      let inexact_src = (match src.fam with Bds | Oct | Box -> src.car = "i8" || src.car = "d" | _ -> false) in
      let best = not inexact_src && ((cx = "any") || (match src.fam with Poly -> false | _ -> true)) in
      { rdim = src.dim; pieces = [ src.gamma ]; claim = (if best then Best else Sound); within_pre = false }
  | _ -> raise (Skip ("new " ^ how))

(* ---- main loop ---- *)
let () =
  let casefile = Sys.argv.(1) and obsfile = Sys.argv.(2) in
  if Array.length Sys.argv > 3 then prop := Sys.argv.(3);
  let ic = open_in casefile and io = open_in obsfile in
  let rdo () = try Some (input_line io) with End_of_file -> None in
  let rdo1 () = match rdo () with Some l -> l | None -> raise (Syntax "observation file ended early") in
  let case = ref "?" and step = ref 0 in
  report_ref := (fun kind line v ->
    incr stats_checks;
    match v with
    | Ok -> ()
    | Fail d -> Printf.printf "FAIL %s %d %s | %s | %s\n" !case !step kind line d
    | Undecided -> incr stats_undecided; Printf.printf "UNDECIDED %s %d %s | %s\n" !case !step kind line);
  let expect_res () = let l = rdo1 () in
    match split l with [ "res"; "ok" ] -> `Ok | [ "res"; "exn"; cls ] -> `Exn cls
    | "HARNESS-ERROR" :: _ -> Printf.printf "HARNESS %s\n" l; exit 3
    | _ -> raise (Syntax ("expected res: " ^ l)) in
  (try
    while true do
      let line = input_line ic in
      let toks = split line in
      (try
      (match toks with
       | [] -> ()
       | t :: _ when t.[0] = '#' -> ()
       | "case" :: id :: _ -> case := id; step := 0; Hashtbl.reset pool; incr stats_cases; ignore (rdo ())
       | "end" :: _ -> ignore (rdo ())
       | "new" :: _ :: kind :: _ :: how :: rest ->
           incr step; incr stats_steps; tags := ""; lazy_tags := (fun () -> "");
           (match expect_res () with
            | `Exn cls -> bump ("new-exn:" ^ how ^ ":" ^ cls);
                (* the harness binds the id to the universe of that kind *)
                let id, o = parse_st (rdo1 ()) in Hashtbl.replace pool id o
            | `Ok ->
                let id, o = parse_st (rdo1 ()) in
                Hashtbl.replace pool id o;
                bump ("new:" ^ kind ^ ":" ^ how);
                if is_main o then begin
                  bump ("flags:" ^ o.kind ^ ":" ^ o.flags);
                  check_state_basic line o;
                  (try let r = ref_new o how { t = rest } in check_result line ("new:" ^ how) o r None
                   with Skip w -> bump ("unmodelled:new:" ^ how))
                end)
       | "copy" :: _ :: b :: _ ->
           incr step; incr stats_steps; tags := ""; lazy_tags := (fun () -> "");
           ignore (expect_res ());
           let id, o = parse_st (rdo1 ()) in
           let y = get (int_of_string b) in
           Hashtbl.replace pool id o;
           if is_main o then begin
             check_state_basic line o;
             check_result line "copy" o { rdim = y.dim; pieces = [ y.gamma ]; claim = Exact; within_pre = false } None
           end
       | "op" :: ids :: name :: rest ->
           incr step; incr stats_steps;
           let ret = ref None in
           let r =
             (let l = rdo1 () in
              match split l with
              | "ret" :: v :: _ -> ret := Some v; expect_res ()
              | [ "res"; "ok" ] -> `Ok | [ "res"; "exn"; cls ] -> `Exn cls
              | "HARNESS-ERROR" :: _ -> Printf.printf "HARNESS %s\n" l; exit 3
              | _ -> raise (Syntax ("expected res: " ^ l))) in
           let stl = ref (rdo1 ()) in
           let id, post = parse_st !stl in
           let pre = get (int_of_string ids) in
           let swapped = (if name = "swap" || name = "swap_std" then Some (parse_st (rdo1 ())) else None) in
           tags := "";
           lazy_tags := (fun () ->
             obj_tags "recv_" pre ^
             (match rest with
              | a :: _ when List.mem name [ "intersection_assign"; "upper_bound_assign"; "difference_assign"; "concatenate_assign"; "time_elapse_assign"; "upper_bound_assign_if_exact"; "integer_upper_bound_assign_if_exact"; "assign"; "swap"; "swap_std"; "simplify_using_context_assign" ] ->
                  (try obj_tags "arg_" (get (int_of_string a)) with _ -> "")
              | _ -> ""));
           bump ("op:" ^ name); bump ("opk:" ^ pre.kind ^ ":" ^ name); bump ("flags:" ^ post.kind ^ ":" ^ post.flags);
           check_state_basic line post;
           (match r with
            | `Exn cls ->
                bump ("op-exn:" ^ name ^ ":" ^ cls);
                (* the call was refused: the receiver must still denote (at least) what it denoted *)
                rep ("C03:op-exn-unchanged:" ^ name) line (of_ob true "receiver lost points although the call threw" (incl pre.gamma post.gamma));
                if !prop = "C04" && exact_car post then
                  rep ("C04:op-exn-unchanged:" ^ name) line (of_ob true "receiver changed although the call threw" (incl post.gamma pre.gamma))
            | `Ok when name = "integer_upper_bound_assign_if_exact" && pre.dim <= 3 ->
                (* integer semantics: compare the INTEGER points (shapes inside a small cube only) *)
                let y = get (int_of_string (List.hd rest)) in
                let n = pre.dim in
                (match int_points n (-8) 12 pre.gamma, int_points n (-8) 12 y.gamma, int_points n (-8) 12 post.gamma with
                 | Some px, Some py, Some pr ->
                     bump "int-ub:judged";
                     let mem p l = List.mem p l in
                     let union = px @ List.filter (fun p -> not (mem p px)) py in
                     (match !ret with
                      | Some "1" ->
                          rep "C03:op:integer_upper_bound_assign_if_exact/contains-integer-points" line
                            (if List.for_all (fun p -> mem p pr) union then Ok else Fail "an integer point of an argument is not in the result");
                          rep "C03:integer_upper_bound_assign_if_exact/true-is-integer-union" line
                            (if List.for_all (fun p -> mem p union) pr then Ok else Fail "answered true but the result holds an integer point that is in neither argument")
                      | _ ->
                          rep "C03:op:integer_upper_bound_assign_if_exact/unchanged-on-false" line
                            (if List.for_all (fun p -> mem p pr) px && List.for_all (fun p -> mem p px) pr then Ok else Fail "answered false but the integer points of the receiver changed"))
                 | _ -> bump "int-ub:skipped-unbounded")
            | `Ok ->
                (try
                  let rr = timed (fun () -> Some (ref_op pre { t = name :: rest } !ret)) None in
                  (match rr with
                   | None -> rep ("C03:op:" ^ name) line Undecided
                   | Some rr ->
                     check_result line ("op:" ^ name) post rr (Some pre.gamma);
                     if name = "closure" then check_closure_model line pre post;
                     if name = "simplify_using_context_assign" then begin
                       let y = get (int_of_string (List.hd rest)) in
                       let meet_pre = union_sys pre.gamma y.gamma and meet_post = union_sys post.gamma y.gamma in
                       (* documented: the result is a meet-preserving simplification; if false is returned the intersection is empty *)
                       tags := !tags ^ Printf.sprintf " recv_contains_arg=%s ret=%s" (ob2s (incl y.gamma pre.gamma)) (match !ret with Some v -> v | None -> "?");
                       rep "C03:simplify_using_context_assign/meet-contained" line (of_ob true "result /\\ context lost points of receiver /\\ context" (incl meet_pre meet_post));
                       (match !ret with
                        | Some "0" -> rep "C03:simplify_using_context_assign/false-means-disjoint" line (of_ob false "answered false but the intersection with the context is not empty" (nonempty meet_pre))
                        | _ -> ());
                       if !prop = "C04" && exact_car post then
                         rep "C04:simplify_using_context_assign/meet-preserving" line (of_ob true "result /\\ context differs from receiver /\\ context" (equiv meet_post meet_pre))
                     end;
                     if name = "upper_bound_assign_if_exact" then begin
                       (match !ret with
                        | Some "1" when post.car = "q" || post.car = "z" ->
                            (* answered true: the result must be exactly the union *)
                            (match rr.pieces with
                             | [ a; b ] -> rep "C03:upper_bound_assign_if_exact/true-is-union" line (of_ob true "answered true but the result is not the set union" (incl_union post.gamma a b))
                             | _ -> ())
                        | _ -> ());
                       if !prop = "C04" && exact_car post then begin
                         let y = get (int_of_string (List.hd rest)) in
                         (match alpha_pieces pre pre.dim [ pre.gamma; y.gamma ] with
                          | Some (Some l) ->
                              let exact_union = incl_union (sys_of_pairs l) pre.gamma y.gamma in
                              rep "C04:upper_bound_assign_if_exact/iff" line
                                (match exact_union with Some b -> if b = (!ret = Some "1") then Ok else Fail (Printf.sprintf "answered %s but 'the union is in the domain' is %b" (match !ret with Some v -> v | None -> "?") b) | None -> Undecided)
                          | Some None -> ()
                          | None -> rep "C04:upper_bound_assign_if_exact/iff" line Undecided)
                       end
                     end)
                with Skip w -> bump ("unmodelled:" ^ name)));
           (match swapped with
            | Some (id2, post2) ->
                check_state_basic line post2;
                if id2 <> id then begin
                  check_result line "op:swap/other" post2 { rdim = pre.dim; pieces = [ pre.gamma ]; claim = Exact; within_pre = false } None;
                  Hashtbl.replace pool id2 post2
                end
            | None -> ());
           Hashtbl.replace pool id post
       | "stall" :: _ ->
           incr step; tags := ""; lazy_tags := (fun () -> "");
           let rec loop () = match rdo () with
             | Some "endst" | None -> ()
             | Some l ->
                 let id, o = parse_st l in
                 (try
                   let old = Hashtbl.find pool id in
                   if is_main o then
                     rep "C03:unchanged" (Printf.sprintf "object %d" id) (of_ob true "an object that was only used as an argument / observed changed its value" (equiv old.gamma o.gamma))
                 with Not_found -> ());
                 loop () in
           loop ()
       | "qry" :: ids :: rest ->
           incr step; incr stats_steps;
           let ans = split (rdo1 ()) in
           (match ans with
            | "ans" :: "exn" :: cls :: _ -> bump ("qry-exn:" ^ List.hd rest ^ ":" ^ cls)
            | _ ->
              (try
                bump ("qry:" ^ List.hd rest);
                tags := "";
                (let xo = get (int_of_string ids) in lazy_tags := (fun () -> obj_tags "recv_" xo));
                ref_query line (get (int_of_string ids)) { t = rest } ans
              with Skip _ -> bump ("unmodelled:qry:" ^ List.hd rest)))
       | _ -> raise (Syntax ("unknown case line: " ^ line)))
      with Syntax m -> Printf.printf "JUDGE-SYNTAX %s at: %s\n" m line; exit 4)
    done
  with End_of_file -> ());
  Printf.printf "STAT steps %d checks %d undecided %d cases %d timeouts %d\n" !stats_steps !stats_checks !stats_undecided !stats_cases !timeouts;
  Hashtbl.iter (fun k v -> Printf.printf "COV %s %d\n" k v) cov
