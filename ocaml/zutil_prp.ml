(* Conversions between text / OCaml ints and the extracted binary integers (untrusted glue). *)
open Prp
let rec pos_of_int n = if n = 1 then XH else if n land 1 = 0 then XO (pos_of_int (n lsr 1)) else XI (pos_of_int (n lsr 1))
let z_of_int n = if n = 0 then Z0 else if n > 0 then Zpos (pos_of_int n) else Zneg (pos_of_int (-n))
let rec nat_of_int n = if n <= 0 then O else S (nat_of_int (n - 1))
let rec int_of_nat = function O -> 0 | S n -> 1 + int_of_nat n
let ten = z_of_int 10
(* arbitrary-size decimal parsing *)
let z_of_string s =
  let s = String.trim s in
  let neg, s = if String.length s > 0 && s.[0] = '-' then true, String.sub s 1 (String.length s - 1)
               else if String.length s > 0 && s.[0] = '+' then false, String.sub s 1 (String.length s - 1) else false, s in
  if String.length s = 0 then failwith "z_of_string: empty";
  let r = ref Z0 in
  String.iter (fun ch -> if ch < '0' || ch > '9' then failwith ("z_of_string: " ^ s);
                r := Z.add (Z.mul !r ten) (z_of_int (Char.code ch - 48))) s;
  if neg then Z.opp !r else !r
let rec int_of_pos = function XH -> 1 | XO p -> 2 * int_of_pos p | XI p -> 2 * int_of_pos p + 1
let string_of_z z =
  (* decimal printing through repeated division by 10 *)
  let rec digits z acc = match z with
    | Z0 -> acc
    | _ -> let q = Z.div z ten and r = Z.modulo z ten in
           let d = (match r with Z0 -> 0 | Zpos p -> int_of_pos p | Zneg _ -> 0) in
           digits q (string_of_int d :: acc) in
  match z with
  | Z0 -> "0"
  | Zpos _ -> String.concat "" (digits z [])
  | Zneg p -> "-" ^ String.concat "" (digits (Zpos p) [])
