(* C19: runs the extracted Coq model of Watchdog (gen/wd.ml) on schedules read from stdin and prints, per event, the
   same state line as harness/run_wd.cc.  Untrusted glue.   usage: wd_model src|int *)
open Wd

let rec pos_of_int n = if n = 1 then XH else if n land 1 = 0 then XO (pos_of_int (n lsr 1)) else XI (pos_of_int (n lsr 1))
let z_of_int n = if n = 0 then Z0 else if n > 0 then Zpos (pos_of_int n) else Zneg (pos_of_int (-n))
let rec nat_of_int n = if n <= 0 then O else S (nat_of_int (n - 1))
let rec int_of_nat = function O -> 0 | S n -> 1 + int_of_nat n
let rec int_of_pos = function XH -> 1 | XO p -> 2 * int_of_pos p | XI p -> 2 * int_of_pos p + 1
let int_of_z = function Z0 -> 0 | Zpos p -> int_of_pos p | Zneg p -> - (int_of_pos p)
let zs z = string_of_int (int_of_z z)
let ts (t : time) = zs t.secs ^ ":" ^ zs t.usecs

let pc_id = function
  | Idle -> None
  | C1 (i, _) | C2 (i, _) | A0 (i, _) | A1 (i, _) | A2 (i, _) | A3 i | E0 (i, _) | E1 (i, _, _) | E2 (i, _, _, _)
  | E3 (i, _, _, _, _) | E5 (i, _, _) | E6 (i, _) | C3 i | C4 i | D1 i | D2 i | R0 (i, _, _) | R1 (i, _, _, _)
  | R2 (i, _, _, _, _) | R3 (i, _, _, _) | R5 i | R6 i | R4 i | D3 i | D4 i -> Some (int_of_nat i)

let rec take n l = if n <= 0 then [] else match l with [] -> [] | x :: r -> x :: take (n - 1) r

let line label (before : st) (s : st) =
  let b = Buffer.create 256 in
  Buffer.add_string b label;
  Buffer.add_string b (" y=" ^ zs (yield_no s.pc) ^ " P=[");
  Buffer.add_string b (String.concat "," (List.map (fun (d, i) -> ts d ^ ":" ^ string_of_int (int_of_nat i)) s.pending));
  Buffer.add_string b ("] tsf=" ^ ts s.tsf ^ " ltr=" ^ ts s.ltr ^ " run=" ^ (if s.running then "1" else "0")
                       ^ " cs=" ^ (if s.incs then "1" else "0") ^ " exp=[");
  let live = List.map int_of_nat s.alive @ (match pc_id s.pc with Some i -> [i] | None -> []) in
  let ex = List.sort_uniq compare (List.filter (fun i -> List.mem i live) (List.map int_of_nat s.expired)) in
  Buffer.add_string b (String.concat "," (List.map string_of_int ex));
  Buffer.add_string b ("] rem=" ^ zs s.rem ^ " now=" ^ zs s.now ^ " calls=[");
  let newc = List.rev (take (List.length s.calls - List.length before.calls) s.calls) in
  List.iter (fun c -> Buffer.add_string b (match c with
      | CSet (a, u) -> " S" ^ zs a ^ ":" ^ zs u | CGet (a, u) -> " G" ^ zs a ^ ":" ^ zs u | CStop -> " X")) newc;
  Buffer.add_string b " ] fired=[";
  let newf = List.rev (take (List.length s.log - List.length before.log) s.log) in
  List.iter (fun ((i, t), d) -> Buffer.add_string b (" " ^ string_of_int (int_of_nat i) ^ "@" ^ zs t ^ ":" ^ ts d)) newf;
  Buffer.add_string b " ]";
  Buffer.contents b

let parse_tok tok =
  let arg () = int_of_string (String.sub tok 1 (String.length tok - 1)) in
  match tok.[0] with
  | 'c' -> Create (z_of_int (arg ()))
  | 'd' -> let a = arg () in if a < 0 then Destroy (nat_of_int 1000000) else Destroy (nat_of_int a)
  | 's' -> Step
  | 't' -> Tick (z_of_int (arg ()))
  | 'f' -> Fire
  | _ -> failwith "bad token"

(* Threshold_Watcher model (TW.v) *)
let tw_main () =
  let n = ref 0 in
  (try
     while true do
       let l = input_line stdin in
       if String.trim l <> "" then begin
         Printf.printf "BEGIN %d\n" !n; incr n;
         let toks = List.filter (fun s -> s <> "") (String.split_on_char ' ' (String.trim l)) in
         let s = ref tinit in
         List.iteri (fun idx tok ->
             let a = if String.length tok > 1 then int_of_string (String.sub tok 1 (String.length tok - 1)) else 0 in
             let before = !s in
             let s' = (match tok.[0] with
                 | 'a' -> if a >= 0 && int_of_nat before.tnext < 16 then tdo (TAdd (z_of_int a)) before else before
                 | 'r' -> if a >= 0 then tdo (TRemove (nat_of_int a)) before else before
                 | 'w' -> tdo (TWeight (z_of_int a)) before
                 | 'k' -> tdo TCheck before
                 | _ -> before) in
             let newf = List.rev (take (List.length s'.tlog - List.length before.tlog) s'.tlog) in
             let live = List.map int_of_nat s'.talive in
             let ex = List.sort_uniq compare (List.filter (fun i -> List.mem i live) (List.map int_of_nat s'.texp)) in
             Printf.printf "%d %s P=[%s] w=%s fn=%s exp=[%s] fired=[%s ]\n" idx tok
               (String.concat "," (List.map (fun (t, i) -> zs t ^ ":" ^ string_of_int (int_of_nat i)) s'.tpend))
               (zs s'.tweight) (if s'.tcheckfn then "1" else "0")
               (String.concat "," (List.map string_of_int ex))
               (String.concat "" (List.map (fun (i, w) -> " " ^ string_of_int (int_of_nat i) ^ "@" ^ zs w) newf));
             s := s') toks;
         print_endline "END"
       end
     done
   with End_of_file -> ())

let () =
  if Array.length Sys.argv > 1 && Sys.argv.(1) = "tw" then begin tw_main (); exit 0 end;
  let c = if Array.length Sys.argv > 1 && Sys.argv.(1) = "int" then cmp_int else cmp_src in
  if Array.length Sys.argv > 1 && Sys.argv.(1) = "facts" then begin
    print_endline (if src_cmp_intended then "src_cmp_intended=true" else "src_cmp_intended=false"); exit 0 end;
  let n = ref 0 in
  (try
     while true do
       let l = input_line stdin in
       if String.trim l <> "" then begin
         Printf.printf "BEGIN %d\n" !n;
         let toks = List.filter (fun s -> s <> "") (String.split_on_char ' ' (String.trim l)) in
         let s = ref init in
         List.iteri (fun idx tok ->
             let s' = do_event c (parse_tok tok) !s in
             print_endline (line (string_of_int idx ^ " " ^ tok) !s s');
             s := s') toks;
         let fuel = ref 60 in
         while !s.pc <> Idle && not !s.err && !fuel > 0 do
           let s' = do_event c Step !s in
           print_endline (line "F s" !s s'); s := s'; decr fuel
         done;
         if !s.err then print_endline "EXC PPL internal error";
         print_endline "END";
         incr n
       end
     done
   with End_of_file -> ())
