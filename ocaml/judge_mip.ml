(* C06 judge (untrusted glue around the extracted, verified functions of gen/mip.ml).
   usage: judge_mip <casefile> <obsfile>
   Replays every history of the case file on (a) the extracted status machine of MipMachine.v, with
   the abstract cores instantiated by what the library was observed to compute at that step, and
   (b) the verified reference solver mip_ref on the data accumulated so far; compares with the
   observations of harness/run_mip.cc:
     state/<KEYWORD>     the internal status keyword + last_generator violate the machine invariant
     answer/<cmd>        the returned value is not the specification's answer
     machine/...         status keyword / output differ from the status machine model
     fresh/...           a fresh object built from the same data answers wrongly
     incr-vs-fresh/...   (reference undecided) incremental and fresh objects disagree
     ok/false            OK() is false;     exn   unexpected exception
   Lines: FAIL|UNDECIDED <case> <step> <kind> | <command line> | <key=value features>,  STAT ..., COV <key> <n> *)
open Mip
open Zutil_mip

exception Syntax of string

(* ---- time budget for the (worst-case exponential) verified procedures ---- *)
exception Timeout
let budget = ref (try float_of_string (Sys.getenv "VERIF_JUDGE_BUDGET") with _ -> 3.0)
let fuel = nat_of_int (try int_of_string (Sys.getenv "VERIF_MIP_FUEL") with _ -> 48)
let timeouts = ref 0
let armed = ref false
let () = Sys.set_signal Sys.sigalrm (Sys.Signal_handle (fun _ -> if !armed then begin armed := false; raise Timeout end))
let timed (f : unit -> 'a) (dflt : 'a) : 'a =
  let stop () = armed := false; ignore (Unix.setitimer Unix.ITIMER_REAL { Unix.it_interval = 0.0; it_value = 0.0 }) in
  try
    armed := true;
    ignore (Unix.setitimer Unix.ITIMER_REAL { Unix.it_interval = 0.0; it_value = !budget });
    let r = f () in stop (); r
  with Timeout -> stop (); incr timeouts; Gc.compact (); dflt
     | Stack_overflow | Out_of_memory -> stop (); incr timeouts; Gc.compact (); dflt

(* ---- tokens ---- *)
type cur = { t : string array; mutable i : int }
let cur_of line = { t = Array.of_list (List.filter (fun s -> s <> "") (String.split_on_char ' ' (String.trim line))); i = 0 }
let more c = c.i < Array.length c.t
let next c = if c.i >= Array.length c.t then raise (Syntax "missing token"); let s = c.t.(c.i) in c.i <- c.i + 1; s
let nexti c = int_of_string (next c)
let nextz c = z_of_string (next c)
let pos_of_z = function Zpos p -> p | _ -> raise (Syntax "positive expected")
let read_lin c = let n = nexti c in let b = nextz c in let co = List.init n (fun _ -> nextz c) in { lcoefs = co; lcst = b }
let read_con c = let k = next c in let l = read_lin c in
  { mco = l.lcoefs; mk = l.lcst; mr = (match k with "=" -> REq | ">=" -> RGe | _ -> raise (Syntax ("constraint kind " ^ k))) }
let read_pt c = (* pt n den c0.. *)
  (match next c with "pt" -> () | s -> raise (Syntax ("pt expected: " ^ s)));
  let n = nexti c in let d = pos_of_z (nextz c) in List.init n (fun _ -> qred { qnum = nextz c; qden = d })
let read_pt_raw c = let n = nexti c in let d = pos_of_z (nextz c) in List.init n (fun _ -> qred { qnum = nextz c; qden = d })
let string_of_q (x : q) = let x = qred x in if x.qden = XH then string_of_z x.qnum else string_of_z x.qnum ^ "/" ^ string_of_z (Zpos x.qden)
let string_of_pt p = "(" ^ String.concat "," (List.map string_of_q p) ^ ")"
let qeq a b = qeq_bool a b
let pt_eq a b = List.length a = List.length b && List.for_all2 qeq a b

let pricing_of = function "F" -> PRICING_STEEPEST_EDGE_FLOAT | "E" -> PRICING_STEEPEST_EDGE_EXACT | "T" -> PRICING_TEXTBOOK
                        | s -> raise (Syntax ("pricing " ^ s))
let pricing_name = function PRICING_STEEPEST_EDGE_FLOAT -> "F" | PRICING_STEEPEST_EDGE_EXACT -> "E" | PRICING_TEXTBOOK -> "T"
let mode_of = function "max" -> Max | "min" -> Min | s -> raise (Syntax ("mode " ^ s))
let status_of = function "UNSATISFIABLE" -> UNSATISFIABLE | "SATISFIABLE" -> SATISFIABLE | "UNBOUNDED" -> UNBOUNDED
                       | "OPTIMIZED" -> OPTIMIZED | "PARTIALLY_SATISFIABLE" -> PARTIALLY_SATISFIABLE | s -> raise (Syntax ("status " ^ s))
let status_name = function UNSATISFIABLE -> "UNSATISFIABLE" | SATISFIABLE -> "SATISFIABLE" | UNBOUNDED -> "UNBOUNDED"
                         | OPTIMIZED -> "OPTIMIZED" | PARTIALLY_SATISFIABLE -> "PARTIALLY_SATISFIABLE"
let sol_of = function "UNF" -> UNFEASIBLE_MIP_PROBLEM | "UNB" -> UNBOUNDED_MIP_PROBLEM | "OPT" -> OPTIMIZED_MIP_PROBLEM | s -> raise (Syntax ("sol " ^ s))
let sol_name = function UNFEASIBLE_MIP_PROBLEM -> "UNF" | UNBOUNDED_MIP_PROBLEM -> "UNB" | OPTIMIZED_MIP_PROBLEM -> "OPT"

(* a command line -> first object (New) or a machine command *)
type parsed = New of problem | Cmd of cmd
let parse_cmd (line : string) : parsed =
  let c = cur_of line in
  match next c with
  | "new" -> New (init_data (nat_of_int (nexti c)))
  | "newfull" ->
    let d = nexti c in let m = mode_of (next c) in let o = read_lin c in let k = nexti c in
    let cs = List.init k (fun _ -> read_con c) in
    New { pdim = nat_of_int d; pcons = cs; pints = []; pobj = o; pmode = m }
  | "ctl" -> Cmd (SetPricing (pricing_of (next c)))
  | "addc" -> Cmd (AddConstraint (read_con c))
  | "addcs" -> let k = nexti c in Cmd (AddConstraints (List.init k (fun _ -> read_con c)))
  | "obj" -> Cmd (SetObjective (read_lin c))
  | "mode" -> Cmd (SetMode (mode_of (next c)))
  | "dims" -> Cmd (AddDims (nat_of_int (nexti c)))
  | "ints" -> let k = nexti c in Cmd (AddInts (List.init k (fun _ -> nat_of_int (nexti c))))
  | "solve" -> Cmd Solve | "issat" -> Cmd IsSatisfiable | "fpoint" -> Cmd FeasiblePoint
  | "opoint" -> Cmd OptimizingPoint | "oval" -> Cmd OptimalValue
  | "eval" -> Cmd (Evaluate (read_pt_raw c))
  | s -> raise (Syntax ("command " ^ s))

(* ---- observations ---- *)
type robs = RDone | RSol of sol | RBool of bool | RPoint of q list | RValue of q | RDomErr | RExn of string
let parse_r line =
  let c = cur_of line in
  (match next c with "r" -> () | s -> raise (Syntax ("r expected: " ^ s)));
  match next c with
  | "ok" -> RDone
  | "exn" -> RExn (next c)
  | "solve" -> RSol (sol_of (next c))
  | "issat" -> RBool (nexti c = 1)
  | "fpoint" | "opoint" -> if c.t.(c.i) = "exn" then RDomErr else RPoint (read_pt c)
  | "oval" | "eval" -> if c.t.(c.i) = "exn" then RDomErr else (let n = nextz c in let d = pos_of_z (nextz c) in RValue { qnum = n; qden = d })
  | s -> raise (Syntax ("r kind " ^ s))
type sobs = { kw : mstatus; last : q list; ok : int; ncs : int; lgd : int }
let parse_s line =
  let c = cur_of line in
  (match next c with "s" -> () | s -> raise (Syntax ("s expected: " ^ s)));
  let kw = status_of (next c) in let last = read_pt c in
  ignore (next c); let ok = nexti c in ignore (next c); let ncs = nexti c in
  let lgd = if more c then (ignore (next c); nexti c) else List.length last in { kw; last; ok; ncs; lgd }
type fobs = { fsol : sol; fval : q option; fpt : q list option; fok : bool; fsat : bool; fspt : q list option }
let parse_f line =
  let c = cur_of line in
  (match next c with "f" -> () | s -> raise (Syntax ("f expected: " ^ s)));
  ignore (next c);
  let fsol = sol_of (next c) in
  let fval = if c.t.(c.i) = "val" then (ignore (next c); let n = nextz c in let d = pos_of_z (nextz c) in Some { qnum = n; qden = d }) else None in
  let fpt = if c.t.(c.i) = "pt" then Some (read_pt c) else None in
  ignore (next c); let fok = nexti c = 1 in
  ignore (next c); let fsat = nexti c = 1 in
  let fspt = if more c && c.t.(c.i) = "pt" then Some (read_pt c) else None in
  { fsol; fval; fpt; fok; fsat; fspt }

(* ---- reference, cached per data ---- *)
let rec int_of_nat = function O -> 0 | S n -> 1 + int_of_nat n
let key_of (p : problem) =
  let lin l = String.concat "," (List.map string_of_z (l.lcst :: l.lcoefs)) in
  Printf.sprintf "%d|%s|%s|%s|%s" (int_of_nat p.pdim)
    (String.concat ";" (List.map (fun c -> (match c.mr with REq -> "=" | RGe -> ">") ^ lin { lcoefs = c.mco; lcst = c.mk }) p.pcons))
    (String.concat "," (List.map string_of_int (List.sort compare (List.map int_of_nat p.pints))))
    (lin p.pobj) (match p.pmode with Max -> "max" | Min -> "min")
let cache : (string, ref_res * ref_res) Hashtbl.t = Hashtbl.create 1024
let distinct_decided = ref 0
let reference (p : problem) : ref_res * ref_res =   (* (MIP answer, answer of the LP relaxation) *)
  let k = key_of p in
  match Hashtbl.find_opt cache k with
  | Some r -> r
  | None ->
    let r = timed (fun () -> mip_ref fuel p) OutOfFuel in
    let rl = if p.pints = [] then r else timed (fun () -> mip_ref fuel { p with pints = [] }) OutOfFuel in
    (match r with Ans _ -> incr distinct_decided | OutOfFuel -> ());
    Hashtbl.replace cache k (r, rl); (r, rl)
let ref_name = function
  | Ans RInfeasible -> "UNF" | Ans (RUnbounded _) -> "UNB" | Ans (ROptimal (v, _)) -> "OPT:" ^ string_of_q v | OutOfFuel -> "?"
let ref_sol = function RInfeasible -> UNFEASIBLE_MIP_PROBLEM | RUnbounded _ -> UNBOUNDED_MIP_PROBLEM | ROptimal _ -> OPTIMIZED_MIP_PROBLEM

(* ---- reporting ---- *)
let stats_steps = ref 0 and stats_checks = ref 0 and stats_undecided = ref 0 and stats_cases = ref 0
let cov : (string, int) Hashtbl.t = Hashtbl.create 64
let bump k = Hashtbl.replace cov k (1 + (try Hashtbl.find cov k with Not_found -> 0))
let report verdict case step kind line feats =
  Printf.printf "%s %s %d %s | %s | %s\n" verdict case step kind line
    (String.concat " " (List.map (fun (k, v) -> k ^ "=" ^ v) feats))

exception Core_mismatch of string

let parse_b line = let c = cur_of line in
  (match next c with "b" -> () | s -> raise (Syntax ("b expected: " ^ s))); ignore (next c); nexti c = 1

let judge_case (cid : string) (cmds : string list) (obs : (string * string * string * string) list) =
  incr stats_cases;
  let st : mstate option ref = ref None in
  let hist = ref [] in
  let shape = Buffer.create 32 in   (* history shape: one letter per command *)
  let tainted = ref false in        (* pending constraints were incorporated from a state flagged `risk' *)
  let judged_queries = ref 0 in     (* queries of this case whose answer was compared with a decided reference answer *)
  List.iteri (fun idx (line, (lb, lr, ls, lf)) ->
      incr stats_steps;
      let step_no = idx + 1 in
      let risk = parse_b lb in
      let r = parse_r lr and so = parse_s ls and fo = parse_f lf in
      let parsed = parse_cmd line in
      let word = List.hd (String.split_on_char ' ' line) in
      Buffer.add_string shape (match word with "new" | "newfull" -> "N" | "ctl" -> "p" | "addc" -> "c" | "addcs" -> "C" | "obj" -> "o"
                                               | "mode" -> "m" | "dims" -> "d" | "ints" -> "i" | "solve" -> "S" | "issat" -> "s" | "fpoint" -> "f"
                                               | "opoint" -> "O" | "oval" -> "v" | "eval" -> "e" | _ -> "?");
      bump ("cmd:" ^ word);
      (* the model state before the step *)
      let before = match parsed, !st with
        | New p, _ -> None
        | Cmd _, Some s -> Some s
        | Cmd _, None -> raise (Syntax "command before new") in
      let data = match parsed, before with
        | New p, _ -> p
        | Cmd c, Some s -> apply_data s.mdata c
        | _ -> assert false in
      let pr = match parsed, before with Cmd (SetPricing p), _ -> p | _, Some s -> s.mpricing | _ -> PRICING_STEEPEST_EDGE_FLOAT in
      let (rf, rlp) = reference data in
      let nints = List.length data.pints in
      let fresh_agrees = match rf with
        | Ans rr -> fo.fsol = ref_sol rr && (match rr, fo.fval with ROptimal (v, _), Some w -> qeq v w | ROptimal _, None -> false | _ -> true)
        | OutOfFuel -> false in
      (match parsed with
       | Cmd (Solve | IsSatisfiable | FeasiblePoint | OptimizingPoint | OptimalValue) when risk -> tainted := true
       | _ -> ());
      let feats extra =
        [ "tainted", string_of_bool !tainted; "pricing", pricing_name pr; "dim", string_of_int (int_of_nat data.pdim); "ints", string_of_int nints;
          "ncons", string_of_int (List.length data.pcons); "ref", ref_name rf; "relax", ref_name rlp;
          "fresh_agrees_with_ref", (match rf with OutOfFuel -> "na" | _ -> string_of_bool fresh_agrees);
          "keyword", status_name so.kw; "shape", Buffer.contents shape ] @ extra in
      let fail kind extra = report "FAIL" cid step_no kind line (feats extra) in
      let undecided kind = incr stats_undecided; report "UNDECIDED" cid step_no kind line (feats []) in
      let check () = incr stats_checks in
      (match rf with Ans rr -> bump ("ref:" ^ sol_name (ref_sol rr)) | OutOfFuel -> bump "ref:undecided");
      (match parsed, rf with
       | Cmd (Solve | IsSatisfiable | FeasiblePoint | OptimizingPoint | OptimalValue), Ans _ -> incr judged_queries
       | _ -> ());
      (match rf, rlp with
       | Ans a, Ans b when nints > 0 ->
         (match a, b with
          | RInfeasible, RUnbounded _ -> bump "family:relax-unbounded-mip-infeasible"
          | RInfeasible, ROptimal _ -> bump "family:relax-feasible-mip-infeasible"
          | RUnbounded _, RUnbounded _ -> bump "family:relax-unbounded-mip-unbounded"
          | ROptimal (v, _), ROptimal (w, _) -> bump (if qeq v w then "family:relax-value-equal" else "family:relax-value-differs")
          | _ -> ())
       | _ -> ());
      bump ("state:" ^ status_name so.kw);
      (* exceptions are never expected on these well-formed histories *)
      (match r with RExn e -> check (); fail "exn" ["exception", e] | _ -> ());
      (* OK() *)
      check ();
      if so.ok <> 1 then begin
        let ld = so.lgd in
        let maxint = List.fold_left (fun m i -> max m (int_of_nat i)) (-1) data.pints in
        let integral = List.for_all (fun i -> let i = int_of_nat i in i >= ld || integral_b (List.nth so.last i)) data.pints in
        fail (if so.ok = 0 then "ok/false" else "ok/throws")
          ["last_generator_integral_on_integer_variables", string_of_bool integral;
           "integer_variable_beyond_last_generator", string_of_bool (maxint >= ld)]
      end;
      (* (a) invariant of the observed internal state against the reference *)
      (match so.kw, rf with
       | PARTIALLY_SATISFIABLE, _ -> ()
       | SATISFIABLE, _ -> check (); if not (feasible_b data so.last) then fail "state/SATISFIABLE" ["last_generator", string_of_pt so.last]
       | _, OutOfFuel -> undecided ("state/" ^ status_name so.kw)
       | UNSATISFIABLE, Ans rr -> check (); if not (claim_ok data rr RInfeasible) then fail "state/UNSATISFIABLE" []
       | UNBOUNDED, Ans rr -> check (); if not (claim_ok data rr (RUnbounded so.last)) then fail "state/UNBOUNDED" ["last_generator", string_of_pt so.last]
       | OPTIMIZED, Ans rr -> check ();
         let v = objv data (pt_of so.last) in
         if not (claim_ok data rr (ROptimal (v, so.last))) then
           fail "state/OPTIMIZED" ["last_generator", string_of_pt so.last; "value", string_of_q v; "witness_feasible", string_of_bool (feasible_b data so.last)]);
      (* (b) the status machine, cores instantiated by what the library left behind at this step *)
      (match parsed with
       | New p ->
         st := Some (fresh p PRICING_STEEPEST_EDGE_FLOAT);
         check (); if so.kw <> PARTIALLY_SATISFIABLE then fail "machine/keyword" ["model", "PARTIALLY_SATISFIABLE"]
       | Cmd c ->
         let s = (match before with Some s -> s | None -> assert false) in
         let solve_core _ _ = match so.kw with
           | UNSATISFIABLE -> RInfeasible | UNBOUNDED -> RUnbounded so.last
           | OPTIMIZED -> ROptimal (objv data (pt_of so.last), so.last)
           | k -> raise (Core_mismatch ("solve left status " ^ status_name k)) in
         let sat_core _ _ = match so.kw with
           | UNSATISFIABLE -> SUnsat | SATISFIABLE -> SSat so.last | OPTIMIZED -> SOpt so.last | UNBOUNDED -> SUnbd so.last
           | k -> raise (Core_mismatch ("is_satisfiable left status " ^ status_name k)) in
         (try
            let (s', o) = step solve_core sat_core !hist s c in
            bump (Printf.sprintf "transition:%s-%s->%s" (status_name s.mstat) word (status_name s'.mstat));
            check ();
            if s'.mstat <> so.kw then fail "machine/keyword" ["model", status_name s'.mstat; "before", status_name s.mstat];
            (match s'.mstat with
             | SATISFIABLE | UNBOUNDED | OPTIMIZED ->
               check (); if s'.mstat = so.kw && not (pt_eq s'.mlast so.last) then
                 fail "machine/last_generator" ["model", string_of_pt s'.mlast; "library", string_of_pt so.last]
             | _ -> ());
            check ();
            let same = match o, r with
              | ODone, RDone -> true
              | OStatus a, RSol b -> a = b
              | OBool a, RBool b -> a = b
              | OPoint a, RPoint b -> pt_eq a b
              | OValue a, RValue b -> qeq a b
              | ODomainError, RDomErr -> true
              | _, RExn _ -> true   (* reported above *)
              | _ -> false in
            if not same then fail "machine/output" ["before", status_name s.mstat];
            st := Some { s' with mstat = so.kw; mlast = (match so.kw with SATISFIABLE | UNBOUNDED | OPTIMIZED -> so.last | _ -> s'.mlast) };
          with Core_mismatch m ->
            check (); fail "machine/keyword" ["model", m; "before", status_name s.mstat];
            st := Some { (fst (step (fun _ _ -> RInfeasible) (fun _ _ -> SUnsat) !hist s c)) with mstat = so.kw; mlast = so.last });
         hist := c :: !hist);
      (* (c) the returned answer against the reference *)
      (match parsed, r with
       | Cmd Solve, RSol a ->
         (match rf with Ans rr -> check (); if a <> ref_sol rr then fail "answer/solve" ["got", sol_name a]
                      | OutOfFuel -> check (); if a <> fo.fsol then fail "incr-vs-fresh/solve" ["got", sol_name a; "fresh", sol_name fo.fsol] else undecided "answer/solve")
       | Cmd IsSatisfiable, RBool b ->
         (match rf with Ans rr -> check (); if b <> (rr <> RInfeasible) then fail "answer/issat" ["got", string_of_bool b]
                      | OutOfFuel -> check (); if b <> fo.fsat then fail "incr-vs-fresh/issat" ["got", string_of_bool b] else undecided "answer/issat")
       | Cmd FeasiblePoint, RPoint p -> check (); if not (feasible_b data p) then fail "answer/fpoint" ["got", string_of_pt p]
       | Cmd FeasiblePoint, RDomErr ->
         (match rf with Ans rr -> check (); if rr <> RInfeasible then fail "answer/fpoint" ["got", "domain_error"]
                      | OutOfFuel -> check (); if fo.fsat then fail "incr-vs-fresh/fpoint" ["got", "domain_error"] else undecided "answer/fpoint")
       | Cmd OptimizingPoint, RPoint p ->
         (match rf with Ans rr -> check (); if not (claim_ok data rr (ROptimal (objv data (pt_of p), p))) then
                            fail "answer/opoint" ["got", string_of_pt p; "value", string_of_q (objv data (pt_of p)); "witness_feasible", string_of_bool (feasible_b data p)]
                      | OutOfFuel -> undecided "answer/opoint")
       | Cmd OptimalValue, RValue v ->
         (match rf with Ans (ROptimal (w, _)) -> check (); if not (qeq v w) then fail "answer/oval" ["got", string_of_q v]
                      | Ans _ -> check (); fail "answer/oval" ["got", string_of_q v]
                      | OutOfFuel -> check (); (match fo.fval with Some w when qeq v w -> undecided "answer/oval"
                                                                 | _ -> fail "incr-vs-fresh/oval" ["got", string_of_q v]))
       | Cmd (OptimizingPoint | OptimalValue), RDomErr ->
         (match rf with Ans (ROptimal _) -> check (); fail ("answer/" ^ word) ["got", "domain_error"]
                      | Ans _ -> check ()
                      | OutOfFuel -> check (); if fo.fsol = OPTIMIZED_MIP_PROBLEM then fail ("incr-vs-fresh/" ^ word) ["got", "domain_error"] else undecided ("answer/" ^ word))
       | Cmd (Evaluate p), RValue v -> check (); if not (qeq v (objv data (pt_of p))) then fail "answer/eval" ["got", string_of_q v]
       | _ -> ());
      (* (d) the fresh objects against the reference *)
      check (); if not fo.fok then fail "fresh/ok-false" [];
      (match rf with
       | Ans rr ->
         check ();
         let claim = match fo.fsol, fo.fpt, fo.fval with
           | UNFEASIBLE_MIP_PROBLEM, _, _ -> Some RInfeasible
           | UNBOUNDED_MIP_PROBLEM, Some p, _ -> Some (RUnbounded p)
           | OPTIMIZED_MIP_PROBLEM, Some p, Some v -> Some (ROptimal (v, p))
           | _ -> None in
         (match claim with
          | Some cl -> if not (claim_ok data rr cl) then
              fail "fresh/solve" ["got", sol_name fo.fsol ^ (match fo.fval with Some v -> ":" ^ string_of_q v | None -> "");
                                  "point", (match fo.fpt with Some p -> string_of_pt p | None -> "-")]
          | None -> fail "fresh/solve" ["got", "malformed"]);
         check ();
         if fo.fsat <> (rr <> RInfeasible) then fail "fresh/sat" ["got", string_of_bool fo.fsat]
         else (match fo.fspt with Some p -> if not (feasible_b data p) then fail "fresh/sat-point" ["got", string_of_pt p] | None -> ())
       | OutOfFuel ->
         (* still checkable without the reference: witnesses, and the two fresh objects against each other *)
         check ();
         (match fo.fspt with Some p when not (feasible_b data p) -> fail "fresh/sat-point" ["got", string_of_pt p] | _ -> ());
         (match fo.fpt with Some p when not (feasible_b data p) -> fail "fresh/solve" ["got", "infeasible witness " ^ string_of_pt p] | _ -> ());
         if fo.fsat <> (fo.fsol <> UNFEASIBLE_MIP_PROBLEM) then fail "fresh/solve-vs-sat" ["solve", sol_name fo.fsol; "sat", string_of_bool fo.fsat];
         undecided "fresh/solve"))
    (List.combine cmds obs);
  if !judged_queries > 0 then Printf.printf "NT %s %d\n" cid !judged_queries

(* ---- main: split both files into cases ---- *)
let read_lines f = let ic = open_in f in let rec go acc = match input_line ic with l -> go (l :: acc) | exception End_of_file -> close_in ic; List.rev acc in go []
let split_cases lines =
  let cases = ref [] and curid = ref None and cur = ref [] in
  List.iter (fun l ->
      let l = String.trim l in
      if l = "" || l.[0] = '#' then ()
      else if String.length l > 5 && String.sub l 0 5 = "case " then (curid := Some (String.sub l 5 (String.length l - 5)); cur := [])
      else if l = "end" then (match !curid with Some id -> cases := (id, List.rev !cur) :: !cases; curid := None | None -> ())
      else cur := l :: !cur) lines;
  List.rev !cases

(* --data <casefile>: no observations; for every case print features of the data reached after its last command *)
let data_mode file =
  List.iter (fun (id, cmds) ->
      let data = List.fold_left (fun d line -> match parse_cmd line with New p -> p | Cmd c -> apply_data d c) (init_data O) cmds in
      let (rf, rlp) = reference data in
      let d = int_of_nat data.pdim in
      let unb_dir = ref false and undec = ref false in
      for i = 0 to d - 1 do
        List.iter (fun m ->
            let p = { data with pints = []; pobj = { lcoefs = List.init d (fun j -> if j = i then z_of_int 1 else Z0); lcst = Z0 }; pmode = m } in
            match fst (reference p) with Ans (RUnbounded _) -> unb_dir := true | OutOfFuel -> undec := true | _ -> ()) [Max; Min]
      done;
      Printf.printf "DATA %s ints=%d ref=%s relax=%s relaxation_region_bounded=%s\n" id (List.length data.pints) (ref_name rf) (ref_name rlp)
        (if !unb_dir then "false" else if !undec then "na" else "true")) (split_cases (read_lines file))

let () =
  if Array.length Sys.argv > 2 && Sys.argv.(1) = "--data" then (data_mode Sys.argv.(2); exit 0);
  let cases = split_cases (read_lines Sys.argv.(1)) and obs = split_cases (read_lines Sys.argv.(2)) in
  let obs_tbl = Hashtbl.create 1024 in
  List.iter (fun (id, ls) -> Hashtbl.replace obs_tbl id ls) obs;
  List.iter (fun (id, cmds) ->
      match Hashtbl.find_opt obs_tbl id with
      | None -> ()
      | Some ls ->
        let rec triples = function a :: b :: c :: d :: rest -> (a, b, c, d) :: triples rest | [] -> [] | _ -> raise (Syntax "observation lines not in groups of four") in
        (try
           let tr = triples ls in
           if List.length tr <> List.length cmds then raise (Syntax "observation count differs from command count");
           judge_case id cmds tr
         with Syntax m | Failure m | Invalid_argument m -> Printf.printf "JUDGE-ERROR %s %s\n" id m)) cases;
  Printf.printf "STAT steps %d checks %d undecided %d cases %d timeouts %d distinct_problems %d distinct_decided %d\n"
    !stats_steps !stats_checks !stats_undecided !stats_cases !timeouts (Hashtbl.length cache) !distinct_decided;
  Hashtbl.iter (fun k v -> Printf.printf "COV %s %d\n" k v) cov
