(* C05 judge (untrusted glue): reads the trace printed by harness/run_grid.cc, mirrors every pool object by a
   reference grid (generator system + verified congruences) computed with the functions extracted from
   coq/Grid/*.v, and reports every disagreement.  One line per finding:
     FAIL case=<id> step=<k> kind=<result|state|obs|ok|read> key=value ...
   plus  STAT case=<id> steps=<k> checks=<m> unk=<u>  per case. *)
open Grid

(* ---- numbers ---- *)
let rec pos_of_int n = if n = 1 then XH else if n land 1 = 0 then XO (pos_of_int (n lsr 1)) else XI (pos_of_int (n lsr 1))
let z_of_int n = if n = 0 then Z0 else if n > 0 then Zpos (pos_of_int n) else Zneg (pos_of_int (-n))
let rec nat_of_int n = if n <= 0 then O else S (nat_of_int (n - 1))
let ten = z_of_int 10
let z_of_string s =
  let s = String.trim s in
  let neg, s = if String.length s > 0 && s.[0] = '-' then true, String.sub s 1 (String.length s - 1) else false, s in
  if String.length s = 0 then failwith "z_of_string: empty";
  let r = ref Z0 in
  String.iter (fun ch -> if ch < '0' || ch > '9' then failwith ("z_of_string: " ^ s);
                r := Z.add (Z.mul !r ten) (z_of_int (Char.code ch - 48))) s;
  if neg then Z.opp !r else !r
let pos_of_z = function Zpos p -> p | _ -> failwith "positive expected"
let z_is_zero = function Z0 -> true | _ -> false
let z_is_one = function Zpos XH -> true | _ -> false

let q_of_zz n d = { qnum = n; qden = pos_of_z d }
let q_abs x = { x with qnum = Z.abs x.qnum }
let q_sub x y = qplus x (qopp y)
let q_is_int x = (match to_int x with Some _ -> true | None -> false)
let rec string_of_pos_z z =
  (* decimal printing through repeated division by 10 *)
  let rec int_of_pos = function XH -> 1 | XO p -> 2 * int_of_pos p | XI p -> 2 * int_of_pos p + 1 in
  let rec digits z acc = match z with
    | Z0 -> acc
    | _ -> let q = Z.div z ten and r = Z.modulo z ten in
           digits q (string_of_int (match r with Zpos p -> int_of_pos p | _ -> 0) :: acc) in
  match z with Z0 -> "0" | Zpos _ -> String.concat "" (digits z []) | Zneg p -> "-" ^ String.concat "" (digits (Zpos p) [])
let string_of_q x = let x = qred x in string_of_pos_z x.qnum ^ "/" ^ string_of_pos_z (Zpos x.qden)

(* ---- reference objects ---- *)
type robj = { n : int; g : qgen list; cv : cg list option }
let pool : robj array = Array.make 4 { n = 0; g = []; cv = None }
let false_cg = { cg_a = []; cg_b = z_of_int 1; cg_m = Z0 }
let univ n = qgens_of (universe (nat_of_int n))

exception Unknown of string      (* the verified engine answered Unk, or a needed congruence form is missing *)
let get what = function Ans a -> a | Unk -> raise (Unknown what)

(* ---- parsing ---- *)
let toks s = List.filter (fun t -> t <> "") (String.split_on_char ' ' s)
let split_semis (ts : string list) : string list list =
  let rec go cur acc = function
    | [] -> List.rev (List.rev cur :: acc)
    | ";" :: r -> go [] (List.rev cur :: acc) r
    | t :: r -> go (t :: cur) acc r in
  go [] [] ts

let cg_of_toks ts = match ts with
  | b :: m :: a -> { cg_a = List.map z_of_string a; cg_b = z_of_string b; cg_m = z_of_string m }
  | _ -> failwith "cg"
let gen_of_toks ts = match ts with
  | "p" :: d :: a -> GPoint (List.map z_of_string a, pos_of_z (z_of_string d))
  | "q" :: d :: a -> GParam (List.map z_of_string a, pos_of_z (z_of_string d))
  | "l" :: _ :: a -> GLine (List.map z_of_string a)
  | _ -> failwith "gen"
let is_point = function GPoint _ -> true | _ -> false
(* Grid_Generator_System::insert drops a parameter whose coefficients are all zero (documented): such a row is
   never part of a system handed to Grid(gs) / add_grid_generators(gs) *)
let zero_param = function GParam (v, _) -> List.for_all z_is_zero v | _ -> false
let system_rows gs = List.filter (fun g -> not (zero_param g)) gs
let gen_div_ne1 = function GPoint (_, d) | GParam (_, d) -> d <> XH | GLine _ -> false

(* "k ; item ; item" -> items *)
let items ts = match ts with
  | _k :: rest -> (match split_semis rest with [] -> [] | _first :: its -> its)
  | [] -> []
(* fixed-width items without separators: k then k groups of width w *)
let rec take k l = if k = 0 then [], l else match l with x :: r -> let a, b = take (k - 1) r in x :: a, b | [] -> failwith "take"
let groups w ts = match ts with
  | k :: rest -> let k = int_of_string k in
      let rec go k l = if k = 0 then [], l else let a, r = take w l in let gs, r' = go (k - 1) r in a :: gs, r' in
      go k rest
  | [] -> failwith "groups"

(* ---- checks of a reported description against the reference ---- *)
let nat n = nat_of_int n
let check_cgs (r : robj) (c : cg list) : bool =
  get "dd_agree" (dd_agree (nat r.n) c r.g)
let check_gens (r : robj) (g : ggen list) : bool =
  get "gens_equiv" (gens_equiv (nat r.n) (gens_of_ppl g) r.g)

let need_cv what (r : robj) = match r.cv with Some c -> c | None -> raise (Unknown ("no verified congruences for " ^ what))

(* least grid containing X \ Y (X by generators, Y by verified congruences).  NOT theorem-backed as a whole: the
   pieces (intersection, inclusion, membership) are the verified functions, the case analysis is this glue:
   X \ Y = X \ Z with Z = X /\ Y; empty if X <= Z; X if Z is empty; if Z has index 2 in X (X = Z u W, W = x1 + dirs Z,
   2 (x1 - z0) in dirs Z) the other coset W; otherwise (index > 2 or infinite) the cosets other than Z generate X. *)
let ref_diff n gx cy =
  let z = get "gens_add_cgs" (gens_add_cgs n gx cy) in
  if is_empty_b z then gx
  else if get "gens_incl" (gens_incl n gx z) then []
  else match alat_of gx, alat_of z with
    | Some sx, Some sz ->
        let dz = { pt = []; pars = sz.pars; lins = sz.lins } and lz = { pt = []; pars = []; lins = sz.lins } in
        let is_empty_res = function Empty -> true | Lat _ -> false | Fail -> raise (Unknown "mem") in
        if List.exists (fun l -> is_empty_res (mem n lz l)) sx.lins then gx
        else begin
          let cand = sx.pt :: List.map (vadd sx.pt) sx.pars in
          match List.find_opt (fun c -> is_empty_res (mem n sz c)) cand with
          | None -> raise (Unknown "difference: no generator of X outside Z")
          | Some x1 ->
              let two_d = vscale (inject_Z (z_of_int 2)) (vsub x1 sz.pt) in
              let w = QPoint x1 :: (List.map (fun v -> QParam v) sz.pars @ List.map (fun v -> QLine v) sz.lins) in
              if not (is_empty_res (mem n dz two_d)) && get "gens_incl" (gens_incl n gx (join z w)) then w else gx
        end
    | _ -> raise (Unknown "difference")

(* ---- state ---- *)
let case_id = ref "?"
let step = ref 0
let checks = ref 0
let unk = ref 0
let failed = ref false
let last_text : string array = Array.make 4 ""         (* last verified dump text per object *)
let last_div : bool array = Array.make 4 false          (* did the last dump show a divisor <> 1 *)
let hist : (string, int) Hashtbl.t = Hashtbl.create 64
let bump k = Hashtbl.replace hist k (1 + try Hashtbl.find hist k with Not_found -> 0)

let extra_info : (string * string) list ref = ref []
let fail kind kvs =
  failed := true;
  let kvs = kvs @ !extra_info in
  Printf.printf "FAIL case=%s step=%d kind=%s %s\n" !case_id !step kind
    (String.concat " " (List.map (fun (k, v) -> k ^ "=" ^ v) kvs))

(* the step being judged *)
type stepinfo = { line : string; op : string; mutable pre : (int * string) list; (* flags before *)
                  mutable res : string; mutable dumps : (int * (string * string) list) list;
                  mutable obs : string list }

let flag_of pre o key =
  try let s = List.assoc o pre in
      let ts = toks s in
      let t = List.find (fun t -> String.length t > String.length key && String.sub t 0 (String.length key + 1) = key ^ "=") ts in
      String.sub t (String.length key + 1) (String.length t - String.length key - 1)
  with Not_found -> "?"

let bool_s b = if b then "1" else "0"

(* expected effect of an operation: new reference objects and the expected result string (None: not compared) *)
let apply (si : stepinfo) : string option =
  let ts = toks si.line in
  let o = int_of_string (List.nth ts 1) in
  let x = pool.(o) in
  let rest = List.tl (List.tl ts) in
  let set r = pool.(o) <- r in
  match si.op with
  | "new" ->
      (match rest with
       | "dim" :: n :: "universe" :: _ -> let n = int_of_string n in set { n; g = univ n; cv = Some [] }; Some "ok"
       | "dim" :: n :: "empty" :: _ -> let n = int_of_string n in set { n; g = []; cv = Some [false_cg] }; Some "ok"
       | "dim" :: n :: "cgs" :: r -> let n = int_of_string n in
           let c = List.map cg_of_toks (fst (groups (n + 2) r)) in
           set { n; g = get "cgs_to_gens" (cgs_to_gens (nat n) c); cv = Some c }; Some "ok"
       | "dim" :: n :: "gens" :: r -> let n = int_of_string n in
           let g = system_rows (List.map gen_of_toks (fst (groups (n + 2) r))) in
           if g = [] then (set { n; g = []; cv = Some [false_cg] }; Some "ok")
           else if not (List.exists is_point g) then Some "exn invalid_argument"
           else (set { n; g = gens_of_ppl g; cv = None }; Some "ok")
       | _ -> failwith "new")
  | "copy" | "assign" -> let s = int_of_string (List.hd rest) in set pool.(s); Some "ok"
  | "swap" -> let s = int_of_string (List.hd rest) in let t = pool.(s) in pool.(s) <- x; set t; Some "ok"
  | "addcg" | "refcg" | "addcgs" ->
      let c = if si.op = "addcgs" then List.map cg_of_toks (fst (groups (x.n + 2) rest)) else [cg_of_toks rest] in
      set { x with g = get "gens_add_cgs" (gens_add_cgs (nat x.n) x.g c);
                   cv = (match x.cv with Some c0 -> Some (c0 @ c) | None -> None) };
      Some "ok"
  | "addgen" | "addgens" ->
      let gs = if si.op = "addgens" then system_rows (List.map gen_of_toks (fst (groups (x.n + 2) rest))) else [gen_of_toks rest] in
      if gs = [] then Some "ok"
      else if is_empty_b x.g && not (List.exists is_point gs) then Some "exn invalid_argument"
      else begin
        (* points first when the grid is empty: the generated set does not depend on the order *)
        let gs = if is_empty_b x.g then List.filter is_point gs @ List.filter (fun g -> not (is_point g)) gs else gs in
        let g' = List.fold_left (fun acc g -> add_gen acc (qgen_of g)) x.g gs in
        set { x with g = g'; cv = None }; Some "ok"
      end
  | "inters" ->
      let y = pool.(int_of_string (List.hd rest)) in
      let cy = need_cv "intersection argument" y in
      set { x with g = get "gens_add_cgs" (gens_add_cgs (nat x.n) x.g cy);
                   cv = (match x.cv with Some c0 -> Some (c0 @ cy) | None -> None) };
      Some "ok"
  | "join" ->
      let y = pool.(int_of_string (List.hd rest)) in
      set { x with g = join x.g y.g; cv = None }; Some "ok"
  | "image" | "preimage" ->
      (match rest with
       | var :: b :: d :: a ->
           let var = int_of_string var and b = z_of_string b and d = z_of_string d and a = List.map z_of_string a in
           if z_is_zero d then Some "exn invalid_argument"
           else if si.op = "image" then (set { x with g = affine_image (nat var) a b d x.g; cv = None }; Some "ok")
           else begin
             if is_empty_b x.g then Some "ok"
             else begin
               let c' = affine_preimage (nat var) a b d (need_cv "preimage" x) in
               set { x with g = get "cgs_to_gens" (cgs_to_gens (nat x.n) c'); cv = Some c' }; Some "ok"
             end
           end
       | _ -> failwith "image")
  | "embed" -> let m = int_of_string (List.hd rest) in
      set { x with n = x.n + m; g = add_dims_embed (nat x.n) (nat m) x.g }; Some "ok"
  | "project" -> let m = int_of_string (List.hd rest) in
      set { x with n = x.n + m; cv = (match x.cv with Some c -> Some (c @ project_cgs (nat x.n) (nat m)) | None -> None) };
      Some "ok"
  | "rmhigher" -> let m = int_of_string (List.hd rest) in
      if m > x.n then Some "exn invalid_argument"
      else if m = x.n then Some "ok"
      else (set { n = m; g = remove_higher (nat m) x.g; cv = None }; Some "ok")
  | "diff" ->
      let y = pool.(int_of_string (List.hd rest)) in
      set { x with g = ref_diff (nat x.n) x.g (need_cv "difference argument" y); cv = None }; Some "ok"
  | "mapdims" | "rmdims" ->
      if x.n = 0 then Some "ok"
      else begin
        let pf =
          if si.op = "mapdims" then List.map (fun t -> let j = int_of_string t in if j < 0 then None else Some (nat j)) rest
          else begin
            let vs = List.map int_of_string (List.tl rest) in
            let rec go i k = if i >= x.n then [] else if List.mem i vs then None :: go (i + 1) k else Some (nat k) :: go (i + 1) (k + 1) in
            go 0 0
          end in
        let n' = List.fold_left (fun acc t -> match t with Some j -> max acc (1 + (let rec c = function O -> 0 | S m -> 1 + c m in c j)) | None -> acc) 0 pf in
        if si.op = "rmdims" && n' = x.n then Some "ok"
        else (set { n = n'; g = map_dims pf x.g; cv = None }; Some "ok")
      end
  | "expand" ->
      (match rest with
       | [ var; m ] ->
           let var = int_of_string var and m = int_of_string m in
           if m = 0 then Some "ok"
           else begin
             let c = need_cv "expand" x in
             let copies = List.concat (List.init m (fun i -> List.map (rename_cg (nat var) (nat (x.n + i))) c)) in
             let c' = c @ copies in
             let n' = x.n + m in
             set { n = n'; g = (if is_empty_b x.g then [] else get "cgs_to_gens" (cgs_to_gens (nat n') c')); cv = Some c' }; Some "ok"
           end
       | _ -> failwith "expand")
  | "fold" ->
      (match rest with
       | dest :: _k :: vs ->
           let dest = int_of_string dest and vs = List.map int_of_string vs in
           if vs = [] then Some "ok"
           else begin
             let slot i = i - List.length (List.filter (fun u -> u < i) vs) in
             let pf_for v = List.init x.n (fun i ->
               if i = v then Some (nat (slot dest))
               else if i = dest || List.mem i vs then None
               else Some (nat (slot i))) in
             let pieces = List.map (fun v -> map_dims (pf_for v) x.g) (dest :: vs) in
             let g' = List.fold_left join [] pieces in
             set { n = x.n - List.length vs; g = g'; cv = None }; Some "ok"
           end
       | _ -> failwith "fold")
  | "concat" ->
      let y = pool.(int_of_string (List.hd rest)) in
      set { n = x.n + y.n; g = concat (nat x.n) x.g y.g;
            cv = (match x.cv, y.cv with Some cx, Some cy -> Some (cx @ List.map (shift_cg (nat x.n)) cy) | _ -> None) };
      Some "ok"
  | "unconstrain" -> let var = int_of_string (List.hd rest) in
      set { x with g = unconstrain (nat var) x.g; cv = None }; Some "ok"
  | "telapse" ->
      let y = pool.(int_of_string (List.hd rest)) in
      set { x with g = time_elapse x.g y.g; cv = None }; Some "ok"
  | "gimage" | "gpreimage" ->
      (match rest with
       | var :: rel :: b :: d :: m :: a ->
           let var = int_of_string var and b = z_of_string b and d = z_of_string d and m = z_of_string m
           and a = List.map z_of_string a in
           if z_is_zero d then Some "exn invalid_argument"
           else if rel <> "eq" then
             (if not (z_is_zero m) then Some "exn invalid_argument"
              else (set { x with g = unconstrain (nat var) x.g; cv = None }; Some "ok"))
           else if si.op = "gimage" then (set { x with g = gen_image (nat var) a b d m x.g; cv = None }; Some "ok")
           else begin
             let c = (try List.nth a var with _ -> Z0) in
             extra_info := [ "gp_branch",
                             (if z_is_zero m then "plain" else if z_is_zero c then "not-invertible"
                              else if Z.abs c = Z.abs d then "invertible-unit-ratio" else "invertible-scaled") ];
             set { x with g = get "gen_preimage" (gen_preimage (nat x.n) (nat var) a b d m x.g); cv = None }; Some "ok"
           end
       | _ -> failwith "gimage")
  | "gimagel" | "gpreimagel" ->
      (* expression-on-the-left forms: the transfer relation is  lhs(x_new) = rhs(x) (mod m)  with x_new = x on the
         variables that do not occur in lhs.  Reference = composition of the verified operators in dimension n+1:
         image:    t := rhs(x) (+ m Z);  forget the variables of lhs;  meet with lhs(x) = t;  drop t
         preimage: t := lhs(x);          forget the variables of lhs;  meet with rhs(x) = t (mod m);  drop t *)
      (match rest with
       | rel :: m :: tl ->
           let m = z_of_string m in
           let n = x.n in
           let rec take k l = if k = 0 then [], l else (match l with h :: t -> let a, b = take (k - 1) t in h :: a, b | [] -> failwith "gimagel") in
           let lb, tl = (match tl with h :: t -> z_of_string h, t | [] -> failwith "gimagel") in
           let la, tl = take n tl in
           let rb, tl = (match tl with h :: t -> z_of_string h, t | [] -> failwith "gimagel") in
           let ra, _ = take n tl in
           let la = List.map z_of_string la and ra = List.map z_of_string ra in
           let lvars = List.filter (fun i -> not (z_is_zero (List.nth la i))) (List.init n (fun i -> i)) in
           extra_info := [ "lhs_vars", string_of_int (List.length lvars);
                           "common", (if List.exists (fun i -> not (z_is_zero (List.nth ra i))) lvars then "1" else "0");
                           "modulus", (if z_is_zero m then "0" else "nz") ];
           if rel <> "eq" then
             (if not (z_is_zero m) then Some "exn invalid_argument"
              else (set { x with g = List.fold_left (fun g v -> unconstrain (nat v) g) x.g lvars; cv = None }; Some "ok"))
           else begin
             let m = Z.abs m in
             (* the verified compositions gen_image_lhs / gen_preimage_lhs (coq/Grid/GridOpsSpec2.v) *)
             let r = if si.op = "gimagel" then gen_image_lhs (nat n) la lb ra rb m x.g
                     else gen_preimage_lhs (nat n) la lb ra rb m x.g in
             set { x with g = get "gen_image_lhs" r; cv = None }; Some "ok"
           end
       | _ -> failwith "gimagel")
  | "relgen" ->
      let g = qgen_of (gen_of_toks rest) in
      extra_info := [ "gen_kind", List.hd rest ];
      Some ("bool " ^ bool_s (get "subsumes" (subsumes (nat x.n) x.g g)))
  | "freq" ->
      (match rest with
       | b :: a ->
           let b = z_of_string b and a = List.map z_of_string a in
           (match get "frequency" (frequency (nat x.n) x.g a b) with
            | NoFreq -> Some "freq 0"
            | Freq (f, v) ->
                let canonical = Printf.sprintf "freq 1 %s %s" (string_of_q f) (string_of_q v) in
                (match toks si.res with
                 | [ "freq"; "1"; fn; fd; vn; vd ] ->
                     let fn = z_of_string fn and fd = z_of_string fd and vn = z_of_string vn and vd = z_of_string vd in
                     (match fd, vd with
                      | Zpos _, Zpos _ ->
                          let pf = q_of_zz fn fd and pv = q_of_zz vn vd in
                          let why =
                            if not (qeq_bool pf f) then "frequency"
                            else if not (if qeq_bool f (inject_Z Z0) then qeq_bool pv v else q_is_int (qdiv (q_sub pv v) f))
                            then "value-not-attained"
                            else if not (qeq_bool (q_abs pv) (q_abs v)) then "value-not-closest-to-zero"
                            else "" in
                          if why = "" then Some si.res
                          else (extra_info := [ "why", why; "expr_b_zero", bool_s (z_is_zero b) ]; Some canonical)
                      | _ -> extra_info := [ "why", "non-positive-denominator" ]; Some canonical)
                 | _ -> extra_info := [ "why", "defined-but-reported-undefined" ]; Some canonical))
       | _ -> failwith "freq")
  | "closure" -> Some "ok"
  | "obs" -> None
  | "q" ->
      let b = (match List.hd rest with
        | "is_empty" -> is_empty_b x.g
        | "is_universe" ->
            (match x.cv with Some c -> is_universe_b (nat x.n) c
                           | None -> get "gens_incl" (gens_incl (nat x.n) (univ x.n) x.g))
        | "is_discrete" -> is_discrete_b (nat x.n) x.g
        | "is_bounded" -> is_bounded_b (nat x.n) x.g
        | "is_topologically_closed" -> true
        | _ -> failwith "q") in
      Some ("bool " ^ bool_s b)
  | "q2" ->
      let y = pool.(int_of_string (List.hd rest)) in
      let n = nat x.n in
      let sub a b = (* a included in b *)
        match b.cv with Some c -> contains_b n c a.g | None -> get "gens_incl" (gens_incl n a.g b.g) in
      if x.n <> y.n then (if List.nth rest 1 = "equals" then Some "bool 0" else Some "exn invalid_argument") else
      let b = (match List.nth rest 1 with
        | "contains" -> sub y x
        | "strictly_contains" -> sub y x && not (sub x y)
        | "equals" -> sub y x && sub x y
        | "disjoint" ->
            (match y.cv, x.cv with
             | Some cy, _ -> get "is_disjoint" (is_disjoint_b n x.g cy)
             | None, Some cx -> get "is_disjoint" (is_disjoint_b n y.g cx)
             | None, None -> raise (Unknown "no verified congruences for disjointness"))
        | _ -> failwith "q2") in
      Some ("bool " ^ bool_s b)
  | "rel" ->
      let c = cg_of_toks rest in
      let (d, i) = get "relation_cg" (relation_cg (nat x.n) x.g c) in
      let strict = (not d) && (not i) in
      let sat = if is_empty_b x.g then true else i && z_is_zero c.cg_m in
      Some (Printf.sprintf "rel %s %s %s %s" (bool_s d) (bool_s i) (bool_s strict) (if x.n = 0 then "*" else bool_s sat))
  | _ -> raise (Unknown ("operation not modelled: " ^ si.op))

let results_agree expected got =
  let e = toks expected and g = toks got in
  List.length e <= List.length g &&
  (let rec go e g = match e, g with
     | [], _ -> true
     | "*" :: e', _ :: g' -> go e' g'
     | a :: e', b :: g' -> a = b && go e' g'
     | _ -> false in go e g)

let judge_step (si : stepinfo) =
  incr step;
  bump ("op:" ^ si.op);
  let ts = toks si.line in
  let o = int_of_string (List.nth ts 1) in
  let arg = (match si.op, ts with
    | ("copy" | "assign" | "swap" | "inters" | "join" | "diff" | "q2" | "concat" | "telapse"), _ :: _ :: s :: _ -> int_of_string s
    | _ -> -1) in
  let pre_dim oo = (try List.hd (toks (List.assoc oo si.pre)) with _ -> "?") in
  let common = [ "op", si.op;
                 "what", (match si.op, ts with ("q" | "obs"), _ :: _ :: w :: _ -> w | "q2", _ :: _ :: _ :: w :: _ -> w | _ -> "-");
                 "cg_proper", (match si.op, ts with "rel", _ :: _ :: _ :: m :: _ -> bool_s (m <> "0") | _ -> "-");
                 "tgt_dim", pre_dim o;
                 "tgt_em", flag_of si.pre o "EM"; "tgt_cu", flag_of si.pre o "CU"; "tgt_gu", flag_of si.pre o "GU";
                 "tgt_cm", flag_of si.pre o "CM"; "tgt_gm", flag_of si.pre o "GM"; "tgt_r0l", flag_of si.pre o "R0L"; "tgt_pbp", flag_of si.pre o "PBP";
                 "ref_empty_before", bool_s (is_empty_b pool.(o).g);
                 "arg_em", (if arg >= 0 then flag_of si.pre arg "EM" else "-");
                 "arg_cu", (if arg >= 0 then flag_of si.pre arg "CU" else "-");
                 "arg_gu", (if arg >= 0 then flag_of si.pre arg "GU" else "-");
                 "arg_cm", (if arg >= 0 then flag_of si.pre arg "CM" else "-");
                 "arg_gm", (if arg >= 0 then flag_of si.pre arg "GM" else "-");
                 "tgt_ln", flag_of si.pre o "LN"; "arg_ln", (if arg >= 0 then flag_of si.pre arg "LN" else "-");
                 "div_ne1", bool_s last_div.(o) ] in
  bump (Printf.sprintf "opflags:%s:EM%s.CU%s.CM%s.GU%s.GM%s" si.op (flag_of si.pre o "EM") (flag_of si.pre o "CU")
          (flag_of si.pre o "CM") (flag_of si.pre o "GU") (flag_of si.pre o "GM"));
  bump (Printf.sprintf "flags:EM%s.CU%s.CM%s.GU%s.GM%s" (flag_of si.pre o "EM") (flag_of si.pre o "CU")
          (flag_of si.pre o "CM") (flag_of si.pre o "GU") (flag_of si.pre o "GM"));
  let before = Array.copy pool in
  extra_info := [];
  (try
    let expected = apply si in
    (match expected with
     | Some e ->
         incr checks;
         if not (results_agree e si.res) then begin
           (* an exception leaves the object as it was *)
           fail "result" (common @ [ "expected", String.concat "_" (toks e); "got", String.concat "_" (toks si.res) ])
         end else if String.length e >= 3 && String.sub e 0 3 = "exn" then Array.blit before 0 pool 0 4
     | None -> ());
    (* observer output *)
    if not !failed && si.op = "obs" then begin
      let what = List.nth ts 2 in
      List.iter (fun body ->
          incr checks;
          let r = pool.(o) in
          let good =
            if what = "cgs" || what = "mcgs" then check_cgs r (List.map cg_of_toks (items (toks body)))
            else check_gens r (List.map gen_of_toks (items (toks body))) in
          if not good then fail "obs" (common @ [ "what", what ])) si.obs
    end;
    (* what every pool object reports now *)
    if not !failed then
      List.iter (fun (oo, kvs) ->
        if not !failed then begin
          let r = pool.(oo) in
          let text = String.concat "|" (List.map (fun (t, b) -> t ^ " " ^ b) (List.filter (fun (t, _) -> t <> "F" && t <> "O") kvs)) in
          let touched = (oo = o) || (oo = arg) in
          let same_ref = (before.(oo) == pool.(oo)) in
          if same_ref && text = last_text.(oo) then ()     (* same text as already verified against the same reference *)
          else begin
            let newcv = ref None in
            List.iter (fun (tag, body) ->
              if not !failed then
              match tag with
              | "F" -> let d = int_of_string (List.hd (toks body)) in
                  if d <> r.n then fail "state" (common @ [ "desc", "dim"; "obj_is_target", bool_s (oo = o); "touched", bool_s touched ])
              | "C" | "MC" ->
                  incr checks;
                  let c = List.map cg_of_toks (items (toks body)) in
                  if check_cgs r c then newcv := Some c
                  else fail "state" (common @ [ "desc", tag; "obj_is_target", bool_s (oo = o); "touched", bool_s touched;
                                                "ref_empty", bool_s (is_empty_b r.g); "reported_rows", string_of_int (List.length c) ])
              | "G" | "MG" ->
                  incr checks;
                  let g = List.map gen_of_toks (items (toks body)) in
                  if tag = "G" then last_div.(oo) <- List.exists gen_div_ne1 g;
                  (match List.find_opt (function GLine v | GParam (v, _) -> List.for_all z_is_zero v | GPoint _ -> false) g with
                   | Some bad when r.n > 0 ->
                       fail "state" (common @ [ "desc", tag; "why", (match bad with GLine _ -> "zero-line-reported" | _ -> "zero-parameter-reported");
                                                "obj_is_target", bool_s (oo = o); "touched", bool_s touched ])
                   | _ -> ());
                  if not !failed then
                  if not (check_gens r g) then
                    fail "state" (common @ [ "desc", tag; "obj_is_target", bool_s (oo = o); "touched", bool_s touched;
                                             "ref_empty", bool_s (is_empty_b r.g); "reported_rows", string_of_int (List.length g) ])
              | "OK" -> incr checks;
                  if String.trim body <> "1" then
                    fail "ok" (common @ [ "obj_is_target", bool_s (oo = o); "obj_em", flag_of si.pre oo "EM"; "obj_cu", flag_of si.pre oo "CU";
                                          "obj_gu", flag_of si.pre oo "GU"; "obj_gm", flag_of si.pre oo "GM" ])
              | "X" -> fail "read" (common @ [ "obj_is_target", bool_s (oo = o) ])
              | _ -> ()) kvs;
            if not !failed then begin
              last_text.(oo) <- text;
              (* adopt the (now verified) minimized congruences reported by the implementation when the
                 reference has none of its own *)
              (match r.cv, !newcv with
               | None, Some c -> pool.(oo) <- { r with cv = Some c }
               | _ -> ())
            end
          end
        end) si.dumps
  with
  | Unknown what -> incr unk; failed := true; Printf.printf "UNK case=%s step=%d op=%s why=%s\n" !case_id !step si.op (String.concat "_" (toks what)))

let () =
  let cur : stepinfo option ref = ref None in
  let in_result = ref false in
  let skipping = ref false in
  let ncases = ref 0 in
  (try while true do
    let line = input_line stdin in
    let n = String.length line in
    if n >= 4 && String.sub line 0 4 = "case" then begin
      (match toks line with _ :: id :: _ -> case_id := id | _ -> ());
      incr ncases; step := 0; checks := 0; unk := 0; failed := false; skipping := false;
      Array.fill pool 0 4 { n = 0; g = univ 0; cv = Some [] };
      Array.fill last_text 0 4 ""; Array.fill last_div 0 4 false
    end
    else if line = "end" then
      Printf.printf "STAT case=%s steps=%d checks=%d unk=%d failed=%s\n" !case_id !step !checks !unk (bool_s !failed)
    else if !skipping then ()
    else if n >= 2 && String.sub line 0 2 = "> " then begin
      let l = String.sub line 2 (n - 2) in
      cur := Some { line = l; op = List.hd (toks l); pre = []; res = ""; dumps = []; obs = [] };
      in_result := false
    end
    else if n >= 2 && String.sub line 0 2 = "R " then begin
      (match !cur with Some si -> si.res <- String.sub line 2 (n - 2) | None -> ());
      in_result := true
    end
    else if line = "." then begin
      (match !cur with
       | Some si ->
           si.dumps <- List.rev_map (fun (o, kvs) -> (o, List.rev kvs)) si.dumps;
           judge_step si;
           if !failed then skipping := true
       | None -> ());
      cur := None
    end
    else begin
      match !cur with
      | None -> ()
      | Some si ->
          (match toks line with
           | tag :: o :: _ ->
               let oi = int_of_string o in
               let body = String.concat " " (List.tl (List.tl (toks line))) in
               if not !in_result then (if tag = "F" then si.pre <- (oi, body) :: si.pre
                                       else if tag = "O" then si.obs <- body :: si.obs)
               else begin
                 match si.dumps with
                 | (o', kvs) :: r when o' = oi -> si.dumps <- (oi, (tag, body) :: kvs) :: r
                 | _ -> si.dumps <- (oi, [ (tag, body) ]) :: si.dumps
               end
           | _ -> ())
    end
  done with End_of_file -> ());
  (match !cur with
   | Some si ->
       (* the harness died inside this step *)
       let ts = toks si.line in
       let o = (try int_of_string (List.nth ts 1) with _ -> 0) in
       Printf.printf "PENDING case=%s step=%d kind=crash op=%s tgt_dim=%s tgt_em=%s tgt_cu=%s tgt_gu=%s tgt_cm=%s tgt_gm=%s ref_empty_before=%s after_fail=%s\n"
         !case_id (!step + 1) si.op (try List.hd (toks (List.assoc o si.pre)) with _ -> "?")
         (flag_of si.pre o "EM") (flag_of si.pre o "CU") (flag_of si.pre o "GU") (flag_of si.pre o "CM") (flag_of si.pre o "GM")
         (bool_s (is_empty_b pool.(o).g)) (bool_s !skipping)
   | _ -> ());
  Hashtbl.iter (fun k v -> Printf.printf "HIST %s %d\n" k v) hist;
  Printf.printf "DONE cases=%d\n" !ncases
