(* C14 glue around the extracted model (module Except = coq/Except/{Precond,AllocProgs}.v).
   usage: judge_except <file>      one request per line, one answer per line
     shape <tag> <max_dim> <topo> <dim> <empty> <call> <args...>   ->  <tag> none|invalid_argument|length_error|domain_error|logic_error
     mapck <tag> <n> <k> j1 .. jk   (j < 0: unmapped)               ->  <tag> none|invalid_argument
     mip   <tag> <status> <dim> <query> [gdim ispoint]               ->  <tag> ...
     trace <tag> <prog> <k> <params...>                              ->  <tag> ok=<0|1> leaked=<n> owned=<n> ev <events>
   Untrusted: parsing and printing only; every answer is the value of an extracted function. *)
open Except

let rec pos_of_int i = if i = 1 then XH else if i land 1 = 0 then XO (pos_of_int (i lsr 1)) else XI (pos_of_int (i lsr 1))
let n_of_int i = if i < 0 then failwith "negative" else if i = 0 then N0 else Npos (pos_of_int i)
let rec int_of_pos = function XH -> 1 | XO p -> 2 * int_of_pos p | XI p -> 2 * int_of_pos p + 1
let int_of_n = function N0 -> 0 | Npos p -> int_of_pos p
let rec nat_of_int i = if i <= 0 then O else S (nat_of_int (i - 1))

type cur = { mutable t : string list }
let next c = match c.t with x :: r -> c.t <- r; x | [] -> failwith "missing token"
let nexti c = int_of_string (next c)
let nextn c = n_of_int (nexti c)
let nextb c = (next c = "1")
let rec times k f = if k <= 0 then [] else let x = f () in x :: times (k - 1) f

let topo_of = function "C" -> TC | "NNC" -> TNNC | s -> failwith ("topo " ^ s)
let triv_of = function "T" -> Taut | "I" -> Incons | "N" -> Nontriv | s -> failwith ("triv " ^ s)
let gk_of = function "l" -> G_line | "r" -> G_ray | "p" -> G_point | "c" -> G_closure | s -> failwith ("gkind " ^ s)
let rel_of = function "<" -> R_LT | "<=" -> R_LE | "==" -> R_EQ | ">=" -> R_GE | ">" -> R_GT | "!=" -> R_NE | s -> failwith ("rel " ^ s)
let recv_of c = let t = topo_of (next c) in let d = nextn c in let e = nextb c in { r_topo = t; r_dim = d; r_empty = e }
let cshape_of c = let d = nextn c in let s = nextb c in let t = triv_of (next c) in { c_dim = d; c_strict = s; c_triv = t }
let cs_of c = let d = nextn c in let k = nexti c in
  { cs_dim = d; cs_rows = times k (fun () -> let s = nextb c in let t = triv_of (next c) in { c_dim = d; c_strict = s; c_triv = t }) }
let g_of c = let d = nextn c in let k = gk_of (next c) in { g_dim = d; g_kind = k }
let gs_of c = let d = nextn c in let k = nexti c in { gs_dim = d; gs_rows = times k (fun () -> gk_of (next c)) }
let cg_of c = let d = nextn c in let p = nextb c in let t = triv_of (next c) in { cg_dim = d; cg_proper = p; cg_triv = t }
let cgs_of c = let d = nextn c in let k = nexti c in
  { cgs_dim = d; cgs_rows = times k (fun () -> let p = nextb c in let t = triv_of (next c) in { cg_dim = d; cg_proper = p; cg_triv = t }) }
let vs_of c = let k = nexti c in times k (fun () -> nextn c)
let binop_of = function
  | "intersection_assign" -> Intersection | "poly_hull_assign" | "upper_bound_assign" -> Poly_hull
  | "poly_difference_assign" | "difference_assign" -> Poly_difference | "time_elapse_assign" -> Time_elapse
  | "H79_widening_assign" -> H79_widening | "BHRZ03_widening_assign" -> BHRZ03_widening | "contains" | "strictly_contains" | "is_disjoint_from" -> Contains
  | "simplify_using_context_assign" -> Simplify_ctx | "swap" -> Swap | s -> failwith ("binop " ^ s)

let call_of c : call =
  let op = next c in
  match op with
  | "add_constraint" -> Add_constraint (cshape_of c)
  | "refine_with_constraint" -> Refine_with_constraint (cshape_of c)
  | "add_constraints" -> Add_constraints (cs_of c)
  | "add_recycled_constraints" -> Add_recycled_constraints (cs_of c)
  | "refine_with_constraints" -> Refine_with_constraints (cs_of c)
  | "add_generator" -> Add_generator (g_of c)
  | "add_generators" -> Add_generators (gs_of c)
  | "add_recycled_generators" -> Add_recycled_generators (gs_of c)
  | "add_congruence" -> Add_congruence (cg_of c)
  | "refine_with_congruence" -> Refine_with_congruence (cg_of c)
  | "add_congruences" -> Add_congruences (cgs_of c)
  | "refine_with_congruences" -> Refine_with_congruences (cgs_of c)
  | "concatenate_assign" -> Concatenate (recv_of c)
  | "affine_image" -> let v = nextn c in let e = nextn c in let d0 = nextb c in Affine_image (v, e, d0)
  | "affine_preimage" -> let v = nextn c in let e = nextn c in let d0 = nextb c in Affine_preimage (v, e, d0)
  | "bounded_affine_image" -> let v = nextn c in let l = nextn c in let u = nextn c in let d0 = nextb c in Bounded_affine_image (v, l, u, d0)
  | "bounded_affine_preimage" -> let v = nextn c in let l = nextn c in let u = nextn c in let d0 = nextb c in Bounded_affine_preimage (v, l, u, d0)
  | "generalized_affine_image" -> let v = nextn c in let r = rel_of (next c) in let e = nextn c in let d0 = nextb c in Gen_affine_image (v, r, e, d0)
  | "generalized_affine_preimage" -> let v = nextn c in let r = rel_of (next c) in let e = nextn c in let d0 = nextb c in Gen_affine_preimage (v, r, e, d0)
  | "generalized_affine_image_lhs" -> let l = nextn c in let r = rel_of (next c) in let e = nextn c in Gen_affine_image_lhs (l, r, e)
  | "generalized_affine_preimage_lhs" -> let l = nextn c in let r = rel_of (next c) in let e = nextn c in Gen_affine_preimage_lhs (l, r, e)
  | "unconstrain" -> Unconstrain (nextn c)
  | "unconstrain_set" -> Unconstrain_set (vs_of c)
  | "add_space_dimensions_and_embed" -> Add_dims_embed (nextn c)
  | "add_space_dimensions_and_project" -> Add_dims_project (nextn c)
  | "remove_space_dimensions" -> Remove_dims (vs_of c)
  | "remove_higher_space_dimensions" -> Remove_higher (nextn c)
  | "expand_space_dimension" -> let v = nextn c in let m = nextn c in Expand (v, m)
  | "fold_space_dimensions" -> let vs = vs_of c in let v = nextn c in Fold (vs, v)
  | "limited_extrapolation" -> let y = recv_of c in let cs = cs_of c in Limited_extrapolation (y, cs)
  | "relation_with_con" -> Relation_with_con (cshape_of c)
  | "relation_with_gen" -> Relation_with_gen (g_of c)
  | "relation_with_cg" -> Relation_with_cg (cg_of c)
  | "constrains" -> Constrains (nextn c)
  | "bounds" -> Bounds (nextn c)
  | "max_min" -> Max_min (nextn c)
  | "frequency" -> Frequency (nextn c)
  | "ctor_dim" -> Ctor_dim (nextn c)
  | "ctor_cons" -> let t = topo_of (next c) in Ctor_cons (t, cs_of c)
  | "ctor_gens" -> let t = topo_of (next c) in Ctor_gens (t, gs_of c)
  | "binary" -> let b = binop_of (next c) in Binary (b, recv_of c)
  | s -> failwith ("call " ^ s)

let exn_str = function
  | None -> "none" | Some Invalid_argument -> "invalid_argument" | Some Length_error -> "length_error"
  | Some Domain_error -> "domain_error" | Some Logic_error -> "logic_error"

let ev_str = function
  | EvAlloc (l, n) -> "A" ^ (match l with LNew -> "n" | LGmp -> "g") ^ string_of_int (int_of_n n)
  | EvFail (l, n) -> "X" ^ (match l with LNew -> "n" | LGmp -> "g") ^ string_of_int (int_of_n n)
  | EvFree (l, n) -> "F" ^ (match l with LNew -> "n" | LGmp -> "g") ^ string_of_int (int_of_n n)

let used_of c = let m = nexti c in times m (fun () -> let p = nextn c in let l = nextn c in (p, l))
let nlist_of c = let m = nexti c in times m (fun () -> nextn c)

let () =
  let ic = open_in Sys.argv.(1) in
  (try while true do
    let line = input_line ic in
    let c = { t = List.filter (fun x -> x <> "") (String.split_on_char ' ' line) } in
    (match c.t with
     | [] -> ()
     | _ ->
       let kind = next c in let tag = next c in
       (try
         (match kind with
          | "shape" ->
              let mx = nextn c in let r = recv_of c in let cl = call_of c in
              Printf.printf "%s %s\n" tag (exn_str (check mx r cl))
          | "boxac" ->
              let n = nextn c in let closed = nextb c in let d = nextn c in let itv = nextb c in let st = nextb c in let nv = nextn c in
              Printf.printf "%s %s\n" tag (exn_str (box_add_constraint_check n closed { bc_dim = d; bc_interval = itv; bc_strict = st; bc_nvars = nv }))
          | "mipac" ->
              let n = nextn c in let d = nextn c in let st = nextb c in
              Printf.printf "%s %s\n" tag (exn_str (mip_add_constraint_check n d st))
          | "mipacs" ->
              let n = nextn c in let cs = cs_of c in
              Printf.printf "%s %s\n" tag (exn_str (mip_add_constraints_check n cs))
          | "mapck" ->
              let n = nexti c in let k = nexti c in
              let pf = times k (fun () -> let j = nexti c in if j < 0 then None else Some (n_of_int j)) in
              Printf.printf "%s %s\n" tag (exn_str (map_check (nat_of_int n) pf))
          | "mip" ->
              let st = (match next c with "unsolved" -> Mip_unsolved | "unsat" -> Mip_unsat | "sat" -> Mip_sat | "unbounded" -> Mip_unbounded | "optimized" -> Mip_optimized | s -> failwith s) in
              let d = nextn c in
              let q = (match next c with "feasible_point" -> Feasible_point | "optimizing_point" -> Optimizing_point | "optimal_value" -> Optimal_value
                       | "evaluate_objective_function" -> let g = nextn c in let p = nextb c in Evaluate_objective (g, p) | s -> failwith s) in
              Printf.printf "%s %s\n" tag (exn_str (mip_check st d q))
          | "trace" ->
              let prog = next c in let k = nextn c in
              let saved = c.t in
              let valid = (match prog with
                 | "assign" -> let r1 = nextn c in let u1 = used_of c in let r2 = nextn c in let u2 = used_of c in Some (tr_assign_valid r1 u1 r2 u2 k)
                 | _ -> None) in
              c.t <- saved;
              let (((ok, evs), leaked), owned) =
                (match prog with
                 | "init" -> tr_init (nextn c) k
                 | "iter" -> tr_iter_ctor (nlist_of c) k
                 | "old_iter" -> tr_old_iter_ctor (nlist_of c) k
                 | "copy" -> let rsz = nextn c in tr_copy_ctor rsz (used_of c) k
                 | "assign" -> let r1 = nextn c in let u1 = used_of c in let r2 = nextn c in let u2 = used_of c in tr_assign r1 u1 r2 u2 k
                 | "rebuild" -> let rsz = nextn c in tr_rebuild_bigger rsz (used_of c) k
                 | "dense_resize" -> let cap = nextn c in let cs = nlist_of c in let ns = nextn c in tr_dense_resize cap cs ns k
                 | "dense_copy" -> let cap = nextn c in let cs = nlist_of c in tr_dense_copy cap cs k
                 | "dense_copy_sized" -> let cs = nlist_of c in let sz = nextn c in let cap = nextn c in tr_dense_copy_sized cs sz cap k
                 | "dense_copy_cap" -> let ycap = nextn c in let cs = nlist_of c in let cap = nextn c in tr_dense_copy_cap ycap cs cap k
                 | "dense_resize2" -> let cap = nextn c in let cs = nlist_of c in let ns = nextn c in let nc = nextn c in tr_dense_resize2 cap cs ns nc k
                 | "dense_from_sparse" -> let rs = nextn c in tr_dense_from_sparse rs (used_of c) k
                 | "mip_add" -> let sz = nextn c in let cap = nextn c in let nc = nextn c in let cs = nextn c in
                     let m = nexti c in let subs = times m (fun () -> let l = (match next c with "n" -> LNew | _ -> LGmp) in let z = nextn c in (l, z)) in
                     tr_mip_add_at sz cap nc cs subs k
                 | "sv_reserve" -> let oc = nextn c in let sz = nextn c in let want = nextn c in let cc = nextn c in let szt = nextn c in tr_sv_reserve oc sz want cc szt k
                 | s -> failwith ("prog " ^ s)) in
              Printf.printf "%s ok=%d leaked=%d owned=%d valid=%s ev%s\n" tag (if ok then 1 else 0) (int_of_n leaked) (int_of_n owned)
                (match valid with Some true -> "1" | Some false -> "0" | None -> "-")
                (String.concat "" (List.map (fun e -> " " ^ ev_str e) evs))
          | s -> failwith ("request " ^ s))
       with Failure m -> Printf.printf "%s ERROR %s\n" tag m))
  done with End_of_file -> ())
