(* C11 judge (untrusted glue): reads the output of harness/run_checked on stdin and compares every entry with the
   extracted Coq model (gen/checked.ml) bit for bit.
     judge_checked sweep            -- exhaustive 8-bit blocks (implicit operand order)
     judge_checked vec <file>       -- blocks over the operand tuples of <file> ("x y z e" per line)
   prints  "M <block#> <header> | x y z e | code=<s,r> model=<s,r>"  for each mismatch (first 20 per block),
           "S <blocks> <entries compared> <entries where the model is undefined (outside the contract)> <mismatches>". *)
open Checked

let rec pos_of_int n = if n = 1 then XH else if n land 1 = 0 then XO (pos_of_int (n lsr 1)) else XI (pos_of_int (n lsr 1))
let z_of_int n = if n = 0 then Z0 else if n > 0 then Zpos (pos_of_int n) else Zneg (pos_of_int (-n))
let rec int_of_pos = function XH -> 1 | XO p -> 2 * int_of_pos p | XI p -> 2 * int_of_pos p + 1
let int_of_z = function Z0 -> 0 | Zpos p -> int_of_pos p | Zneg p -> - (int_of_pos p)
let ten = z_of_int 10
let z_of_string s =
  let s = String.trim s in
  let neg, s = if String.length s > 0 && s.[0] = '-' then true, String.sub s 1 (String.length s - 1) else false, s in
  let r = ref Z0 in
  String.iter (fun ch -> r := Z.add (Z.mul !r ten) (z_of_int (Char.code ch - 48))) s;
  if neg then Z.opp !r else !r
let rec int64_of_pos = function
  | XH -> 1L
  | XO p -> Int64.shift_left (int64_of_pos p) 1
  | XI p -> Int64.logor (Int64.shift_left (int64_of_pos p) 1) 1L
let rec pos_small p n = n > 0 && (match p with XH -> true | XO q | XI q -> pos_small q (n - 1))
let string_of_z_slow z =
  let rec digits z acc = match z with
    | Z0 -> acc
    | _ -> let q = Z.div z ten and r = Z.modulo z ten in digits q (string_of_int (int_of_z r) :: acc) in
  match z with Z0 -> "0" | Zpos _ -> String.concat "" (digits z []) | Zneg p -> "-" ^ String.concat "" (digits (Zpos p) [])
(* values below 2^64 in magnitude are printed through Int64 (unsigned format) *)
let string_of_z z = match z with
  | Z0 -> "0"
  | Zpos p -> if pos_small p 64 then Printf.sprintf "%Lu" (int64_of_pos p) else string_of_z_slow z
  | Zneg p -> if pos_small p 64 then Printf.sprintf "-%Lu" (int64_of_pos p) else string_of_z_slow z

let sent = z_of_int 0x55

type hdr = { raw : string; c : cfg; api : string; op : string; dir : z; zsel : string; signed : bool; bits : int }

let larger s = if s = "-" then None else
  let n = String.length s in
  Some { bits = z_of_int (int_of_string (String.sub s 0 (n - 1))); sgn = (s.[n - 1] = 's') }

let parse_header line =
  match String.split_on_char ' ' line with
  | "B" :: _tn :: bits :: sg :: _pn :: fl :: ln :: la :: ls :: lm :: api :: op :: dir :: zsel :: _ ->
      let b i = fl.[i] = '1' in
      let pol = { check_overflow = b 0; has_nan = b 1; has_inf = b 2; check_div_zero = b 3; check_inf_add_inf = b 4;
                  check_inf_sub_inf = b 5; check_inf_mul_zero = b 6; check_inf_div_inf = b 7; check_inf_mod = b 8;
                  check_sqrt_neg = b 9 } in
      let ty = { bits = z_of_int (int_of_string bits); sgn = (sg = "1") } in
      { raw = line; c = { ty; pol; lg_neg = larger ln; lg_add = larger la; lg_sub = larger ls; lg_mul = larger lm };
        api; op; dir = z_of_int (int_of_string dir); zsel; signed = (sg = "1"); bits = int_of_string bits }
  | _ -> failwith ("bad header: " ^ line)

(* model result as (stored, word) ; None = outside the contract *)
let model h x y z e : (z * z) option =
  let c = h.c and d = h.dir in
  let ext = (h.api = "ext" || h.api = "oper" || h.api = "native" || h.api = "mixed") in
  let r =
    match h.op with
    | "assign" -> if ext then assign_ext c d x sent else assign_int_int c.pol c.ty c.pol c.ty d x sent
    | "neg" -> if ext then neg_ext c d x sent else neg_int c d x sent
    | "abs" -> if ext then abs_ext c d x sent else abs_int c d x sent
    | "add" -> if ext then add_ext c d x y sent else add_int c d x y sent
    | "sub" -> if ext then sub_ext c d x y sent else sub_int c d x y sent
    | "mul" -> if ext then mul_ext c d x y sent else mul_int c d x y sent
    | "div" -> if ext then div_ext c d x y sent else div_int c d x y sent
    | "idiv" -> if ext then idiv_ext c d x y sent else idiv_int c d x y sent
    | "rem" -> if ext then rem_ext c d x y sent else rem_int c d x y sent
    | "add_mul" -> if h.api = "mixed" then add_mul_ext_nat c d x y z else if ext then add_mul_ext c d x y z else add_mul_int c d x y z
    | "sub_mul" -> if h.api = "mixed" then sub_mul_ext_nat c d x y z else if ext then sub_mul_ext c d x y z else sub_mul_int c d x y z
    | "add_2exp" -> if ext then add_2exp_ext c d x e sent else add_2exp_int c d x e sent
    | "sub_2exp" -> if ext then sub_2exp_ext c d x e sent else sub_2exp_int c d x e sent
    | "mul_2exp" -> if ext then mul_2exp_ext c d x e sent else mul_2exp_int c d x e sent
    | "div_2exp" -> if ext then div_2exp_ext c d x e sent else div_2exp_int c d x e sent
    | "smod_2exp" -> if ext then smod_2exp_ext c d x e sent else smod_2exp_int c d x e sent
    | "umod_2exp" -> if ext then umod_2exp_ext c d x e sent else umod_2exp_int c d x e sent
    | "sqrt" -> if ext then sqrt_ext c d x sent else sqrt_int c d x sent
    | "gcd" -> if ext then gcd_ext c d x y sent else gcd_int c d x y sent
    | "lcm" -> if h.api = "native" then lcm_int_native c d x y sent else if ext then lcm_ext c d x y sent else lcm_int c d x y sent
    | "cmp" -> Some (Z0, (if ext then cmp_ext c x y else cmp_int x y))
    | "classify" ->
        let ei = int_of_z e in
        Some (Z0, classify_int c.pol c.ty x (ei land 1 <> 0) (ei land 2 <> 0) (ei land 4 <> 0))
    | o -> failwith ("unknown op " ^ o) in
  r

(* what the judge expects to read for an entry: `Skip` = no opinion *)
type expect = Skip | Val of z * z | Throw

let expect h x y z e =
  if h.api = "oper" then
    (match handle (model h x y z e) with
     | Value v -> Val (v, z_of_int 1) | Overflow -> Throw | Stuck -> Skip)
  else match model h x y z e with None -> Skip | Some (s, r) -> Val (s, r)

let blocks = ref 0 and compared = ref 0 and undefined = ref 0 and mism = ref 0 and traps = ref 0
let block_mism = ref 0

let report h x y z e code exp =
  incr mism; incr block_mism;
  if !block_mism <= 20 then
    Printf.printf "M %d %s | %s %s %s %s | code=%s model=%s\n" !blocks h.raw (string_of_z x) (string_of_z y) (string_of_z z)
      (string_of_z e) code
      (match exp with Skip -> "undefined" | Throw -> "T" | Val (s, r) -> string_of_z s ^ "," ^ string_of_z r)

(* fast path for the 8-bit sweep: compare as OCaml ints *)
let small = ref false
let tok_matches tok s r =
  if !small then begin
    let n = String.length tok in
    let i = ref 0 and neg = ref false and a = ref 0 and b = ref 0 in
    if n > 0 && tok.[0] = '-' then (neg := true; incr i);
    while !i < n && tok.[!i] <> ',' do a := !a * 10 + (Char.code tok.[!i] - 48); incr i done;
    incr i;
    while !i < n do b := !b * 10 + (Char.code tok.[!i] - 48); incr i done;
    (if !neg then - !a else !a) = int_of_z s && !b = int_of_z r
  end else begin
    let k = String.index tok ',' in
    let cs = String.sub tok 0 k and cr = String.sub tok (k + 1) (String.length tok - k - 1) in
    cs = string_of_z s && cr = string_of_z r
  end

(* distinct (type, policy flags, api, op, direction, result word) classes seen, and a histogram of result words *)
let classes : (string, unit) Hashtbl.t = Hashtbl.create 4096
let words : (int, int) Hashtbl.t = Hashtbl.create 64
let hkey h = match String.split_on_char ' ' h.raw with
  | _ :: tn :: _ :: _ :: _ :: fl :: _ :: _ :: _ :: _ :: api :: op :: dir :: _ -> String.concat " " [tn; fl; api; op; dir]
  | _ -> h.raw
let note h exp =
  match exp with
  | Val (_, r) ->
      let ri = int_of_z r in
      Hashtbl.replace words ri (1 + (try Hashtbl.find words ri with Not_found -> 0));
      let k = hkey h ^ " " ^ string_of_int ri in
      if not (Hashtbl.mem classes k) then Hashtbl.add classes k ()
  | Throw -> let k = hkey h ^ " T" in if not (Hashtbl.mem classes k) then Hashtbl.add classes k ()
  | Skip -> ()

let check_entry h x y z e (tok : string) =
  match expect h x y z e with
  | Skip -> incr undefined
  | exp ->
      incr compared; note h exp;
      if tok = "!" then (incr traps; report h x y z e tok exp)
      else if tok = "T" then (if exp <> Throw then report h x y z e tok exp)
      else begin
        match exp with
        | Throw -> report h x y z e tok exp
        | Val (s, r) -> if not (tok_matches tok s r) then report h x y z e tok exp
        | Skip -> ()
      end

let tokens line = List.filter (fun s -> s <> "") (String.split_on_char ' ' line)

let arity op = match op with
  | "assign" | "neg" | "abs" | "sqrt" | "classify" -> 1
  | "add_mul" | "sub_mul" -> 3
  | "add_2exp" | "sub_2exp" | "mul_2exp" | "div_2exp" | "smod_2exp" | "umod_2exp" -> 4
  | _ -> 2

(* conversions between different types: "A To bits sgn policy flags From fbits fsgn dir" *)
let conv_block line =
  match String.split_on_char ' ' line with
  | "A" :: _ :: bits :: sg :: pn :: fl :: _fn :: fbits :: fsg :: dir :: _ ->
      let b i = fl.[i] = '1' in
      let mk co nan inf = { check_overflow = co; has_nan = nan; has_inf = inf; check_div_zero = false;
                            check_inf_add_inf = false; check_inf_sub_inf = false; check_inf_mul_zero = false;
                            check_inf_div_inf = false; check_inf_mod = false; check_sqrt_neg = false } in
      let p = mk (b 0) (b 1) (b 2) in
      ignore pn;
      let fp = mk true false false in      (* Check_Overflow_Policy<From> of a native source *)
      let t = { bits = z_of_int (int_of_string bits); sgn = (sg = "1") } in
      let fb = int_of_string fbits in
      let ft = { bits = z_of_int fb; sgn = (fsg = "1") } in
      let lo = if fsg = "1" then - (1 lsl (fb - 1)) else 0 in
      let hi = if fsg = "1" then (1 lsl (fb - 1)) - 1 else (1 lsl fb) - 1 in
      let d = z_of_int (int_of_string dir) in
      let h = { raw = line; c = { ty = t; pol = p; lg_neg = None; lg_add = None; lg_sub = None; lg_mul = None };
                api = "conv"; op = "assign_from"; dir = d; zsel = "-"; signed = (sg = "1"); bits = int_of_string bits } in
      let v = ref lo in
      while !v <= hi do
        let l = input_line stdin in
        List.iter (fun tok ->
          let x = z_of_int !v in
          (match assign_int_int p t fp ft d x sent with
           | None -> incr undefined
           | Some (s, r) ->
               incr compared;
               if not (tok_matches tok s r) then report h x Z0 Z0 Z0 tok (Val (s, r)));
          incr v) (tokens l)
      done
  | _ -> failwith ("bad A header " ^ line)

let sweep () =
  (try
    while true do
      let line = input_line stdin in
      if String.length line > 0 && line.[0] = 'B' then begin
        incr blocks; block_mism := 0;
        let h = parse_header line in
        let lo = if h.signed then -128 else 0 and hi = if h.signed then 127 else 255 in
        let zv = if h.zsel = "-" then sent else z_of_string h.zsel in
        let row f = let l = input_line stdin in let i = ref 0 in List.iter (fun tok -> f !i tok; incr i) (tokens l) in
        (match arity h.op with
         | 1 ->
             let ne = if h.op = "classify" then 8 else 1 in
             for e = 0 to ne - 1 do row (fun i tok -> check_entry h (z_of_int (lo + i)) Z0 zv (z_of_int e) tok) done
         | 4 -> for e = 0 to 10 do row (fun i tok -> check_entry h (z_of_int (lo + i)) Z0 zv (z_of_int e) tok) done
         | _ ->
             let one_x = (h.api = "oper" && (h.op = "neg" || h.op = "abs")) in
             if one_x then row (fun i tok -> check_entry h (z_of_int (lo + i)) Z0 zv Z0 tok)
             else
               for x = lo to hi do
                 row (fun i tok -> check_entry h (z_of_int x) (z_of_int (lo + i)) zv Z0 tok)
               done)
      end
      else if String.length line > 0 && line.[0] = 'A' then begin incr blocks; block_mism := 0; conv_block line end
      else if String.length line > 0 && line.[0] = 'E' then ()
      else if String.trim line <> "" then failwith ("unexpected line: " ^ (String.sub line 0 (min 60 (String.length line))))
    done
  with End_of_file -> ())

let vec file =
  let tuples =
    let ic = open_in file in
    let acc = ref [] in
    (try while true do
       let l = input_line ic in
       match tokens l with
       | [a; b; c; e] -> acc := (z_of_string a, z_of_string b, z_of_string c, z_of_string e) :: !acc
       | _ -> ()
     done with End_of_file -> ());
    close_in ic; Array.of_list (List.rev !acc) in
  (try
    while true do
      let line = input_line stdin in
      if String.length line > 0 && line.[0] = 'B' then begin
        incr blocks; block_mism := 0;
        let h = parse_header line in
        Array.iter (fun (x, y, z, e) ->
          let tok = String.trim (input_line stdin) in
          let z' = if arity h.op = 3 then z else sent in
          check_entry h x y z' e tok) tuples
      end
    done
  with End_of_file -> ())

let () =
  (match Array.to_list Sys.argv with
   | _ :: "sweep" :: _ -> small := true; sweep ()
   | _ :: "vec" :: f :: _ -> vec f
   | _ -> prerr_endline "usage: judge_checked sweep | vec <file>"; exit 2);
  Hashtbl.iter (fun k () -> Printf.printf "K %s\n" k) classes;
  Hashtbl.iter (fun r n -> Printf.printf "W %d %d\n" r n) words;
  Printf.printf "S %d %d %d %d %d\n" !blocks !compared !undefined !mism !traps
