(* Judge for C18 (termination analysis). Untrusted glue: parsing, dispatch, bookkeeping. Every verdict is the
   result of a function extracted from Coq (module Term): same_cons_b / equiv_cons (ties between the transcribed
   encodings and the systems the C++ built), nonempty_cons (exact feasibility of an encoding), check_rank /
   check_weak / check_bound / check_decr (a returned function really ranks the relation), equiv_sys (space of
   ranking functions = exact projection of the encoding).

   usage: judge_term <casefile> <obsfile>
   output:  FAIL <case> <kind> | <detail>      UNDECIDED <case> <kind>
            STAT cases <n> checks <n> undecided <n>      COV <what> <count>                               *)
open Term
open Zutil_term

let split s = List.filter (fun x -> x <> "") (String.split_on_char ' ' s)
exception Syntax of string
type cur = { mutable t : string list }
let next c = match c.t with x :: r -> c.t <- r; x | [] -> raise (Syntax "missing token")
let nexti c = int_of_string (next c)
let nextz c = z_of_string (next c)
let rec take_z c n = if n = 0 then [] else let x = nextz c in x :: take_z c (n - 1)
let kind_of = function "=" -> EQ | ">=" -> GE | ">" -> GT | k -> raise (Syntax ("kind " ^ k))
let read_con c dim = let k = kind_of (next c) in let b = nextz c in let a = take_z c dim in { ccoefs = a; ccst = b; ckd = k }
let read_cons c dim = (match next c with "cons" -> () | w -> raise (Syntax ("expected cons, got " ^ w)));
  let k = nexti c in List.init k (fun _ -> read_con c dim)
type gen = { gk : string; gdiv : z; gco : z list }
let read_gen c dim = let k = next c in let d = nextz c in let a = take_z c dim in { gk = k; gdiv = d; gco = a }
let read_gens c dim = (match next c with "gens" -> () | w -> raise (Syntax ("expected gens, got " ^ w)));
  let k = nexti c in List.init k (fun _ -> read_gen c dim)

let nat = nat_of_int

(* ---- time budget for every call into the (worst-case exponential) verified procedures ---- *)
exception Timeout
let budget = ref (try float_of_string (Sys.getenv "VERIF_JUDGE_BUDGET") with _ -> 5.0)
let armed = ref false
let () = Sys.set_signal Sys.sigalrm (Sys.Signal_handle (fun _ -> if !armed then begin armed := false; raise Timeout end))
let timed (f : unit -> 'a option) : 'a option =
  let stop () = armed := false; ignore (Unix.setitimer Unix.ITIMER_REAL { Unix.it_interval = 0.0; it_value = 0.0 }) in
  try
    armed := true;
    ignore (Unix.setitimer Unix.ITIMER_REAL { Unix.it_interval = 0.0; it_value = !budget });
    let r = f () in stop (); r
  with Timeout -> stop (); Gc.compact (); None
     | Stack_overflow | Out_of_memory -> stop (); Gc.compact (); None

let n_cases = ref 0 and n_checks = ref 0 and n_undec = ref 0
let cov : (string, int) Hashtbl.t = Hashtbl.create 64
let bump k = Hashtbl.replace cov k (1 + try Hashtbl.find cov k with Not_found -> 0)
let cur_case = ref ""
let fail kind detail = Printf.printf "FAIL %s %s | %s\n" !cur_case kind detail
let undecided kind = incr n_undec; Printf.printf "UNDECIDED %s %s\n" !cur_case kind

(* a check whose verdict is [f () : bool option]; Some true = passes *)
let check kind detail (f : unit -> bool option) =
  incr n_checks; bump ("check:" ^ kind);
  match timed f with
  | Some true -> ()
  | Some false -> fail kind (detail ())
  | None -> undecided kind
let expect kind detail (b : bool) = incr n_checks; bump ("check:" ^ kind); if not b then fail kind (detail ())

let show_con c = (match c.ckd with EQ -> "=" | GE -> ">=" | GT -> ">") ^ " " ^ string_of_z c.ccst ^ " " ^ String.concat " " (List.map string_of_z c.ccoefs)
let show_cons cs = "[" ^ String.concat " ; " (List.map show_con cs) ^ "]"
let show_zs l = String.concat " " (List.map string_of_z l)

(* equivalence of two systems: the syntactic test first, the decision procedure otherwise *)
let same_sys dim a b () = if same_cons_b a b then Some true else equiv_cons (nat dim) a b

let rec strip_zeros l = match List.rev l with Z0 :: r -> strip_zeros (List.rev r) | _ -> l
let same_vec a b = strip_zeros a = strip_zeros b

(* ---- one case ---- *)
type obs = (string, string list) Hashtbl.t

let get (o : obs) tag = try Some { t = Hashtbl.find o tag } with Not_found -> None
let get_cons o tag = match get o tag with None -> None | Some c -> let d = nexti c in Some (d, read_cons c d)
let get_bool o tag = match get o tag with None -> None | Some c -> Some (nexti c = 1)
let get_vec o tag = match get o tag with None -> None | Some c -> let d = nexti c in let b = nextz c in Some (d, b, take_z c d)
let get_gen o tag = match get o tag with None -> None | Some c ->
  let b = nexti c = 1 in if not b then Some (false, 0, None) else let d = nexti c in Some (true, d, Some (read_gen c d))
let get_space o tag = match get o tag with None -> None | Some c ->
  let d = nexti c in let e = nexti c = 1 in let gs = read_gens c d in let cs = read_cons c d in Some (d, e, gs, cs)

let zeros k = List.init k (fun _ -> Z0)
let pad_con dim c = let l = List.length c.ccoefs in if l >= dim then c else { c with ccoefs = c.ccoefs @ zeros (dim - l) }
let neg_l = List.map Z.opp
let zpos z = (match z with Zpos _ -> true | _ -> false)
let z1 = z_of_int 1

let judge_case (dom : string) (mode : string) (n : int) (o : obs) =
  incr n_cases; bump ("dom:" ^ dom); bump ("mode:" ^ mode); bump ("n:" ^ string_of_int n);
  Hashtbl.iter (fun k _ -> if String.length k > 4 && String.sub k 0 4 = "exn:" then fail ("exception-" ^ String.sub k 4 (String.length k - 4)) (String.concat " " (Hashtbl.find o k))) o;
  (* the relation, as the pointset itself reports it *)
  let rel, pset_empty =
    if mode = "one" then begin
      match get_cons o "rel", get o "isempty" with
      | Some (_, r), Some c -> List.map (pad_con (2 * n)) r, (nexti c = 1)
      | _ -> raise (Syntax "missing rel")
    end else begin
      match get_cons o "relb", get_cons o "rela", get o "isempty" with
      | Some (_, rb), Some (_, ra), Some c ->
          let eb = nexti c = 1 in let ea = nexti c = 1 in
          List.map (fun c -> shift_con (nat n) c) rb @ List.map (pad_con (2 * n)) ra, (eb || ea)
      | _ -> raise (Syntax "missing relb/rela")
    end in
  let before_empty = (match get o "isempty" with Some c -> nexti c = 1 | None -> false) in
  let rel_nonempty = timed (fun () -> nonempty_cons (nat (2 * n)) rel) in
  (match rel_nonempty with Some true -> bump "relation:nonempty" | Some false -> bump "relation:empty" | None -> ());
  if List.exists (fun c -> c.ckd = GT) rel then bump "relation:strict";
  if List.exists (fun c -> c.ckd = EQ) rel then bump "relation:equalities";
  (* (i-a) the approximation *)
  let approx_of mc = if dom = "C" then assign_all_inequalities_approximation_C mc else assign_all_inequalities_approximation mc in
  let tie kind dim model real =
    check kind (fun () -> Printf.sprintf "model %s  vs  library %s" (show_cons model) (show_cons real)) (same_sys dim model real) in
  let ap_dim, ap =
    if mode = "one" then begin
      match get_cons o "mc", get_cons o "ap" with
      | Some (_, mc), Some (d, ap) -> tie "tie-approx" (max d (2 * n)) (approx_of mc) ap; d, ap
      | _ -> raise (Syntax "missing mc/ap")
    end else begin
      match get_cons o "mcb", get_cons o "mca", get_cons o "apb0", get_cons o "apa", get_cons o "ap" with
      | Some (_, mcb), Some (_, mca), Some (db, apb), Some (da, apa), Some (d, ap) ->
          tie "tie-approx" (max db n) (approx_of mcb) apb;
          (* the guard system of the PR_2 entry points: before /\ (exists x'. after), decided exactly *)
          (match get_cons o "relg", get_cons o "mcg", get_cons o "apb" with
           | Some (dg, relg), Some (_, mcg), Some (dgb, apg) ->
               tie "tie-approx" (max dgb n) (approx_of mcg) apg;
               check "tie-guard" (fun () -> Printf.sprintf "guard %s is not before /\\ exists x'. after for %s" (show_cons relg) (show_cons rel))
                 (fun () -> equiv_sys (nat (2 * n)) (sys_of_cons (List.map (fun c -> shift_con (nat n) (pad_con n c)) relg))
                              (elim_set (List.init n (fun i -> nat i)) (sys_of_cons rel)))
           | _ -> fail "tie-guard" "missing relg/mcg/apb");
          tie "tie-approx" (max da (2 * n)) (approx_of mca) apa;
          tie "tie-approx2" (max d (2 * n)) (assign_all_inequalities_approximation_2 (nat db) apb apa) ap;
          d, ap
      | _ -> raise (Syntax "missing mcb/mca/apb/apa/ap")
    end in
  (* the approximated system must contain the relation (approximation_superset, per instance) and be closed *)
  check "approx-superset" (fun () -> "relation not included in its approximation " ^ show_cons ap)
    (fun () -> incl_cons (nat (2 * n)) rel ap);
  expect "approx-closed" (fun () -> show_cons ap) (List.for_all (fun c -> c.ckd = GE) ap);
  let db, apb, apa = (match get_cons o "apb", get_cons o "apa" with
    | Some (db, b), Some (_, a) -> db, b, a | _ -> raise (Syntax "missing apb/apa")) in
  (* the relation the two-system PR form works on, and whether its "before" part carries the whole guard
     (before included in the domain of the relation): outside that case the PR two-system encoding derives the
     lower bound from cs_before alone and is incomplete *)
  let rel_pr = List.map (fun c -> shift_con (nat db) c) apb @ apa in
  if mode = "one" then
    check "tie-before-proj" (fun () -> Printf.sprintf "harness: (%s , %s) does not describe %s" (show_cons apb) (show_cons apa) (show_cons ap))
      (fun () -> equiv_cons (nat (2 * n)) rel_pr ap);
  let guard_ok = timed (fun () ->
    incl_sys (nat (2 * n)) (sys_of_cons (List.map (fun c -> shift_con (nat db) c) apb))
      (elim_set (List.init n (fun i -> nat i)) (sys_of_cons rel_pr))) in
  (match guard_ok with Some true -> bump "pr2:before-carries-guard" | Some false -> bump "pr2:guard-only-in-after" | None -> bump "pr2:guard-?");
  (* the system handed to the PR two-system builder always carries the guard (hypothesis of C18_ms_pr2_agree) *)
  check "pr2-guard-holds" (fun () -> Printf.sprintf "before = %s does not carry the guard of after = %s" (show_cons apb) (show_cons apa)) (fun () -> guard_ok);
  (* closing a strict before/after pair can denote a smaller relation than closing its two halves (MS_2): then only
     MS => PR is required *)
  let rel_same = if mode = "one" then Some true else timed (fun () -> equiv_cons (nat (2 * n)) rel_pr ap) in
  if rel_same = Some false then bump "pr2:closed-relations-differ";
  (* n as the C++ computes it *)
  let nn = ap_dim / 2 in
  if nn <> n then bump "n-from-cs-differs";
  let m = List.length ap in
  bump ("rows:" ^ string_of_int (min m 9));
  (* (i-b) the encodings *)
  let (m1, m2) = fill_constraint_systems_MS (nat nn) ap false in
  let msj = ms_mip (nat nn) ap in
  let (pro_c, pro_le) = fill_constraint_system_PR_original (nat nn) ap in
  let (pr_c, pr_le) = fill_constraint_system_PR (nat db) apb apa in
  (match get_cons o "ms1", get_cons o "ms2", get_cons o "msj" with
   | Some (d1, c1), Some (d2, c2), Some (dj, cj) ->
       tie "tie-ms1" (max d1 (nn + 1 + m)) m1 c1; tie "tie-ms2" (max d2 (nn + 3 + m)) m2 c2; tie "tie-msj" (max dj (nn + 3 + 2 * m)) msj cj
   | _ -> fail "tie-ms" "missing ms1/ms2/msj");
  (match get_cons o "pro", get_vec o "prole" with
   | Some (d, c), Some (_, b, le) ->
       tie "tie-pro" (max d (2 * m)) pro_c c;
       expect "tie-pro-le" (fun () -> Printf.sprintf "model %s vs library %s" (show_zs pro_le) (show_zs le)) (b = Z0 && same_vec pro_le le)
   | _ -> fail "tie-pro" "missing pro/prole");
  let r = List.length apb and s = List.length apa in
  (match get_cons o "pr", get_vec o "prle" with
   | Some (d, c), Some (_, b, le) ->
       tie "tie-pr" (max d (s + 2 * r)) pr_c c;
       expect "tie-pr-le" (fun () -> Printf.sprintf "model %s vs library %s" (show_zs pr_le) (show_zs le)) (b = Z0 && same_vec pr_le le)
   | _ -> fail "tie-pr" "missing pr/prle");
  (* exact feasibility of each encoding (of the library's own approximated system) *)
  let f_ms = timed (fun () -> nonempty_cons (nat (nn + 3 + 2 * m)) msj) in
  let f_pro = timed (fun () -> nonempty_cons (nat (2 * m)) (pro_mip (nat nn) ap)) in
  let f_pr = timed (fun () -> nonempty_cons (nat (s + 2 * r)) (pr_mip (nat db) apb apa)) in
  let sb = function Some true -> "1" | Some false -> "0" | None -> "?" in
  (match f_ms with Some true -> bump "exists-ranking:yes" | Some false -> bump "exists-ranking:no" | None -> bump "exists-ranking:?");
  (* the three encodings must agree on feasibility (the model-level statement of "the methods agree") *)
  (match f_ms, f_pro, f_pr with
   | Some a, Some b, Some c ->
       expect "model-agree" (fun () -> Printf.sprintf "feasible: MS %b PR_original %b" a b) (a = b);
       if rel_same = None && a <> c then undecided "model-agree"
       else expect "model-agree" (fun () -> Printf.sprintf "feasible: MS %b PR_original %b PR %b" a b c) (if rel_same = Some false then (not a || c) else a = c)
   | _ -> undecided "model-agree");
  (* (iii) verdicts *)
  let verdict tag f =
    match get_bool o tag with
    | None -> if not (Hashtbl.mem o ("exn:" ^ tag)) then fail ("verdict-" ^ tag) "missing"
    | Some v ->
        bump (Printf.sprintf "verdict:%s=%d" tag (if v then 1 else 0));
        (match f with
         | Some e -> expect ("verdict-" ^ tag) (fun () -> Printf.sprintf "library says %b, exact feasibility of the encoding says %b" v e) (v = e)
         | None -> undecided ("verdict-" ^ tag)) in
  verdict "t_MS" f_ms; verdict "tc_MS" f_ms;
  verdict "t_PR" (if mode = "one" then f_pro else f_pr);
  verdict "tc_PRO" f_pro; verdict "tc_PR" f_pr;
  (* (iv) all verdicts equal *)
  let pr2_tags = if mode = "one" then ["tc_PR"] else ["t_PR"; "tc_PR"] in
  let vs = List.filter_map (fun t -> match get_bool o t with Some v -> Some (t, v) | None -> None) ["t_MS"; "t_PR"; "tc_MS"; "tc_PRO"; "tc_PR"] in
  let show_vs () = String.concat " " (List.map (fun (t, v) -> Printf.sprintf "%s=%b" t v) vs) in
  let main = List.filter (fun (t, _) -> not (List.mem t pr2_tags)) vs and pr2 = List.filter (fun (t, _) -> List.mem t pr2_tags) vs in
  (match main with
   | (_, v0) :: _ ->
       expect "agree" show_vs (List.for_all (fun (_, v) -> v = v0) main);
       List.iter (fun (t, v) ->
         if v = v0 then expect "agree" show_vs true
         else if rel_same = None then undecided "agree"
         else expect "agree" show_vs (rel_same = Some false && v && not v0)) pr2
   | [] -> ());
  (* (ii) returned functions *)
  let gl_of (g : gen) = g.gco in
  let one_ms tag vtag =
    match get_gen o tag with
    | None -> if not (Hashtbl.mem o ("exn:" ^ tag)) then fail ("mu-" ^ tag) "missing"
    | Some (b, d, g) ->
        (match get_bool o vtag with Some v -> expect ("one-vs-test-" ^ tag) (fun () -> Printf.sprintf "%s=%b but %s=%b" tag b vtag v) (b = v) | None -> ());
        (match g with
         | None -> ()
         | Some g ->
             if d <> n + 1 then bump ("mu-dim-differs:" ^ tag);
             expect ("mu-kind-" ^ tag) (fun () -> g.gk) (g.gk = "p" && zpos g.gdiv);
             check ("mu-" ^ tag) (fun () -> Printf.sprintf "mu = (%s)/%s is not a ranking function (bound 0, decrease 1) of %s" (show_zs g.gco) (string_of_z g.gdiv) (show_cons rel))
               (fun () -> check_rank (nat n) rel (gl_of g) g.gdiv)) in
  let one_pr tag vtag =
    match get_gen o tag with
    | None -> if not (Hashtbl.mem o ("exn:" ^ tag)) then fail ("mu-" ^ tag) "missing"
    | Some (b, d, g) ->
        (match get_bool o vtag with Some v -> expect ("one-vs-test-" ^ tag) (fun () -> Printf.sprintf "%s=%b but %s=%b" tag b vtag v) (b = v) | None -> ());
        (match g with
         | None -> ()
         | Some g ->
             if d <> n + 1 then bump ("mu-dim-differs:" ^ tag);
             expect ("mu-kind-" ^ tag) (fun () -> g.gk) (g.gk = "p" && zpos g.gdiv);
             check ("mu-" ^ tag) (fun () -> Printf.sprintf "mu = (%s) is not bounded below and decreasing by a positive amount on %s" (show_zs g.gco) (show_cons rel))
               (fun () -> check_weak (nat n) rel (gl_of g) true);
             (* the PR point comes from le <= -1: the decrease is at least 1 (times the neglected divisor) *)
             check ("mu1-" ^ tag) (fun () -> Printf.sprintf "mu = (%s) does not decrease by 1 on %s" (show_zs g.gco) (show_cons rel))
               (fun () -> check_decr (nat n) rel (gl_of g) z1)) in
  one_ms "o_MS" "t_MS"; one_ms "oc_MS" "tc_MS";
  one_pr "o_PR" "t_PR"; one_pr "oc_PRO" "tc_PRO"; one_pr "oc_PR" "tc_PR";
  (* spaces *)
  let space_ms tag public feas =
    match get_space o tag with
    | None -> if not (Hashtbl.mem o ("exn:" ^ tag)) then fail ("space-" ^ tag) "missing"
    | Some (d, e, gs, cs) ->
        if d <> n + 1 then bump ("space-dim-differs:" ^ tag);
        bump (Printf.sprintf "space:%s:%s" tag (if e then "empty" else "nonempty"));
        List.iter (fun g ->
          let what = Printf.sprintf "generator %s (%s)/%s of the space is not ranking on %s" g.gk (show_zs g.gco) (string_of_z g.gdiv) (show_cons rel) in
          match g.gk with
          | "p" -> check ("space-point-" ^ tag) (fun () -> what) (fun () -> check_rank (nat n) rel g.gco g.gdiv)
          | "r" -> check ("space-ray-" ^ tag) (fun () -> what) (fun () -> check_rank (nat n) rel g.gco Z0)
          | "l" -> check ("space-line-" ^ tag) (fun () -> what) (fun () -> check_rank (nat n) rel g.gco Z0);
                   check ("space-line-" ^ tag) (fun () -> what) (fun () -> check_rank (nat n) rel (neg_l g.gco) Z0)
          | _ -> fail ("space-gen-" ^ tag) ("closure point in a closed polyhedron")) gs;
        let skip = public && (if mode = "one" then pset_empty else before_empty) in
        if not skip then begin
          (match feas with
           | Some f -> expect ("space-empty-" ^ tag) (fun () -> Printf.sprintf "space empty = %b but a ranking function exists = %b" e f) (e = not f)
           | None -> undecided ("space-empty-" ^ tag));
          (* the space is exactly the projection of the encoding *)
          check ("space-exact-" ^ tag) (fun () -> Printf.sprintf "library %s  differs from the projection of the MS system of %s" (show_cons cs) (show_cons ap))
            (fun () -> equiv_sys (nat (max d (nn + 1))) (sys_of_cons cs) (ms_space (nat nn) ap))
        end else bump ("space-universe-for-empty:" ^ tag) in
  space_ms "a_MS" true f_ms; space_ms "ac_MS" false f_ms;
  let space_pr tag public feas (model : unit -> sys) =
    match get_space o tag with
    | None -> if not (Hashtbl.mem o ("exn:" ^ tag)) then fail ("space-" ^ tag) "missing"
    | Some (d, e, gs, cs) ->
        if d <> n + 1 then bump ("space-dim-differs:" ^ tag);
        bump (Printf.sprintf "space:%s:%s" tag (if e then "empty" else "nonempty"));
        List.iter (fun g ->
          let what = Printf.sprintf "generator %s (%s)/%s of the space is not (weakly) ranking on %s" g.gk (show_zs g.gco) (string_of_z g.gdiv) (show_cons rel) in
          match g.gk with
          | "p" -> check ("space-point-" ^ tag) (fun () -> what) (fun () -> check_weak (nat n) rel g.gco true)
          | "c" -> check ("space-closure-" ^ tag) (fun () -> what) (fun () -> check_weak (nat n) rel g.gco false)
          | "r" -> check ("space-ray-" ^ tag) (fun () -> what) (fun () -> check_weak (nat n) rel g.gco false)
          | _ -> check ("space-line-" ^ tag) (fun () -> what) (fun () -> check_weak (nat n) rel g.gco false);
                 check ("space-line-" ^ tag) (fun () -> what) (fun () -> check_weak (nat n) rel (neg_l g.gco) false)) gs;
        let skip = public && (if mode = "one" then pset_empty else before_empty) in
        if not skip then begin
          (match feas with
           | Some f -> expect ("space-empty-" ^ tag) (fun () -> Printf.sprintf "space empty = %b but a ranking function exists = %b" e f) (e = not f)
           | None -> undecided ("space-empty-" ^ tag));
          (* the space is exactly the image of the projection of the encoding (mu_0 free) *)
          check ("space-exact-" ^ tag) (fun () -> Printf.sprintf "library %s  differs from the projection of the PR system of before = %s after = %s" (show_cons cs) (show_cons apb) (show_cons apa))
            (fun () -> equiv_sys (nat (max d (nn + 1))) (sys_of_cons cs) (model ()))
        end else bump ("space-universe-for-empty:" ^ tag) in
  let m_pro () = pro_space (nat nn) ap and m_pr () = pr_space (nat db) apb apa in
  space_pr "a_PR" true (if mode = "one" then f_pro else f_pr) (if mode = "one" then m_pro else m_pr);
  space_pr "ac_PRO" false f_pro m_pro; space_pr "ac_PR" false f_pr m_pr;
  (* quasi ranking functions: decreasing / bounded separately *)
  let space_q tag which =
    match get_space o tag with
    | None -> ()
    | Some (d, e, gs, _) ->
        List.iter (fun g ->
          let what = Printf.sprintf "generator %s (%s)/%s of the %s space fails on %s" g.gk (show_zs g.gco) (string_of_z g.gdiv) which (show_cons rel) in
          let one gl d0 = if which = "decreasing" then check_decr (nat n) rel gl d0 else check_bound (nat n) rel gl in
          match g.gk with
          | "p" -> check ("quasi-point-" ^ tag) (fun () -> what) (fun () -> one g.gco g.gdiv)
          | "r" -> check ("quasi-ray-" ^ tag) (fun () -> what) (fun () -> one g.gco Z0)
          | _ -> check ("quasi-line-" ^ tag) (fun () -> what) (fun () -> one g.gco Z0);
                 check ("quasi-line-" ^ tag) (fun () -> what) (fun () -> one (neg_l g.gco) Z0)) gs in
  space_q "q_MS_d" "decreasing"; space_q "q_MS_b" "bounded"; space_q "qc_MS_d" "decreasing"; space_q "qc_MS_b" "bounded";
  Printf.printf "INFO %s nonempty=%s ranking=%s strict=%b rows=%d\n" !cur_case (sb rel_nonempty) (sb f_ms) (List.exists (fun c -> c.ckd = GT) rel) m

let () =
  let casefile = Sys.argv.(1) and obsfile = Sys.argv.(2) in
  let read f = let ic = open_in f in let rec go acc = match input_line ic with l -> go (l :: acc) | exception End_of_file -> close_in ic; List.rev acc in go [] in
  let heads = Hashtbl.create 64 in
  List.iter (fun l -> match split l with "case" :: id :: dom :: mode :: n :: _ -> Hashtbl.replace heads id (dom, mode, int_of_string n) | _ -> ()) (read casefile);
  let cur : (string * obs) option ref = ref None in
  let finish () = match !cur with
    | None -> ()
    | Some (id, o) ->
        cur_case := id;
        (try let (dom, mode, n) = Hashtbl.find heads id in judge_case dom mode n o
         with Syntax s -> fail "judge-syntax" s | Not_found -> fail "judge-syntax" "unknown case" | Failure s -> fail "judge-syntax" s);
        cur := None in
  List.iter (fun l ->
    match split l with
    | "case" :: id :: _ -> finish (); cur := Some (id, Hashtbl.create 32)
    | "end" :: _ -> finish ()
    | "exn" :: tag :: rest -> (match !cur with Some (_, o) -> Hashtbl.replace o ("exn:" ^ tag) rest | None -> ())
    | tag :: rest -> (match !cur with Some (_, o) -> Hashtbl.replace o tag rest | None -> ())
    | [] -> ()) (read obsfile);
  finish ();
  Printf.printf "STAT cases %d checks %d undecided %d\n" !n_cases !n_checks !n_undec;
  Hashtbl.iter (fun k v -> Printf.printf "COV %s %d\n" k v) cov
