(* Judge for the powerset case language (C09): replays a case file on the verified generic powerset
   model (Coq: Powerset/PS.v) instantiated with the reference polyhedra (Powerset/PSPoly.v), and
   compares, step by step, with what the real library printed (harness/run_pset.cc).
   Untrusted glue: parsing, dispatch, bookkeeping.  Every verdict is a call to a verified function:
   equiv_sys / unions_equiv / unions_incl / is_difference / unions_disjoint / dd_pair.

   usage: judge_pset <casefile> <obsfile>
   output:  FAIL <case> <step> <kind> | <case line> | <detail>
            UNDECIDED <case> <step> <kind> | <case line>
            STAT steps <n> checks <n> undecided <n> cases <n> timeouts <n>
            COV <what> <count>                                                             *)
open Pset
open Zutil_pset

let split s = List.filter (fun x -> x <> "") (String.split_on_char ' ' s)
exception Syntax of string
exception Skip of string

type cur = { mutable t : string list }
let next c = match c.t with x :: r -> c.t <- r; x | [] -> raise (Syntax "missing token")
let nexti c = int_of_string (next c)
let nextz c = z_of_string (next c)
let rec take_z c n = if n = 0 then [] else let x = nextz c in x :: take_z c (n - 1)
let kind_of = function "=" -> EQ | ">=" -> GE | ">" -> GT | k -> raise (Syntax ("kind " ^ k))
let read_con c dim = let k = kind_of (next c) in let b = nextz c in let a = take_z c dim in { ccoefs = a; ccst = b; ckd = k }
let read_cons c dim = let k = nexti c in List.init k (fun _ -> read_con c dim)
let gkind_of = function "l" -> GLine | "r" -> GRay | "p" -> GPoint | "c" -> GClosure | k -> raise (Syntax ("gkind " ^ k))
let read_gen c dim = let k = gkind_of (next c) in let d = nextz c in let a = take_z c dim in { gk = k; gcoefs = a; gdiv = d }
let read_gens c dim = let k = nexti c in List.init k (fun _ -> read_gen c dim)
let read_expr_n c = let n = nexti c in let b = nextz c in let a = take_z c n in { lcoefs = a; lcst = b }
let nat = nat_of_int
let is_point g = (match g.gk with GPoint -> true | _ -> false)
let has_point gs = List.exists is_point gs
let sys_of_gens dim gs = if has_point gs then cons_of_gens (nat dim) gs else false_sys

let stats_steps = ref 0 and stats_checks = ref 0 and stats_undecided = ref 0 and stats_cases = ref 0
let cov : (string, int) Hashtbl.t = Hashtbl.create 64
let bump k = Hashtbl.replace cov k (1 + try Hashtbl.find cov k with Not_found -> 0)

(* time budget per verified call: exhausting it makes the check UNDECIDED, !hur a verdict *)
exception Timeout
let budget = ref (try float_of_string (Sys.getenv "VERIF_JUDGE_BUDGET") with _ -> 6.0)
let timeouts = ref 0
let case_timeouts = ref 0
let armed = ref false
let () = Sys.set_signal Sys.sigalrm (Sys.Signal_handle (fun _ -> if !armed then begin armed := false; raise Timeout end))
let timed (f : unit -> 'a) (dflt : 'a) : 'a =
  let stop () = armed := false; ignore (Unix.setitimer Unix.ITIMER_REAL { Unix.it_interval = 0.0; it_value = 0.0 }) in
  try
    armed := true;
    ignore (Unix.setitimer Unix.ITIMER_REAL { Unix.it_interval = 0.0; it_value = !budget });
    let r = f () in stop (); r
  with Timeout -> stop (); incr timeouts; incr case_timeouts; Gc.compact (); dflt
     | Stack_overflow | Out_of_memory -> stop (); incr timeouts; incr case_timeouts; Gc.compact (); dflt
     | e -> stop (); raise e

type verdict = Ok | Fail of string | Undecided
let of_ob expected what = function
  | Some b -> if b = expected then Ok else Fail (Printf.sprintf "%s: verified oracle says %b" what b)
  | None -> Undecided

(* ---- objects ---- *)
type obj = { topo : string; dim : int; s : pd ps }
let pool : (int, obj) Hashtbl.t = Hashtbl.create 16
let get id = try Hashtbl.find pool id with Not_found -> raise (Syntax "unknown object")
let nb o = nat (o.dim + 1)
let ent n = p_entails n and bot n = p_bottom n and top n = p_top n
let ub d n = p_ub (nat d) n and ube d n = p_ube (nat d) n
(* fact read from the source by tools/props/C09.py on every run: does the NNC specialisation of
   Pointset_Powerset::difference_assign omega-reduce its (const) argument?  (a pure optimisation; the model follows the code) *)
let diff_reduces_y = (try Sys.getenv "VERIF_C09_DIFF_REDUCES_Y" <> "0" with Not_found -> true)
(* the schedule of abandon_expensive_computations during the current step: null (never) or raised for the whole call (always) *)
let hur : (nat -> bool) ref = ref never
let omega o = { o with s = omega_reduce (ent (nb o)) (bot (nb o)) (ub o.dim (nb o)) !hur o.s }
let systems (s : pd ps) = List.map fst s.seq0
let mk l r = { seq0 = l; reduced = r }
let universe_pd dim : pd = (empty_sys, Some (List.init dim (fun i -> { gk = GLine; gcoefs = List.init dim (fun j -> if i = j then Zpos XH else Z0); gdiv = Zpos XH })
                                              @ [ { gk = GPoint; gcoefs = List.init dim (fun _ -> Z0); gdiv = Zpos XH } ]))

(* ---- state lines:  st id topo dim flag size ok | cons .. gens .. | ... ---- *)
type dj = { dcons : con list; dgens : gen list }
type st = { sid : int; stopo : string; sdim : int; sflag : bool; ssize : int; sok : bool; djs : dj list }
let parse_st line =
  match String.split_on_char '|' line with
  | [] -> raise (Syntax "empty st")
  | head :: rest ->
    let c = { t = split head } in
    if next c <> "st" then raise (Syntax ("expected st: " ^ line));
    let sid = nexti c in let stopo = next c in let sdim = nexti c in let sflag = (next c = "1") in
    let ssize = nexti c in let sok = (next c = "1") in
    let djs = List.map (fun part ->
      let c = { t = split part } in
      let dd = nexti c in
      if dd <> sdim then raise (Syntax (Printf.sprintf "a disjunct has space dimension %d inside a powerset of dimension %d" dd sdim));
      if next c <> "cons" then raise (Syntax "expected cons");
      let dcons = read_cons c sdim in
      if next c <> "gens" then raise (Syntax "expected gens");
      let dgens = read_gens c sdim in { dcons; dgens }) rest in
    { sid; stopo; sdim; sflag; ssize; sok; djs }

(* multiset matching of model disjuncts against implementation disjuncts by verified equivalence *)
let match_multiset n (model : sys list) (impl : sys list) : verdict =
  if List.length model <> List.length impl then Fail (Printf.sprintf "model has %d disjuncts, implementation %d" (List.length model) (List.length impl))
  else begin
    let avail = ref (List.mapi (fun i s -> (i, s)) impl) in
    let undec = ref false and bad = ref None in
    List.iteri (fun k m ->
      if !bad = None then begin
        let rec find = function
          | [] -> None
          | (i, s) :: r -> (match timed (fun () -> equiv_sys n m s) None with
                            | Some true -> Some i
                            | Some false -> find r
                            | None -> undec := true; find r) in
        match find !avail with
        | Some i -> avail := List.filter (fun (j, _) -> j <> i) !avail
        | None -> if not !undec then bad := Some k
      end) model;
    match !bad with
    | Some k -> Fail (Printf.sprintf "model disjunct #%d has no equal among the implementation's disjuncts" k)
    | None -> if !undec && !avail <> [] then Undecided else Ok
  end

let check_state (o : obj) (st : st) : (string * verdict) list =
  let n = nat (st.sdim + 1) in
  let impl = List.map (fun d -> sys_of_cons d.dcons) st.djs in
  let model = systems o.s in
  let dim_v = if st.sdim = o.dim then Ok else Fail (Printf.sprintf "dimension %d, model %d" st.sdim o.dim) in
  if dim_v <> Ok then [ "dim", dim_v ] else begin
    let ms = match_multiset n model impl in
    let union_v = (match ms with
      | Ok -> Ok
      | _ -> of_ob true "union of the disjuncts differs from the model's union" (timed (fun () -> unions_equiv n model impl) None)) in
    let dd = List.fold_left (fun acc d -> match acc with
      | Fail _ -> acc
      | _ -> (match timed (fun () -> dd_pair (nat st.sdim) d.dcons d.dgens) None with
              | Some true -> acc | Some false -> Fail "a disjunct's constraints and generators disagree" | None -> Undecided)) Ok st.djs in
    let wf_model = (not o.s.reduced) || (match timed (fun () -> Some (check_omega_reduced (ent n) (bot n) o.s)) None with Some b -> b | None -> true) in
    [ "union", union_v;
      "disjuncts", (match ms, union_v with Fail d, Ok -> Fail d | Fail _, _ -> Ok | v, _ -> v);
      "size", (if st.ssize = List.length model then Ok else Fail (Printf.sprintf "size() %d, model %d" st.ssize (List.length model)));
      "flag", (if st.sflag = o.s.reduced then Ok else Fail (Printf.sprintf "reduced flag %b, model %b" st.sflag o.s.reduced));
      "dd", dd;
      "OK", (if st.sok then Ok else Fail (if wf_model then "OK() returned false" else "OK() returned false: the reduced flag is set but the sequence is not omega-reduced (model agrees)")) ]
  end

let resync (st : st) =
  (* adopt the implementation's description (just verified equal as a multiset) as the new reference:
     smaller systems, and generator hints validated by dd_pair *)
  let l = List.map (fun d ->
    let ok = (match timed (fun () -> dd_pair (nat st.sdim) d.dcons d.dgens) None with Some true -> true | _ -> false) in
    ((sys_of_cons d.dcons, if ok then Some d.dgens else None) : pd)) st.djs in
  Hashtbl.replace pool st.sid { topo = st.stopo; dim = st.sdim; s = mk l st.sflag }

(* ---- reference semantics of the commands: returns the list of (id, new object) ---- *)
let read_poly c dim : pd =
  match next c with
  | "cons" -> (sys_of_cons (read_cons c dim), None)
  | "gens" -> let g = read_gens c dim in (sys_of_gens dim g, Some g)
  | "empty" -> (false_sys, Some [])
  | "universe" -> universe_pd dim
  | h -> raise (Syntax ("poly " ^ h))

let is_empty_pd n (d : pd) = (match nonempty_sys n (fst d) with Some false -> true | Some true -> false | None -> raise (Skip "undecided"))

let ref_new c topo : (int * obj) list =
  let id = nexti c in let dim = nexti c in
  let s = match next c with
    | "empty" -> mk [] true
    | "universe" -> mk [ universe_pd dim ] true
    | "poly" -> let p = read_poly c dim in
        (* Pointset_Powerset(const C_Polyhedron&) resp. (const NNC_Polyhedron&), ANY_COMPLEXITY *)
        if is_empty_pd (nat (dim + 1)) p then mk [] true else mk [ p ] (topo = "NNC")
    | "cons" -> mk [ (sys_of_cons (read_cons c dim), None) ] false
    | h -> raise (Syntax ("new " ^ h)) in
  [ id, { topo; dim; s } ]

let map_op (x : obj) (f : sys -> sys) keep = { x with s = map_assign (fun (d : pd) -> ((f (fst d), None) : pd)) keep x.s }
let in_loop_flag x = (x.s.seq0 = [])   (* `x.reduced = false' sits inside the loop over the disjuncts *)

let ref_op c : (int * obj) list * (unit -> (string * verdict) list) =
  let id = nexti c in let x = get id in let op = next c in let n = x.dim in let nbx = nb x in
  let none () = [] in
  let bin f = (let yid = nexti c in let y = get yid in
               if y.dim <> n then raise (Skip "dimension-incompatible");
               if yid = id then raise (Skip "aliased argument");
               let y' = omega y in
               [ id, { x with s = f y.s x.s }; yid, y' ], none) in
  match op with
  | "add_disjunct" -> let p = read_poly c n in [ id, { x with s = add_disjunct p x.s } ], none
  | "assign" -> let y = get (nexti c) in [ id, { y with topo = x.topo } ], none
  | "swap" -> let yid = nexti c in let y = get yid in [ id, y; yid, x ], none
  | "intersection_assign" | "meet_assign" ->
      bin (fun ys xs -> meet_assign (ent nbx) (bot nbx) (ub n nbx) p_meet !hur ys xs)
  | "upper_bound_assign" | "least_upper_bound_assign" ->
      bin (fun ys xs -> lub (ent nbx) (bot nbx) (ub n nbx) !hur ys xs)
  | "concatenate_assign" ->
      let yid = nexti c in let y = get yid in
      if yid = id then raise (Skip "aliased argument");
      (* both operands are omega-reduced first, each in its own space (afterwards their flags are set, so the
         reductions inside concatenate_ps are the identity) *)
      let x1 = omega x and y1 = omega y in
      let nd = n + y.dim in let nbz = nat (nd + 1) in
      let r = concatenate_ps (ent nbz) (bot nbz) (ub nd nbz)
                (fun (a : pd) (b : pd) -> ((concatenate (nat n) (fst a) (fst b), None) : pd))
                (ub n nbz) (ub y.dim nbz) !hur y1.s x1.s in
      [ id, { x with dim = nd; s = r }; yid, y1 ], none
  | "add_constraint" | "refine_with_constraint" ->
      let k = read_con c n in
      if op = "add_constraint" && x.topo = "C" && k.ckd = GT then raise (Skip "strict constraint into a C polyhedron");
      let k = if x.topo = "C" && k.ckd = GT then { k with ckd = GE } else k in
      [ id, map_op x (fun s -> union_sys s (sys_of_cons [ k ])) false ], none
  | "add_constraints" | "refine_with_constraints" ->
      let ks = read_cons c n in
      if op = "add_constraints" && x.topo = "C" && List.exists (fun k -> k.ckd = GT) ks then raise (Skip "strict constraint into a C polyhedron");
      let ks = if x.topo = "C" then List.map (fun k -> if k.ckd = GT then { k with ckd = GE } else k) ks else ks in
      [ id, map_op x (fun s -> union_sys s (sys_of_cons ks)) false ], none
  | "affine_image" | "affine_preimage" ->
      let v = nexti c in let d = nextz c in let e = read_expr_n c in
      if d = Z0 || v >= n || List.length e.lcoefs > n then raise (Skip "ill-formed");
      [ id, map_op x ((if op = "affine_image" then j_affine_image else j_affine_preimage) (nat v) (nat n) e d) (in_loop_flag x) ], none
  | "unconstrain" -> let v = nexti c in if v >= n then raise (Skip "ill-formed");
      [ id, map_op x (unconstrain (nat v)) (in_loop_flag x) ], none
  | "add_space_dimensions_and_embed" -> let m = nexti c in [ id, { x with dim = n + m } ], none
  | "add_space_dimensions_and_project" -> let m = nexti c in
      [ id, { (map_op x (project_dims (nat n) (nat m)) true) with dim = n + m } ], none
  | "remove_higher_space_dimensions" -> let k = nexti c in if k > n then raise (Skip "ill-formed");
      if k = n then [ id, x ], none
      else [ id, { (map_op x (j_remove_higher (nat k) (nat n)) (in_loop_flag x)) with dim = k } ], none
  | "remove_space_dimensions" ->
      let k = nexti c in let vs = List.init k (fun _ -> nexti c) in
      if List.exists (fun v -> v >= n) vs then raise (Skip "ill-formed");
      if k = 0 then [ id, x ], none else begin
        let cnt = ref 0 in
        let pf = List.init n (fun i -> if List.mem i vs then None else (let j = !cnt in incr cnt; Some (nat j))) in
        [ id, { (map_op x (map_dims pf (nat (n + 1))) (in_loop_flag x)) with dim = !cnt } ], none end
  | "expand_space_dimension" -> let v = nexti c in let m = nexti c in if v >= n then raise (Skip "ill-formed");
      [ id, { (map_op x (expand (nat v) (nat n) (nat m)) true) with dim = n + m } ], none
  | "map_space_dimensions" ->
      let k = nexti c in let m = List.init k (fun _ -> nexti c) in
      if k <> n then raise (Skip "partial function arity");
      let x1 = omega x in    (* x.is_bottom() omega-reduces *)
      let pf = List.map (fun j -> if j < 0 then None else Some (nat j)) m in
      let newdim = List.fold_left (fun a j -> if j >= 0 then max a (j + 1) else a) 0 m in
      if x1.s.seq0 = [] then [ id, { x1 with dim = List.length (List.filter (fun j -> j >= 0) m) } ], none
      else [ id, { (map_op x1 (map_dims pf (nat (max n newdim + 1))) false) with dim = newdim } ], none
  | "topological_closure_assign" ->
      (* the closure of a non-empty polyhedron is its relaxation (PolyOps.relax_least); the closure of the empty set is empty *)
      let close s = (match nonempty_sys nbx s with Some true -> relax s | Some false -> false_sys | None -> raise (Skip "undecided emptiness")) in
      [ id, map_op x close false ], none     (* ClosureAssign: `reduced' is cleared (since /repo fd3faff) *)
  | ("pairwise_reduce" | "collapse" | "collapse_all") when List.exists (fun (d : pd) -> snd d = None) x.s.seq0 ->
      raise (Skip "a disjunct has no validated generator hint")
  | "omega_reduce" -> [ id, omega x ], none
  | "pairwise_reduce" -> [ id, { x with s = pairwise_reduce (ent nbx) (bot nbx) (ub n nbx) (ube n nbx) !hur x.s } ], none
  | "collapse" -> let m = nexti c in if m <= 0 then raise (Skip "ill-formed");
      [ id, { x with s = collapse_n (ent nbx) (bot nbx) (ub n nbx) !hur (nat m) x.s } ], none
  | "collapse_all" -> [ id, { x with s = collapse_all (ent nbx) (ub n nbx) x.s } ], none
  | "add_non_bottom_disjunct_preserve_reduction" ->
      let p = read_poly c n in
      [ id, { x with s = mk (add_end (ent nbx) x.s.seq0 p) x.s.reduced } ], none
  | "drop_disjunct" -> let k = nexti c in
      [ id, { x with s = mk (List.filteri (fun i _ -> i <> k) x.s.seq0) x.s.reduced } ], none
  | "mutate_disjunct" -> let k = nexti c in let kc = read_con c n in
      [ id, { x with s = mk (List.mapi (fun i (d : pd) -> if i = k then ((union_sys (fst d) (sys_of_cons [ kc ]), None) : pd) else d) x.s.seq0) false } ], none
  | _ -> raise (Skip ("op " ^ op))

(* queries: expected answer (verified) and the state changes the call makes *)
let ref_query c (ans : string list) : (int * obj) list * (string * verdict) list =
  let id = nexti c in let x = get id in let q = next c in let nbx = nb x in let n = x.dim in
  let ansb () = match ans with [ "ans"; "b"; v ] -> v = "1" | _ -> raise (Syntax "expected ans b") in
  let cmp name r = [ name, (match timed (fun () -> Lazy.force r) None with
    | Some b -> if b = ansb () then Ok else Fail (Printf.sprintf "implementation %b, verified reference %b" (ansb ()) b)
    | None -> Undecided) ] in
  let sound name r = [ name, (if not (ansb ()) then Ok else match timed (fun () -> Lazy.force r) None with
    | Some true -> Ok | Some false -> Fail "implementation answers true, verified reference: false" | None -> Undecided) ] in
  let arg () = let yid = nexti c in let y = get yid in if y.dim <> n then raise (Skip "dimension-incompatible"); yid, y in
  match q with
  | "is_empty" -> [], cmp q (lazy (unions_incl nbx (systems x.s) []))
  | "is_bottom" ->
      let (s', b) = is_bottom_ps (ent nbx) (bot nbx) (ub n nbx) !hur x.s in
      [ id, { x with s = s' } ], cmp "is_bottom_model" (lazy (Some b)) @ cmp "is_bottom_geometric" (lazy (unions_incl nbx (systems x.s) []))
  | "is_top" ->
      let (s', b) = is_top_ps (ent nbx) (bot nbx) (ub n nbx) (top nbx) !hur x.s in
      [ id, { x with s = s' } ], cmp "is_top_model" (lazy (Some b)) @ sound "is_top_sound" (lazy (unions_incl nbx [ empty_sys ] (systems x.s)))
  | "is_universe" ->
      (* transcription of Pointset_Powerset::is_universe including its speculative reduction *)
      let (s1, r) = is_omega_reduced (ent nbx) (bot nbx) x.s in
      let upd, b =
        if r then [ id, { x with s = s1 } ], (match s1.seq0 with [ d ] -> top nbx d | _ -> false)
        else if List.exists (top nbx) s1.seq0 then
          (if List.length s1.seq0 > 1 then [ id, { x with s = mk [ universe_pd n ] true } ] else [ id, { x with s = s1 } ]), true
        else [ id, { x with s = s1 } ], false in
      upd, cmp "is_universe_model" (lazy (Some b)) @ sound "is_universe_sound" (lazy (unions_incl nbx [ empty_sys ] (systems x.s)))
  | "size" -> (match ans with
      | [ "ans"; "n"; v ] -> [], [ "size", if int_of_string v = List.length x.s.seq0 then Ok else Fail "size() differs from the model" ]
      | _ -> raise (Syntax "expected ans n"))
  | "OK" -> [], [ "OK", if ansb () then Ok else Fail "OK() returned false" ]
  | "contains" -> let _, y = arg () in
      [], cmp "contains_model" (lazy (Some (definitely_entails (ent nbx) y.s x.s)))
          @ sound "contains_geometric" (lazy (unions_incl nbx (systems y.s) (systems x.s)))
  | "definitely_entails" -> let _, y = arg () in
      [], cmp "entails_model" (lazy (Some (definitely_entails (ent nbx) x.s y.s)))
          @ sound "entails_geometric" (lazy (unions_incl nbx (systems x.s) (systems y.s)))
  | "geometrically_covers" -> let _, y = arg () in [], cmp q (lazy (unions_incl nbx (systems y.s) (systems x.s)))
  | "geometrically_equals" -> let _, y = arg () in [], cmp q (lazy (unions_equiv nbx (systems x.s) (systems y.s)))
  | "is_disjoint_from" -> let _, y = arg () in [], cmp q (lazy (unions_disjoint nbx (systems x.s) (systems y.s)))
  | "equals" -> let yid, y = arg () in
      if yid = id then raise (Skip "aliased");
      [ id, omega x; yid, omega y ], sound "equals_sound" (lazy (unions_equiv nbx (systems x.s) (systems y.s)))
  | "strictly_contains" -> let yid, y = arg () in
      if yid = id then raise (Skip "aliased");
      let ((x', y'), b) = strictly_contains_ps (ent nbx) (bot nbx) (ub n nbx) (p_sc nbx) !hur x.s y.s in
      [ id, { x with s = x' }; yid, { y with s = y' } ],
      cmp "strictly_contains_model" (lazy (Some b)) @ sound "strictly_contains_sound" (lazy (unions_incl nbx (systems y.s) (systems x.s)))
  | _ -> raise (Skip ("query " ^ q))


(* ------------------------------------------------------------------------------------------------------------------------
   Pointset_Powerset<Grid> (cases `case <id> G'): no model run; the geometric predicates and the difference are judged against
   the verified grid reference: candidate points of a grid come from the verified generators of its congruence system
   (j_grid_gens), membership of a rational point in a congruence is decided by mem_pcg_b (proved exact), inclusion of one
   grid in another by j_grid_incl (proved exact).  A `true' of geometrically_covers / geometrically_equals / check_containment
   is refuted by a point of the target outside every disjunct of the cover; a `false' is refuted when every target disjunct
   is included in a single cover disjunct. *)
type gdj = { gempty : bool; gcgs : pcg list }
let gpool : (int, int * gdj list) Hashtbl.t = Hashtbl.create 8
let read_pcg c dim = let m = nextz c in let b = nextz c in let a = take_z c dim in { ge = { lcoefs = a; lcst = b }; gm = m }
let read_pcgs c dim = let k = nexti c in List.init k (fun _ -> read_pcg c dim)
let parse_gst line =
  match String.split_on_char '|' line with
  | [] -> raise (Syntax "empty st")
  | head :: rest ->
    let c = { t = split head } in
    if next c <> "st" then raise (Syntax ("expected st: " ^ line));
    let id = nexti c in ignore (next c); let dim = nexti c in ignore (next c); ignore (next c); let ok = (next c = "1") in
    let djs = List.map (fun part -> let c = { t = split part } in
      let d = nexti c in if d <> dim then raise (Syntax "grid disjunct of another dimension");
      let e = (next c = "1") in
      if next c <> "cgs" then raise (Syntax "expected cgs");
      { gempty = e; gcgs = read_pcgs c dim }) rest in
    (id, dim, ok, djs)
let gq n = inject_Z (z_of_int n)
let gfrac n d = j_qmake (z_of_int n) (match z_of_int d with Zpos p -> p | _ -> XH)
let rec gpad n l = if n <= 0 then [] else match l with [] -> gq 0 :: gpad (n - 1) [] | x :: r -> x :: gpad (n - 1) r
let gvadd a b = List.map2 j_qadd a b
let gvscale k a = List.map (j_qmul k) a
let grid_samples dim (d : gdj) : q list list =
  if d.gempty then [] else
  match timed (fun () -> j_grid_gens (nat dim) d.gcgs) None with
  | None -> []
  | Some gens ->
    let pts = List.filter_map (function QPoint v -> Some (gpad dim v) | _ -> None) gens in
    let pars = List.filter_map (function QParam v -> Some (gpad dim v) | _ -> None) gens in
    let lins = List.filter_map (function QLine v -> Some (gpad dim v) | _ -> None) gens in
    (match pts with
     | [] -> []
     | p0 :: _ ->
       let ks = if List.length pars <= 2 then [ -2; -1; 0; 1; 2; 3 ] else [ -1; 0; 1; 2 ] in
       let ts = if List.length lins <= 1 then [ gq (-1); gfrac (-1) 2; gq 0; gfrac 1 3; gfrac 1 2; gq 1; gfrac 3 2; gq 2 ]
                else [ gq 0; gfrac 1 2; gq 1; gfrac (-1) 3 ] in
       let acc = ref [ p0 ] in
       List.iter (fun g -> acc := List.concat_map (fun p -> List.map (fun k -> gvadd p (gvscale (gq k) g)) ks) !acc) pars;
       List.iter (fun g -> acc := List.concat_map (fun p -> List.map (fun t -> gvadd p (gvscale t g)) ts) !acc) lins;
       !acc)
let mem_gdj (d : gdj) p = (not d.gempty) && List.for_all (fun g -> mem_pcg_b g p) d.gcgs
let gcovered (djs : gdj list) p = List.exists (fun d -> mem_gdj d p) djs
let gstr p = "(" ^ String.concat "," (List.map (fun (x : q) -> let x = qred x in string_of_z x.qnum ^ (if x.qden = XH then "" else "/" ^ string_of_z (Zpos x.qden))) p) ^ ")"
(* root cause of a known defect: approximate_partition_aux (Pointset_Powerset.cc:141-160) enumerates the residues 0..m-1 of a cover
   congruence e = 0 (mod m) as INTEGERS; when the target grid is discrete along e but e takes non-integer values on it, those
   pieces are missing from the `partition'.  Condition checked on the verified generators of the target. *)
let partition_defect dim (ts : gdj list) (xs : gdj list) =
  let lin_h (e : lin) v = List.fold_left j_qadd (gq 0) (List.mapi (fun i a -> if i < List.length v then j_qmul (inject_Z a) (List.nth v i) else gq 0) e.lcoefs) in
  let is_int (x : q) = ((qred x).qden = XH) in
  List.exists (fun (t : gdj) -> (not t.gempty) &&
    (match timed (fun () -> j_grid_gens (nat dim) t.gcgs) None with
     | None -> false
     | Some gens ->
       let lins = List.filter_map (function QLine v -> Some (gpad dim v) | _ -> None) gens in
       let others = List.filter_map (function QPoint v -> Some (true, gpad dim v) | QParam v -> Some (false, gpad dim v) | _ -> None) gens in
       List.exists (fun (x : gdj) -> List.exists (fun (c : pcg) -> c.gm <> Z0 &&
         List.for_all (fun l -> qeq_bool (lin_h c.ge l) (gq 0)) lins &&
         List.exists (fun (isp, v) -> not (is_int (if isp then j_qadd (lin_h c.ge v) (inject_Z c.ge.lcst) else lin_h c.ge v))) others) x.gcgs) xs)) ts
let ptag dim ts xs = if partition_defect dim ts xs then "[approximate-partition-integer-residues] " else ""
(* a point of the union [ts] outside the union [xs] *)
let gwitness dim (ts : gdj list) (xs : gdj list) = List.find_opt (fun p -> not (gcovered xs p)) (List.concat_map (grid_samples dim) ts)
(* every disjunct of ts included in one disjunct of xs (exact, sufficient for coverage) *)
let gincl_disjunctwise dim (ts : gdj list) (xs : gdj list) =
  List.for_all (fun t -> t.gempty || (match timed (fun () -> j_grid_empty (nat dim) t.gcgs) None with Some true -> true | _ -> false)
    || List.exists (fun x -> (not x.gempty) && (match timed (fun () -> j_grid_incl (nat dim) t.gcgs x.gcgs) None with Some true -> true | _ -> false)) xs) ts

(* ---- copy-on-write handles against the heap model ---- *)
type hobs = { loc : int; refs_ : int; hcons : con list }
let parse_cst line dim_of =
  match String.split_on_char '|' line with
  | [] -> raise (Syntax "cst")
  | _ :: rest -> List.map (fun part -> match split part with
      | [ "-" ] -> None
      | l :: r :: "cons" :: _ as toks ->
          let c = { t = toks } in ignore (next c); ignore (next c); ignore (next c);
          let k = nexti c in
          let dim = (if k = 0 then 0 else (List.length c.t / k) - 2) in
          ignore dim_of;
          Some { loc = int_of_string l; refs_ = int_of_string r; hcons = List.init k (fun _ -> read_con c dim) }
      | _ -> raise (Syntax ("cst part: " ^ part))) rest

let () =
  let casefile = Sys.argv.(1) and obsfile = Sys.argv.(2) in
  let ic = open_in casefile and io = open_in obsfile in
  let rdo () = try Some (input_line io) with End_of_file -> None in
  let rdo1 () = match rdo () with Some l -> l | None -> raise (Syntax "observation file ended early") in
  let case = ref "?" and topo = ref "C" and step = ref 0 and dead = ref false in
  let cow_hist : sys cmd list ref = ref [] and cow_n = ref 0 and cow_dim = ref 1 in
  let report kind line v =
    incr stats_checks;
    match v with
    | Ok -> ()
    | Fail d -> Printf.printf "FAIL %s %d %s | %s | %s\n" !case !step kind line d
    | Undecided -> incr stats_undecided; Printf.printf "UNDECIDED %s %d %s | %s\n" !case !step kind line in
  let raw_lines : (int, string) Hashtbl.t = Hashtbl.create 8 and last_line : (int, string) Hashtbl.t = Hashtbl.create 8 in
  let tainted = ref false in
  let parse_keep l = let st = parse_st l in Hashtbl.replace raw_lines st.sid l; st in
  let bad_state : string option ref = ref None in
  let parse_keep l = (try Some (parse_keep l) with Syntax m | Failure m -> bad_state := Some m; None) in
  let read_states () =
    let rec loop acc = match rdo1 () with
      | "endst" -> List.rev acc
      | l when String.length l > 13 && String.sub l 0 13 = "HARNESS-ERROR" -> Printf.printf "HARNESS %s\n" l; exit 3
      | l -> (match parse_keep l with Some st -> loop (st :: acc) | None -> loop acc) in
    loop [] in
  (* compare every object with the model, then resynchronise.  An object whose printed state is
     textually the one already judged, and which the model did not touch in this step, is not judged again.
     Once a flag-lies OK() failure that the model reproduces has been reported in a case, its
     inherited repetitions (copies, later steps on the same object) are not reported again. *)
  let judge_states ?(touched = []) opname line (sts : st list) =
    let failed = ref false in
    List.iter (fun st ->
      match (try Some (get st.sid) with Syntax _ -> None) with
      | None -> ()
      | Some o ->
        let raw = (try Hashtbl.find raw_lines st.sid with Not_found -> "") in
        if (try Hashtbl.find last_line st.sid = raw with Not_found -> false) && not (List.mem st.sid touched) then bump "state-unchanged-skipped"
        else begin
          let vs = check_state o st in
          List.iter (fun (k, v) ->
            let inherited = (k = "OK" && (match v with Fail d -> String.length d > 25 && !tainted | _ -> false)) in
            if not inherited then report (opname ^ "/" ^ k) (line ^ " @obj " ^ string_of_int st.sid) v;
            (match v with Fail d when k = "OK" && String.length d > 25 -> tainted := true | _ -> ());
            (match v with Fail _ when k <> "OK" -> failed := true | _ -> ())) vs;
          Hashtbl.replace last_line st.sid raw
        end) sts;
    if !failed then dead := true else List.iter (fun st -> resync st) sts in
  (try
    while true do
      let line = input_line ic in
      let toks = split line in
      let toks, hurried = (match toks with "hurry" :: r -> r, true | _ -> toks, false) in
      hur := (if hurried then always else never);
      if hurried then bump "hurry-steps";
      if !topo = "G" && (match toks with ("new" | "copy" | "op" | "qry") :: _ -> true | _ -> false) then begin
        (* ---- a step of a grid-powerset case ---- *)
        incr step; incr stats_steps;
        let resp = split (rdo1 ()) in
        let rec rd acc = (match rdo1 () with "endst" -> List.rev acc | l -> rd (l :: acc)) in
        let raw = rd [] in
        (try
          let sts = List.map parse_gst raw in
          let getg id = (try Hashtbl.find gpool id with Not_found -> raise (Syntax "unknown grid object")) in
          let kname = (match toks with c0 :: _ :: o :: _ -> c0 ^ ":" ^ o | c0 :: _ -> c0 | [] -> "?") in
          bump ("grid-" ^ kname);
          (match resp with
           | ("res" | "ans") :: "exn" :: cls :: _ -> report (kname ^ "/exception") line (Fail ("unexpected exception " ^ cls))
           | _ ->
             (match toks with
              | "qry" :: ids :: q :: rest ->
                let (dim, xs) = getg (int_of_string ids) in
                let ans = (match resp with [ "ans"; "b"; v ] -> v = "1" | _ -> raise (Syntax "expected ans b")) in
                let judge_cover what (target : gdj list) (cover : gdj list) =
                  if ans then (match gwitness dim target cover with
                    | Some p -> report (kname ^ "/" ^ what) line (Fail (ptag dim target cover ^ "answered true, but the point " ^ gstr p ^ " of the target lies outside every disjunct of the cover"))
                    | None -> report (kname ^ "/" ^ what) line Ok)
                  else (if gincl_disjunctwise dim target cover then report (kname ^ "/" ^ what) line (Fail "answered false, but every target disjunct is included in a disjunct of the cover")
                        else report (kname ^ "/" ^ what) line Ok) in
                (match q with
                 | "geometrically_covers" -> let (_, ys) = getg (int_of_string (List.hd rest)) in judge_cover "covers" ys xs
                 | "check_containment" -> let c = { t = rest } in
                     let g = (match next c with "cgs" -> { gempty = false; gcgs = read_pcgs c dim } | "empty" -> { gempty = true; gcgs = [] } | _ -> { gempty = false; gcgs = [] }) in
                     judge_cover "containment" [ g ] xs
                 | "geometrically_equals" -> let (_, ys) = getg (int_of_string (List.hd rest)) in
                     if ans then begin
                       (match gwitness dim ys xs with Some p -> report (kname ^ "/equals") line (Fail (ptag dim ys xs ^ "answered true, but " ^ gstr p ^ " is in the argument only")) | None -> report (kname ^ "/equals") line Ok);
                       (match gwitness dim xs ys with Some p -> report (kname ^ "/equals") line (Fail (ptag dim xs ys ^ "answered true, but " ^ gstr p ^ " is in the receiver only")) | None -> report (kname ^ "/equals") line Ok)
                     end else if gincl_disjunctwise dim xs ys && gincl_disjunctwise dim ys xs then report (kname ^ "/equals") line (Fail "answered false, but each side is included disjunct-wise in the other")
                     else report (kname ^ "/equals") line Ok
                 | "contains" -> let (_, ys) = getg (int_of_string (List.hd rest)) in
                     if ans then (match gwitness dim ys xs with Some p -> report (kname ^ "/contains") line (Fail ("answered true, but " ^ gstr p ^ " of the argument is outside")) | None -> report (kname ^ "/contains") line Ok)
                 | "is_disjoint_from" -> let (_, ys) = getg (int_of_string (List.hd rest)) in
                     if ans then (match List.find_opt (fun p -> gcovered ys p) (List.concat_map (grid_samples dim) xs) with
                       | Some p -> report (kname ^ "/disjoint") line (Fail ("answered disjoint, common point " ^ gstr p)) | None -> report (kname ^ "/disjoint") line Ok)
                 | _ -> ())
              | "op" :: ids :: "difference_assign" :: y :: _ ->
                let id = int_of_string ids in
                let (dim, x0) = getg id in let (_, y0) = getg (int_of_string y) in
                (match List.find_opt (fun (i, _, _, _) -> i = id) sts with
                 | Some (_, _, _, r) ->
                   (match List.find_opt (fun p -> not (gcovered y0 p) && not (gcovered r p)) (List.concat_map (grid_samples dim) x0) with
                    | Some p -> report (kname ^ "/lost") line (Fail (ptag dim x0 y0 ^ "the point " ^ gstr p ^ " of x minus y is not in the result"))
                    | None -> report (kname ^ "/lost") line Ok);
                   (match gwitness dim r x0 with
                    | Some p -> report (kname ^ "/gained") line (Fail ("the point " ^ gstr p ^ " of the result is not in x")) | None -> report (kname ^ "/gained") line Ok)
                 | None -> ())
              | "op" :: ids :: "omega_reduce" :: _ | "op" :: ids :: "pairwise_reduce" :: _ ->
                let id = int_of_string ids in let (dim, x0) = getg id in
                (match List.find_opt (fun (i, _, _, _) -> i = id) sts with
                 | Some (_, _, _, r) ->
                   (match gwitness dim x0 r with Some p -> report (kname ^ "/union") line (Fail ("the point " ^ gstr p ^ " was lost")) | None -> report (kname ^ "/union") line Ok);
                   (match gwitness dim r x0 with Some p -> report (kname ^ "/union") line (Fail ("the point " ^ gstr p ^ " was added")) | None -> report (kname ^ "/union") line Ok)
                 | None -> ())
              | _ -> ()));
          List.iter (fun (id, dim, ok, djs) ->
            if not ok then report (kname ^ "/OK") (line ^ " @obj " ^ string_of_int id) (Fail "OK() returned false");
            Hashtbl.replace gpool id (dim, djs)) sts
        with Syntax m | Failure m -> report "grid/judge-syntax" line (Fail m))
      end else begin
      if !case_timeouts >= 3 && not !dead then begin dead := true; bump "case-abandoned-after-3-timeouts" end;
      (match toks with
       | [] -> ()
       | t :: _ when t.[0] = '#' -> ()
       | "case" :: id :: tp :: _ -> case := id; topo := tp; step := 0; dead := false; Hashtbl.reset pool; incr stats_cases;
           cow_hist := []; cow_n := 0; case_timeouts := 0; Hashtbl.reset raw_lines; Hashtbl.reset last_line; Hashtbl.reset gpool; tainted := false; ignore (rdo ())
       | "end" :: _ -> ignore (rdo ())
       | "cw" :: rest ->
           incr step; incr stats_steps;
           let ol = rdo1 () in
           if not !dead then begin
             let c = { t = rest } in
             let op = next c in
             bump ("cw:" ^ op);
             (match op with
              | "slots" -> cow_n := nexti c; cow_hist := []
              | "new" -> let h = nexti c in let dim = nexti c in cow_dim := dim; let p = read_poly c dim in cow_hist := !cow_hist @ [ New (nat h, fst p) ]
              | "copy" -> let h = nexti c in let k = nexti c in cow_hist := !cow_hist @ [ Copy (nat h, nat k) ]
              | "assign" -> let h = nexti c in let k = nexti c in cow_hist := !cow_hist @ [ Assign (nat h, nat k) ]
              | "swap" -> let h = nexti c in let k = nexti c in cow_hist := !cow_hist @ [ Swap (nat h, nat k) ]
              | "mutate" -> let h = nexti c in let kc = read_con c !cow_dim in
                  cow_hist := !cow_hist @ [ Mutate (nat h, (fun s -> union_sys s (sys_of_cons [ kc ]))) ]
              | "read" -> ()
              | "destroy" -> let h = nexti c in cow_hist := !cow_hist @ [ Destroy (nat h) ]
              | _ -> raise (Syntax ("cw " ^ op)));
             let obs = parse_cst ol () in
             let stm = run_cow (nat !cow_n) !cow_hist in
             let vals = run_values (nat !cow_n) !cow_hist in
             let n = nat (!cow_dim + 1) in
             (* sharing pattern: the same Rep in the implementation iff the same location in the model *)
             let mloc h = (match Pset.get (hs stm) (nat h) with Some l -> Some (int_of_nat l) | None -> None) in
             let arr = Array.of_list obs in
             let v_share = ref Ok and v_refs = ref Ok and v_val = ref Ok and v_vs = ref Ok in
             Array.iteri (fun h o ->
               (match o, mloc h with
                | None, None -> ()
                | Some ob, Some l ->
                    Array.iteri (fun k o2 -> match o2, mloc k with
                      | Some ob2, Some l2 -> if (ob.loc = ob2.loc) <> (l = l2) then v_share := Fail (Printf.sprintf "handles %d and %d: sharing differs from the heap model" h k)
                      | _ -> ()) arr;
                    (match heap stm (nat_of_int l) with
                     | Some r -> if int_of_nat r.refs <> ob.refs_ then v_refs := Fail (Printf.sprintf "handle %d: references %d, model %d" h ob.refs_ (int_of_nat r.refs));
                                 (match timed (fun () -> equiv_sys n (sys_of_cons ob.hcons) r.pset) None with
                                  | Some true -> () | Some false -> v_val := Fail (Printf.sprintf "handle %d reads a value different from the heap model's" h)
                                  | None -> if !v_val = Ok then v_val := Undecided)
                     | None -> v_refs := Fail "model: dangling handle");
                    (match read_val vals (nat h) with
                     | Some v -> (match timed (fun () -> equiv_sys n (sys_of_cons ob.hcons) v) None with
                                  | Some true -> () | Some false -> v_vs := Fail (Printf.sprintf "handle %d: value differs from value semantics (a copy was affected by a mutation of another handle)" h)
                                  | None -> if !v_vs = Ok then v_vs := Undecided)
                     | None -> v_vs := Fail "value model: dead handle")
                | _ -> v_share := Fail (Printf.sprintf "handle %d: liveness differs" h))) arr;
             report ("cw:" ^ op ^ "/sharing") line !v_share; report ("cw:" ^ op ^ "/refcount") line !v_refs;
             report ("cw:" ^ op ^ "/value") line !v_val; report ("cw:" ^ op ^ "/value_semantics") line !v_vs;
             if List.exists (fun v -> match !v with Fail _ -> true | _ -> false) [ v_share; v_refs; v_val; v_vs ] then dead := true
           end
       | ("new" | "copy" | "op") :: rest ->
           incr step; incr stats_steps;
           let res = split (rdo1 ()) in
           (* optional ret line *)
           let l2 = ref (rdo1 ()) in
           let ret = ref None in
           (match split !l2 with "ret" :: v :: _ -> ret := Some v; l2 := "" | _ -> ());
           let sts = (if !l2 = "" then read_states () else if !l2 = "endst" then [] else
                        (match parse_keep !l2 with Some first -> first :: read_states () | None -> read_states ())) in
           (match !bad_state with
            | Some m when not !dead -> report "state/ill-formed" line (Fail ("printed state is ill-formed: " ^ m)); dead := true
            | _ -> ());
           bad_state := None;
           if not !dead then begin
             let opname = (match toks with "op" :: _ :: o :: _ -> "op:" ^ o | "new" :: _ :: _ :: h :: _ -> "new:" ^ h | _ -> "copy") in
             bump opname;
             (match res with
              | [ "res"; "ok" ] ->
                  (try
                    let upd, post = (match toks with
                      | "new" :: _ -> (match timed (fun () -> Some (ref_new { t = rest } !topo)) None with
                                       | Some r -> r, (fun () -> []) | None -> raise (Skip "reference computation exceeded its budget"))
                      | "copy" :: a :: b :: _ -> [ int_of_string a, get (int_of_string b) ], (fun () -> [])
                      | _ -> (let c = { t = rest } in
                              match rest with
                              | _ :: "difference_assign" :: _ ->
                                  (* evaluated specially: geometric judgement of the result, then adoption *)
                                  let id = nexti c in let x = get id in ignore (next c);
                                  let yid = nexti c in let y = get yid in
                                  if y.dim <> x.dim then raise (Skip "dimension-incompatible");
                                  if yid = id then raise (Skip "aliased argument");
                                  let nbx = nb x in
                                  let xs0 = systems x.s and ys0 = systems y.s in
                                  let st_x = List.find (fun s -> s.sid = id) sts in
                                  let rs = List.map (fun d -> sys_of_cons d.dcons) st_x.djs in
                                  if hurried && Hashtbl.fold (fun _ (o : obj) acc -> acc || List.exists (fun (d : pd) -> snd d = None) o.s.seq0) pool false
                                  then raise (Skip "hurry-up path needs a validated generator hint for every disjunct");
                                  let vs =
                                    if hurried then
                                      (* under abandonment: less precise allowed, but every point of x minus y must remain *)
                                      [ "hurry-superset", of_ob true "under abandonment a point of the exact result is missing" (timed (fun () -> unions_incl nbx xs0 (rs @ ys0)) None) ]
                                    else if x.topo = "NNC" then
                                      [ "difference_exact", of_ob true "result is not the set difference" (timed (fun () -> is_difference nbx rs xs0 ys0) None) ]
                                    else
                                      [ "difference_covers", of_ob true "result does not contain x minus y" (timed (fun () -> unions_incl nbx xs0 (rs @ ys0)) None);
                                        "difference_within", of_ob true "result is not contained in x" (timed (fun () -> unions_incl nbx rs xs0) None) ] in
                                  let vs = vs @ [ "difference_flag", (if st_x.sflag then Fail "reduced flag set after difference_assign" else Ok);
                                                  "difference_OK", (if st_x.sok then Ok else Fail "OK() false") ] in
                                  List.iter (fun (k, v) -> report ("op:difference_assign/" ^ k) line v; (match v with Fail _ -> dead := true | _ -> ())) vs;
                                  (* adopt the result; the argument (NNC only) has been omega-reduced in place *)
                                  resync st_x; Hashtbl.replace last_line id (try Hashtbl.find raw_lines id with Not_found -> "");
                                  (if x.topo = "NNC" && diff_reduces_y then [ yid, omega y ] else []), (fun () -> [])
                              | _ ->
                                  if hurried && Hashtbl.fold (fun _ (o : obj) acc -> acc || List.exists (fun (d : pd) -> snd d = None) o.s.seq0) pool false
                                  then raise (Skip "hurry-up path needs a validated generator hint for every disjunct");
                                  (match timed (fun () -> Some (ref_op c)) None with
                                   | Some r -> r | None -> raise (Skip "reference computation exceeded its budget")))) in
                    (* under abandonment the result may be less precise but must CONTAIN the exact result (the model run with the
                       flag never raised) *)
                    if hurried then begin
                      hur := never;
                      (match timed (fun () -> (try Some (fst (ref_op { t = rest })) with Skip _ -> None)) None with
                       | Some exact_upd ->
                           List.iter (fun (i, (o : obj)) ->
                             match List.find_opt (fun st -> st.sid = i) sts with
                             | Some st when st.sdim = o.dim ->
                                 let impl = List.map (fun d -> sys_of_cons d.dcons) st.djs in
                                 report (opname ^ "/hurry-superset") (line ^ " @obj " ^ string_of_int i)
                                   (of_ob true "under abandonment a point of the exact result is missing" (timed (fun () -> unions_incl (nat (o.dim + 1)) (systems o.s) impl) None))
                             | _ -> ()) exact_upd
                       | None -> ());
                      hur := always
                    end;
                    List.iter (fun (i, o) -> Hashtbl.replace pool i o) upd;
                    if not !dead then judge_states ~touched:(List.map fst upd) opname line sts;
                    List.iter (fun (k, v) -> report (opname ^ "/" ^ k) line v) (post ())
                  with Skip why ->
                    bump ("unmodelled:" ^ opname);
                    (* not modelled: OK() and the agreement of both descriptions are still judged; then adopt *)
                    List.iter (fun st ->
                      if st.sok || not !tainted then
                        report (opname ^ "/OK") (line ^ " @obj " ^ string_of_int st.sid) (if st.sok then Ok else Fail "OK() returned false");
                      if not st.sok then tainted := true;
                      resync st) sts)
              | "res" :: "exn" :: cls :: _ ->
                  report (opname ^ "/exception") line (Fail ("unexpected exception " ^ cls)); dead := true
              | _ -> raise (Syntax "expected res"))
           end
       | "qry" :: rest ->
           incr step; incr stats_steps;
           let ans = split (rdo1 ()) in
           let sts = read_states () in
           (match !bad_state with
            | Some m when not !dead -> report "state/ill-formed" line (Fail ("printed state is ill-formed: " ^ m)); dead := true
            | _ -> ());
           bad_state := None;
           if not !dead then begin
             let qn = "qry:" ^ (try List.nth rest 1 with _ -> "?") in
             bump qn;
             (match ans with
              | "ans" :: "exn" :: cls :: _ -> report (qn ^ "/exception") line (Fail ("unexpected exception " ^ cls)); dead := true
              | _ ->
                (try
                  if hurried && Hashtbl.fold (fun _ (o : obj) acc -> acc || List.exists (fun (d : pd) -> snd d = None) o.s.seq0) pool false
                  then raise (Skip "hurry-up path needs a validated generator hint for every disjunct");
                  let run () = (match timed (fun () -> Some (ref_query { t = rest } ans)) None with
                                | Some r -> r | None -> raise (Skip "reference computation exceeded its budget")) in
                  if not hurried then begin
                    let upd, vs = run () in
                    List.iter (fun (k, v) -> report (qn ^ "/" ^ k) line v) vs;
                    List.iter (fun (i, o) -> Hashtbl.replace pool i o) upd;
                    judge_states ~touched:(List.map fst upd) qn line sts
                  end else begin
                    (* a query under abandonment: the answer must be the model's answer on the operands' values BEFORE the call
                       (the never-abandoned model), and the const operands must denote the same sets after the call.  The
                       states are then compared with the transcription run under the `always' oracle. *)
                    hur := never;
                    let upd_never, vs_exact = run () in
                    hur := always;
                    let upd, vs_always = run () in
                    (* which operands does the transcription collapse under abandonment (hurry-up branch of omega_reduce() const)?
                       structurally: the sequence it leaves differs from the one the never-abandoned run leaves *)
                    let collapsed = List.filter (fun (i, (o : obj)) ->
                      match List.assoc_opt i upd_never with
                      | Some (o' : obj) -> o.s.seq0 <> o'.s.seq0
                      | None -> true) upd in
                    (* which operands did the implementation change as sets? *)
                    let changed = List.filter (fun st ->
                      match (try Some (get st.sid) with Syntax _ -> None) with
                      | Some pre when pre.dim = st.sdim ->
                          (match timed (fun () -> unions_equiv (nb pre) (systems pre.s) (List.map (fun d -> sys_of_cons d.dcons) st.djs)) None with Some false -> true | _ -> false)
                      | _ -> false) sts in
                    let is_model k = (let n = String.length k in n > 6 && String.sub k (n - 6) 6 = "_model") in
                    let failed vs = List.filter (fun (_, v) -> match v with Fail _ -> true | _ -> false) vs in
                    if collapsed = [] then begin
                      (* the abandon flag had no effect on the transcription: judged like the ordinary call *)
                      List.iter (fun st -> report (qn ^ "/hurry-const-changed") (line ^ " @obj " ^ string_of_int st.sid) (Fail "a const operand denotes a different set after the call")) changed;
                      List.iter (fun (k, v) -> report (qn ^ "/hurry-" ^ k) line v) vs_exact
                    end else begin
                      (* the transcription run under `always' must predict the implementation's answer ... *)
                      List.iter (fun (k, v) -> if is_model k then report (qn ^ "/hurry-always-" ^ k) line v) vs_always;
                      (* ... operands the transcription does not collapse must keep their denotation ... *)
                      List.iter (fun st -> if not (List.exists (fun (i, _) -> i = st.sid) collapsed) then
                        report (qn ^ "/hurry-const-changed") (line ^ " @obj " ^ string_of_int st.sid) (Fail "a const operand denotes a different set after the call")) changed;
                      (* ... and whatever then differs from the never-abandoned call (operand enlarged, answer different from the answer on
                         the values before the call) is the ONE root cause: omega_reduce() const collapsed a const operand *)
                      let wrong = failed vs_exact in
                      let ch = List.filter (fun st -> List.exists (fun (i, _) -> i = st.sid) collapsed) changed in
                      if (wrong <> [] || ch <> []) && failed (List.filter (fun (k, _) -> is_model k) vs_always) = [] then
                        report "hurry/const-operand-collapsed" line
                          (Fail (Printf.sprintf "omega_reduce() const collapsed operand(s) %s under abandonment (model agrees)%s%s"
                                   (String.concat "," (List.map (fun (i, _) -> string_of_int i) collapsed))
                                   (if ch <> [] then "; they denote a larger set after the call" else "")
                                   (if wrong <> [] then "; the answer differs from the never-abandoned answer on the values before the call (" ^ String.concat "," (List.map fst wrong) ^ ")" else "")))
                    end;
                    List.iter (fun (i, o) -> Hashtbl.replace pool i o) upd;
                    judge_states ~touched:(List.map fst upd) qn line sts
                  end
                with Skip _ -> bump ("unmodelled:" ^ qn); List.iter resync sts))
           end
       | _ -> raise (Syntax ("unknown case line: " ^ line)))
      end
    done
  with End_of_file -> ());
  Printf.printf "STAT steps %d checks %d undecided %d cases %d timeouts %d\n" !stats_steps !stats_checks !stats_undecided !stats_cases !timeouts;
  Hashtbl.iter (fun k v -> Printf.printf "COV %s %d\n" k v) cov
