(* C16 driver, expression histories: four worlds (all DENSE, all SPARSE, two mixed assignments). *)
open Rows

let rec pos_of_int n = if n = 1 then XH else if n land 1 = 0 then XO (pos_of_int (n lsr 1)) else XI (pos_of_int (n lsr 1))
let rec int_of_pos = function XH -> 1 | XO p -> 2 * int_of_pos p | XI p -> 2 * int_of_pos p + 1
let z_of_int i = if i = 0 then Z0 else if i > 0 then Zpos (pos_of_int i) else Zneg (pos_of_int (-i))
let ten = z_of_int 10
let z_of_string s =
  let s = String.trim s in
  let neg, s = if String.length s > 0 && s.[0] = '-' then true, String.sub s 1 (String.length s - 1) else false, s in
  let r = ref Z0 in
  String.iter (fun ch -> if ch < '0' || ch > '9' then failwith ("z_of_string: " ^ s);
                r := Z.add (Z.mul !r ten) (z_of_int (Char.code ch - 48))) s;
  if neg then Z.opp !r else !r
let string_of_z z =
  let rec digits z acc = match z with
    | Z0 -> acc
    | _ -> let q = Z.div z ten and r = Z.modulo z ten in
           let d = (match r with Z0 -> 0 | Zpos p -> int_of_pos p | Zneg _ -> 0) in
           digits q (Char.chr (48 + d) :: acc) in
  let str l = String.init (List.length l) (List.nth l) in
  match z with
  | Z0 -> "0"
  | Zpos _ -> str (digits z [])
  | Zneg p -> "-" ^ str (digits (Zpos p) [])
let rec nat_of_int n = if n <= 0 then O else S (nat_of_int (n - 1))
let rec int_of_nat = function O -> 0 | S n -> 1 + int_of_nat n

let nworlds = 4
let rho w r = let r = int_of_nat r in
  match w with 0 -> false | 1 -> true | 2 -> r mod 2 = 1 | _ -> r mod 2 = 0
let states = Array.init nworlds (fun w -> init_state (rho w))
let reset () = for w = 0 to nworlds - 1 do states.(w) <- init_state (rho w) done

let string_of_oval = function
  | OZ z -> string_of_z z
  | ON n -> string_of_int (int_of_nat n)
  | OB b -> if b then "1" else "0"
  | OL l -> "[" ^ String.concat ";" (List.map (fun (k, v) -> string_of_int (int_of_nat k) ^ ":" ^ string_of_z v) l) ^ "]"

let describe (e : expr) =
  let n = int_of_nat (esize e) in
  let co = String.concat "," (List.init n (fun i -> string_of_z (ecoef e (nat_of_int i)))) in
  let st = match e with
    | ED _ -> "-"
    | ES s -> "[" ^ String.concat ";" (List.map (fun (k, v) -> string_of_int (int_of_nat k) ^ ":" ^ string_of_z v) s.sents) ^ "]" in
  Printf.sprintf "n=%d co=%s st=%s" n co st

let parse toks : op * int =
  let i k = int_of_string (List.nth toks k) in
  let nn k = nat_of_int (i k) in
  let zz k = z_of_string (List.nth toks k) in
  let rest k = List.map (fun s -> nat_of_int (int_of_string s)) (List.filteri (fun j _ -> j >= k) toks) in
  let r = i 1 in
  let rn = nat_of_int r in
  let o = match List.hd toks with
    | "new" -> New (rn, nn 2)
    | "set" -> Un (rn, USet (nn 2, zz 3))
    | "add" -> Un (rn, UAdd (nn 2, zz 3))
    | "swap" -> Un (rn, USwap (nn 2, nn 3))
    | "shift" -> Un (rn, UShift (nn 2, nn 3))
    | "resize" -> Un (rn, UResize (nn 2))
    | "mulr" -> Un (rn, UMulRange (zz 2, nn 3, nn 4))
    | "negr" -> Un (rn, UNegRange (nn 2, nn 3))
    | "ediv" -> Un (rn, UExactDiv (zz 2, nn 3, nn 4))
    | "rem" -> Un (rn, URemove (rest 2))
    | "perm" -> Un (rn, UPermute (rest 2))
    | "norm" -> Un (rn, UNormalize)
    | "sgn" -> Un (rn, USignNormalize)
    | "mula" -> Un (rn, UMulAll (zz 2))
    | "lc" -> Bin (rn, nn 2, BCombine (zz 3, zz 4, nn 5, nn 6))
    | "lca" -> Bin (rn, nn 2, BCombineAll (zz 3, zz 4))
    | "laxs" -> Bin (rn, nn 2, BLaxScale (zz 3, nn 4, nn 5))
    | "laxz" -> Bin (rn, nn 2, BLaxZero (nn 3, nn 4))
    | "lax0" -> Bin (rn, nn 2, BLax0 (zz 3, nn 4, nn 5))
    | "get" -> Obs1 (rn, OGet (nn 2))
    | "gcd" -> Obs1 (rn, OGcd (nn 2, nn 3))
    | "az" -> Obs1 (rn, OAllZeroes (nn 2, nn 3))
    | "nz" -> Obs1 (rn, ONumZeroes (nn 2, nn 3))
    | "fnz" -> Obs1 (rn, OFirstNZ (nn 2, nn 3))
    | "lnz" -> Obs1 (rn, OLastNZ (nn 2, nn 3))
    | "lnza" -> Obs1 (rn, OLastNZAll)
    | "iter" -> Obs1 (rn, OIter)
    | "size" -> Obs1 (rn, OSize)
    | "sp" -> Obs2 (rn, nn 2, OScalar (nn 3, nn 4))
    | "eq" -> Obs2 (rn, nn 2, OIsEqual)
    | "eqr" -> Obs2 (rn, nn 2, OIsEqualRange (nn 3, nn 4))
    | "cmp" -> Obs2 (rn, nn 2, OCompare)
    | "copy" -> Copy (rn, nn 2)
    | "copyn" -> CopySized (rn, nn 2, nn 3)
    | s -> failwith ("unknown E op " ^ s) in
  (o, r)

let le_op toks =
  let name = List.hd toks in
  match name with
  | "con" | "gen" | "cg" | "sys" | "sysop" -> ()      (* C++-only observations (classes built on Linear_Expression) *)
  | _ ->
    let (o, r) = parse toks in
    for w = 0 to nworlds - 1 do
      let ((st', out), _) = step (rho w) states.(w) o in
      states.(w) <- st';
      let e = getr st' (nat_of_int r) in
      Printf.printf "E%d %s out=%s %s\n" w name
        (match out with Some v -> string_of_oval v | None -> "-") (describe e)
    done
