(* C12 judge (untrusted glue): reads the output of harness/run_itv, recomputes every case with the model
   extracted from coq/Itv (module Itv), and runs an independent enclosure / tightness oracle written
   directly on native rationals (no extracted code involved).

   usage: judge_itv <Q|Z|D> < harness-output
   output:
     N <cases>
     H <key> <count>                      coverage histogram
     F <kind> <op> <i> <j> <tag> | <text> one line per failing case (kinds: MODEL ENCL TIGHT CONTAIN)   *)
open Itv

(* ---------- conversions to the extracted numbers ---------- *)
let rec pos_of_int n = if n = 1 then XH else if n land 1 = 0 then XO (pos_of_int (n lsr 1)) else XI (pos_of_int (n lsr 1))
let z_of_int n = if n = 0 then Z0 else if n > 0 then Zpos (pos_of_int n) else Zneg (pos_of_int (-n))
let ten = z_of_int 10
let z_of_string s =
  let neg, s = if String.length s > 0 && s.[0] = '-' then true, String.sub s 1 (String.length s - 1) else false, s in
  let r = ref Z0 in
  String.iter (fun ch -> r := Z.add (Z.mul !r ten) (z_of_int (Char.code ch - 48))) s;
  if neg then Z.opp !r else !r
let pos_of_z = function Zpos p -> p | _ -> XH
let q_of_string s =
  match String.index_opt s '/' with
  | None -> { qnum = z_of_string s; qden = XH }
  | Some k -> { qnum = z_of_string (String.sub s 0 k);
                qden = pos_of_z (z_of_string (String.sub s (k + 1) (String.length s - k - 1))) }
let rec int_of_pos = function XH -> 1 | XO p -> 2 * int_of_pos p | XI p -> 2 * int_of_pos p + 1
let int_of_z = function Z0 -> 0 | Zpos p -> int_of_pos p | Zneg p -> - (int_of_pos p)

(* ---------- raw interval as printed by the harness ---------- *)
type raw = { lsp : bool; lv : string; lop : bool; usp : bool; uv : string; uop : bool }
type obs = { emp : bool; sing : bool; lopen : bool; uopen : bool; linf : bool; uinf : bool }

let b s = s = "1"
let raw_of l k = { lsp = b l.(k); lv = l.(k+1); lop = b l.(k+2); usp = b l.(k+3); uv = l.(k+4); uop = b l.(k+5) }
let obs_of l k = { emp = b l.(k); sing = b l.(k+1); lopen = b l.(k+2); uopen = b l.(k+3); linf = b l.(k+4); uinf = b l.(k+5) }
let raw_str r = Printf.sprintf "%s%s,%s%s"
    (if r.lsp then "(-inf" else (if r.lop then "(" else "[") ^ r.lv)
    (if r.lsp && not r.lop then "!closed" else "")
    (if r.usp then "+inf)" else r.uv ^ (if r.uop then ")" else "]"))
    (if r.usp && not r.uop then "!closed" else "")

let model_of r = q_mk (q_of_string r.lv) r.lsp r.lop (q_of_string r.uv) r.usp r.uop

let same_model_raw so (m : q_itv) r =
  let (lv, (lsp, lop)) = q_lower m and (uv, (usp, uop)) = q_upper m in
  let lv : q = Obj.magic lv and uv : q = Obj.magic uv in
  lsp = r.lsp && usp = r.usp
  && (if so then lop = r.lop && uop = r.uop else true)
  && (lsp || qeq_bool lv (q_of_string r.lv))
  && (usp || qeq_bool uv (q_of_string r.uv))

let model_str (m : q_itv) =
  let (lv, (lsp, lop)) = q_lower m and (uv, (usp, uop)) = q_upper m in
  let lv : q = Obj.magic lv and uv : q = Obj.magic uv in
  let qs (x : q) = Printf.sprintf "%d/%d" (int_of_z x.qnum) (int_of_pos x.qden) in
  Printf.sprintf "%s,%s" (if lsp then "(-inf" else (if lop then "(" else "[") ^ qs lv)
    (if usp then "+inf)" else qs uv ^ (if uop then ")" else "]"))

let same_obs so (m : q_itv) o =
  q_is_empty so m = o.emp && q_is_singleton so m = o.sing
  && q_lower_is_open so m = o.lopen && q_upper_is_open so m = o.uopen

let rel_of = function
  | "LT" -> LESS_THAN | "LE" -> LESS_OR_EQUAL | "GT" -> GREATER_THAN | "GE" -> GREATER_OR_EQUAL
  | "EQ" -> EQUAL | _ -> NOT_EQUAL

let zero_itv = q_mk { qnum = Z0; qden = XH } false false { qnum = Z0; qden = XH } false false

let model_apply so op x y =
  match op with
  | "neg" -> q_neg so zero_itv x
  | "add" -> q_add so zero_itv x y
  | "sub" -> q_sub so zero_itv x y
  | "mul" -> q_mul so zero_itv x y
  | "div" -> q_div so zero_itv x y
  | "join1" -> q_join1 so x y
  | "join2" -> q_join2 so zero_itv x y
  | "int1" -> q_int1 so x y
  | "int2" -> q_int2 so zero_itv x y
  | "dif1" -> q_dif1 so x y
  | "dif2" -> q_dif2 so zero_itv x y
  | _ ->
    let k = String.sub op 0 3 and r = rel_of (String.sub op 3 2) in
    if k = "rex" then q_rex so r x y else q_run so r x y

(* ---------- independent oracle on native rationals ---------- *)
type rat = { n : int; d : int }   (* d > 0 *)
let rec gcd a b = if b = 0 then abs a else gcd b (a mod b)
let mk n d = if d = 0 then failwith "mk" else
    let g = gcd n d in let g = if g = 0 then 1 else g in
    if d < 0 then { n = - n / g; d = - d / g } else { n = n / g; d = d / g }
let rat_of_string s =
  match String.index_opt s '/' with
  | None -> { n = int_of_string s; d = 1 }
  | Some k -> mk (int_of_string (String.sub s 0 k)) (int_of_string (String.sub s (k + 1) (String.length s - k - 1)))
let rcmp a b = compare (a.n * b.d) (b.n * a.d)
let radd a b = mk (a.n * b.d + b.n * a.d) (a.d * b.d)
let rsub a b = mk (a.n * b.d - b.n * a.d) (a.d * b.d)
let rmul a b = mk (a.n * b.n) (a.d * b.d)
let rdiv a b = mk (a.n * b.d) (a.d * b.n)
let ri k = { n = k; d = 1 }
let d1 = mk 1 16 and d2 = mk 1 4096
let big = ri 1024

(* the denoted set of a raw interval, store_open taken into account *)
type iv = { il : rat option; ilo : bool; iu : rat option; iuo : bool }
let iv_of so r =
  { il = (if r.lsp then None else Some (rat_of_string r.lv)); ilo = so && r.lop;
    iu = (if r.usp then None else Some (rat_of_string r.uv)); iuo = so && r.uop }
let imem x i =
  (match i.il with None -> true | Some l -> let c = rcmp l x in if i.ilo then c < 0 else c <= 0)
  && (match i.iu with None -> true | Some u -> let c = rcmp x u in if i.iuo then c < 0 else c <= 0)
let iempty i =
  match i.il, i.iu with
  | Some l, Some u -> let c = rcmp l u in c > 0 || (c = 0 && (i.ilo || i.iuo))
  | _ -> false

let dedup l = List.sort_uniq rcmp l
let samples i =
  if iempty i then [] else
  let c = ref [ ri 0; d2; rsub (ri 0) d2 ] in
  let add x = c := x :: !c in
  (match i.il with
   | None -> add (rsub (ri 0) big); (match i.iu with Some u -> add (rsub u (ri 1)) | None -> ())
   | Some l -> add l; add (radd l d2); add (radd l d1));
  (match i.iu with
   | None -> add big; (match i.il with Some l -> add (radd l (ri 1)) | None -> ())
   | Some u -> add u; add (rsub u d2); add (rsub u d1));
  (match i.il, i.iu with Some l, Some u -> add (rdiv (radd l u) (ri 2)) | _ -> ());
  dedup (List.filter (fun x -> imem x i) !c)

(* tightness of one end of the real result R against the sample values vs *)
let tol = mk 1 64 and far = ri 64
let tight_lower r vs =
  match r.il with
  | None -> List.exists (fun v -> rcmp v (rsub (ri 0) far) <= 0) vs
  | Some l -> if r.ilo then List.exists (fun v -> rcmp (rsub v l) tol <= 0) vs
    else List.exists (fun v -> rcmp v l = 0) vs
let tight_upper r vs =
  match r.iu with
  | None -> List.exists (fun v -> rcmp v far >= 0) vs
  | Some u -> if r.iuo then List.exists (fun v -> rcmp (rsub u v) tol <= 0) vs
    else List.exists (fun v -> rcmp v u = 0) vs

(* grids for the set operations *)
(* grids built from the finite bound values of the palette (filled in when the palette has been read) *)
let palette_vals : rat list ref = ref []
let g1 : rat list ref = ref []
let g2 : rat list ref = ref []
let build_grids () =
  let pv = dedup !palette_vals in
  let base = List.concat_map (fun v -> [ v; radd v d1; rsub v d1 ]) pv in
  let rec mids = function a :: (b :: _ as t) -> rdiv (radd a b) (ri 2) :: mids t | _ -> [] in
  g1 := dedup (base @ mids pv @ [ big; rsub (ri 0) big ]);
  g2 := dedup (List.concat_map (fun g -> [ g; radd g d2; rsub g d2 ]) !g1)

let is_point i a = (match i.il, i.iu with Some l, Some u -> rcmp l a = 0 && rcmp u a = 0 && not i.ilo && not i.iuo | _ -> false)

let ex_rel rel a j =   (* exists b in j, a rel b *)
  if iempty j then false else
  match rel with
  | "LT" -> (match j.iu with None -> true | Some u -> rcmp a u < 0)
  | "LE" -> (match j.iu with None -> true | Some u -> if j.iuo then rcmp a u < 0 else rcmp a u <= 0)
  | "GT" -> (match j.il with None -> true | Some l -> rcmp a l > 0)
  | "GE" -> (match j.il with None -> true | Some l -> if j.ilo then rcmp a l > 0 else rcmp a l >= 0)
  | "EQ" -> imem a j
  | _ -> not (is_point j a)
let all_rel rel a j =  (* for all b in j, a rel b *)
  if iempty j then true else
  match rel with
  | "LT" -> (match j.il with None -> false | Some l -> if j.ilo then rcmp a l <= 0 else rcmp a l < 0)
  | "LE" -> (match j.il with None -> false | Some l -> rcmp a l <= 0)
  | "GT" -> (match j.iu with None -> false | Some u -> if j.iuo then rcmp a u >= 0 else rcmp a u > 0)
  | "GE" -> (match j.iu with None -> false | Some u -> rcmp a u >= 0)
  | "EQ" -> is_point j a
  | _ -> not (imem a j)

let set_spec op i j a =
  match op with
  | "join1" | "join2" -> imem a i || imem a j
  | "int1" | "int2" -> imem a i && imem a j
  | "dif1" | "dif2" -> imem a i && not (imem a j)
  | _ ->
    let k = String.sub op 0 3 and rel = String.sub op 3 2 in
    if k = "rex" then imem a i && ex_rel rel a j else imem a i && all_rel rel a j

(* ---------- main ---------- *)
let hist : (string, int) Hashtbl.t = Hashtbl.create 64
let bump k = Hashtbl.replace hist k (1 + (try Hashtbl.find hist k with Not_found -> 0))
let fail kind op i j tag text = Printf.printf "F %s %s %d %d %s | %s\n" kind op i j tag text

let arith_ops = [ "neg"; "add"; "sub"; "mul"; "div" ]

(* containment of the exact model result in the real result (inexact carriers), with a bound on the slack *)
let q_of_int k = { qnum = z_of_int k; qden = XH }
let qlt a b = not (qle_bool b a)
let qabs a = if qle_bool (q_of_int 0) a then a else qopp a
let contain_check ty (m : q_itv) (r : raw) : string option =
  (* m: exact (fixed) model result, non-empty; r: real result *)
  let (lv, (lsp, lop)) = q_lower m and (uv, (usp, uop)) = q_upper m in
  let lv : q = Obj.magic lv and uv : q = Obj.magic uv in
  let slack e x =   (* allowed distance between exact end e and real end x *)
    if ty = "Z" then qlt (qabs (qminus e x)) (q_of_int 1)
    else qle_bool (qabs (qminus e x)) (qmult (qabs e) { qnum = z_of_int 1; qden = pos_of_int (1 lsl 51) }) in
  let so = ty <> "Z" in
  let lower_ok =
    if r.lsp then lsp     (* real unbounded: must be because the exact one is *)
    else if lsp then false
    else
      let x = q_of_string r.lv in
      (qlt x lv || (qeq_bool x lv && ((not (so && r.lop)) || lop))) && slack lv x in
  let upper_ok =
    if r.usp then usp
    else if usp then false
    else
      let x = q_of_string r.uv in
      (qlt uv x || (qeq_bool x uv && ((not (so && r.uop)) || uop))) && slack uv x in
  if lower_ok && upper_ok then None
  else Some (Printf.sprintf "%s%s" (if lower_ok then "" else "lower ") (if upper_ok then "" else "upper"))

let () =
  let ty = Sys.argv.(1) in
  let do_tight = not (Array.length Sys.argv > 2 && Sys.argv.(2) = "notight") in
  let so = ty <> "Z" in
  let pal_raw : (int, raw) Hashtbl.t = Hashtbl.create 300 in
  let pal_model : (int, q_itv) Hashtbl.t = Hashtbl.create 300 in
  let pal_iv : (int, iv) Hashtbl.t = Hashtbl.create 300 in
  let pal_samples : (int, rat list) Hashtbl.t = Hashtbl.create 300 in
  let ncases = ref 0 in
  (try
     while true do
       let line = input_line stdin in
       let l = Array.of_list (String.split_on_char ' ' line) in
       if l.(0) = "I" then begin
         let i = int_of_string l.(1) in
         let r = raw_of l 2 in
         let o = obs_of l 8 in
         Hashtbl.replace pal_raw i r;
         let m = model_of r in
         Hashtbl.replace pal_model i m;
         let v = iv_of so r in
         Hashtbl.replace pal_iv i v;
         Hashtbl.replace pal_samples i (samples v);
         (match v.il with Some l -> palette_vals := l :: !palette_vals | None -> ());
         (match v.iu with Some u -> palette_vals := u :: !palette_vals | None -> ());
         (* observers on the inputs: model vs code, and the oracle's own notion of emptiness *)
         if not (same_obs so m o) then fail "MODEL" "observe" i i "obs" (raw_str r);
         if iempty v <> o.emp then fail "ENCL" "is_empty" i i "obs" (raw_str r);
         bump (if o.emp then "input:empty" else if o.sing then "input:singleton"
               else if r.lsp && r.usp then "input:universe" else if r.lsp || r.usp then "input:half-unbounded"
               else "input:bounded")
       end else if l.(0) = "C" then begin
         if !ncases = 0 then build_grids ();
         incr ncases;
         let op = l.(1) and i = int_of_string l.(2) and j = int_of_string l.(3) in
         let r = raw_of l 4 and o = obs_of l 10 in
         let x = Hashtbl.find pal_model i and y = Hashtbl.find pal_model j in
         let xi = Hashtbl.find pal_iv i and yi = Hashtbl.find pal_iv j in
         let desc () = Printf.sprintf "%s ; %s -> real %s" (raw_str (Hashtbl.find pal_raw i)) (raw_str (Hashtbl.find pal_raw j)) (raw_str r) in
         (* --- model --- *)
         let tag = ref "-" in
         let exact_cmp = not (op = "div" && ty <> "Q") in
         if op = "mul" then begin
           let (br, (fl, fu)) = q_mul_diag so zero_itv x y in
           let br = int_of_z br in
           bump (Printf.sprintf "mul:branch%d" br);
           (* coverage only: cases of branch 9 where the chosen product's flags differ from the other one's
              (the class on which the code before ed6ee8d was wrong) *)
           if fl || fu then bump "mul:branch9-second-candidate-with-different-flags"
         end;
         if op = "div" then begin
           let e = iempty xi || iempty yi in
           bump (if e then "div:empty" else
                   let s v = match v.il, v.iu with
                     | Some l, _ when rcmp l (ri 0) >= 0 -> "+"
                     | _, Some u when rcmp u (ri 0) <= 0 -> "-"
                     | _ -> "0" in "div:x" ^ s xi ^ "y" ^ s yi)
         end;
         let has_inf v = v.il = None || v.iu = None in
         if op = "dif2" then begin
           let inter = List.exists (fun g -> imem g xi && imem g yi) !g2
           and rest = List.exists (fun g -> imem g xi && not (imem g yi)) !g2 in
           tag := if inter && rest then "overlap" else "no-overlap"
         end;
         if String.length op = 5 && String.sub op 0 3 = "run" then begin
           let rel = String.sub op 3 2 in
           tag := (match rel with
               | "LT" | "LE" -> if yi.il = None then "arg-unbounded" else "arg-bounded"
               | "GT" | "GE" -> if yi.iu = None then "arg-unbounded" else "arg-bounded"
               | "NE" -> if iempty yi || (match yi.il, yi.iu with Some l, Some u -> rcmp l u = 0 | _ -> false)
                 then "arg-point" else "arg-not-a-point"
               | _ -> "-")
         end;
         (* the floating point type keeps infinities in the bound itself: where the code reads a bound
            without its info (SCALAR_INFO) or drops the info word, it behaves differently from the
            SPECIAL-bit types; those cases are left to the oracle *)
         let d_unmodelled = ty = "D" && (has_inf xi || has_inf yi)
                            && (op = "dif2" || (String.length op = 5 && String.sub op 0 3 = "run")) in
         let m = model_apply so op x y in
         if d_unmodelled then bump "D:infinity-in-bound-not-compared"
         else if exact_cmp then begin
           let ok = same_model_raw so m r && same_obs so m o in
           if not ok then
             fail "MODEL" op i j !tag (desc () ^ " model " ^ model_str m ^ (if q_is_empty so m then " (empty)" else ""))
         end else begin
           (* inexact division: the real result must contain the exact one, tightly *)
           let me = q_is_empty so m in
           if me then (if not o.emp then fail "CONTAIN" op i j "-" (desc () ^ " exact: empty"))
           else if o.emp then fail "CONTAIN" op i j "-" (desc () ^ " exact " ^ model_str m)
           else match contain_check ty m r with
             | None -> ()
             | Some w -> fail "CONTAIN" op i j "-" (desc () ^ " exact " ^ model_str m ^ " bad: " ^ w)
         end;
         (* --- independent oracle --- *)
         let big_values = (ty = "D" && op = "div") in
         if not big_values then begin
           let ri_ = iv_of so r in
           let rempty = o.emp in
           if iempty ri_ <> o.emp then fail "ENCL" op i j !tag ("is_empty() wrong: " ^ desc ());
           if List.mem op arith_ops then begin
             let xs = Hashtbl.find pal_samples i in
             let ys = if op = "neg" then [ ri 0 ] else Hashtbl.find pal_samples j in
             let vs = ref [] in
             List.iter (fun a -> List.iter (fun c ->
                 let v = match op with
                   | "neg" -> Some (rsub (ri 0) a) | "add" -> Some (radd a c) | "sub" -> Some (rsub a c)
                   | "mul" -> Some (rmul a c) | _ -> if c.n = 0 then None else Some (rdiv a c) in
                 match v with Some v -> vs := v :: !vs | None -> ()) ys) xs;
             let bad = List.filter (fun v -> rempty || not (imem v ri_)) !vs in
             (match bad with
              | v :: _ -> fail "ENCL" op i j !tag (Printf.sprintf "%s misses %d/%d" (desc ()) v.n v.d)
              | [] -> ());
             (* tightness: not for integer division, nor for a divisor with members of both signs *)
             let skip = (op = "div" && (ty = "Z" || (List.exists (fun c -> c.n < 0) ys && List.exists (fun c -> c.n > 0) ys))) in
             if bad = [] && not skip && do_tight then begin
               if !vs = [] then (if not rempty then fail "TIGHT" op i j !tag (desc () ^ " should be empty"))
               else if not rempty && not (tight_lower ri_ !vs && tight_upper ri_ !vs) then
                 fail "TIGHT" op i j !tag (desc () ^ " end not attained/approached")
             end
           end else begin
             let s = List.filter (fun a -> set_spec op xi yi a) !g2 in
             let bad = List.filter (fun a -> rempty || not (imem a ri_)) s in
             (match bad with
              | v :: _ -> fail "ENCL" op i j !tag (Printf.sprintf "%s misses %d/%d" (desc ()) v.n v.d)
              | [] ->
                let strict_op = List.mem op [ "dif1"; "dif2"; "rexLT"; "rexGT"; "rexNE"; "runLT"; "runGT"; "runNE" ] in
                if not rempty && do_tight && not (ty = "Z" && strict_op) then begin
                  match s with
                  | [] -> fail "TIGHT" op i j !tag (desc () ^ " should be empty")
                  | _ ->
                    let lo = List.hd s and hi = List.nth s (List.length s - 1) in
                    let extra = List.filter (fun g -> imem g ri_ && (rcmp g lo < 0 || rcmp g hi > 0)) !g1 in
                    (match extra with
                     | g :: _ -> fail "TIGHT" op i j !tag (Printf.sprintf "%s contains %d/%d outside the hull" (desc ()) g.n g.d)
                     | [] -> ())
                end)
           end
         end
       end
     done
   with End_of_file -> ());
  Printf.printf "N %d\n" !ncases;
  Hashtbl.iter (fun k v -> Printf.printf "H %s %d\n" k v) hist
