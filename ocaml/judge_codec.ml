(* C15 driver around the extracted codec model (untrusted glue).
   Reads the object file written by harness/run_codec.cc and, per object,
     blank : load_X 0 (tokens D1) = Some (x, []) and dump_X x = tokens D1        (format tie)
     fresh : dump_X (load_X fresh_status D1) = tokens D2   (what a default-constructed target becomes)
     used  : dump_X (load_X tflags D1) = tokens D3         (what a used target becomes)
     M ... : accept / reject of each mutated stream (token deleted / replaced by "@@"). *)
open Codec

let ascii_of_char c =
  let n = Char.code c in
  let b i = (n lsr i) land 1 = 1 in
  Ascii (b 0, b 1, b 2, b 3, b 4, b 5, b 6, b 7)
let char_of_ascii (Ascii (b0, b1, b2, b3, b4, b5, b6, b7)) =
  let v b i = if b then 1 lsl i else 0 in
  Char.chr (v b0 0 + v b1 1 + v b2 2 + v b3 3 + v b4 4 + v b5 5 + v b6 6 + v b7 7)
let cstr (s : Stdlib.String.t) : Codec.string =
  let r = ref EmptyString in
  for i = Stdlib.String.length s - 1 downto 0 do r := String (ascii_of_char s.[i], !r) done; !r
let ostr (s : Codec.string) : Stdlib.String.t =
  let b = Buffer.create 16 in
  let rec go = function EmptyString -> () | String (a, t) -> Buffer.add_char b (char_of_ascii a); go t in
  go s; Buffer.contents b

let rec pos_of_int n = if n = 1 then XH else if n land 1 = 0 then XO (pos_of_int (n lsr 1)) else XI (pos_of_int (n lsr 1))
let n_of_int n = if n = 0 then N0 else Npos (pos_of_int n)

let tokens (s : Stdlib.String.t) : Stdlib.String.t list =
  let l = ref [] and b = Buffer.create 16 in
  let flush () = if Buffer.length b > 0 then (l := Buffer.contents b :: !l; Buffer.clear b) in
  Stdlib.String.iter (fun c -> if c = ' ' || c = '\n' || c = '\t' || c = '\r' then flush () else Buffer.add_char b c) s;
  flush (); List.rev !l

(* a codec: target status word -> other target state (Grid: dim_kinds) -> stream -> (re-dump, unread rest) *)
type codec = n -> nat list -> stream -> (stream * stream) option
let mk load dump : codec = fun st _ toks ->
  match load st toks with Some (x, rest) -> Some (dump x [], rest) | None -> None
let mkg load dump : codec = fun st kinds toks ->
  match load st kinds toks with Some (x, rest) -> Some (dump x [], rest) | None -> None
let mk0 load dump : codec = fun _ _ toks ->
  match load toks with Some (x, rest) -> Some (dump x [], rest) | None -> None
let rec nat_of_int n = if n <= 0 then O else S (nat_of_int (n - 1))

let codecs : (Stdlib.String.t * (codec * n)) list = [
  "C_Polyhedron", (mk load_polyhedron dump_polyhedron, N0);
  "NNC_Polyhedron", (mk load_polyhedron dump_polyhedron, N0);
  "Grid", (mkg load_grid dump_grid, N0);
  "BD_Shape_mpq", (mk load_bds_mpq dump_bds_mpq, N0);
  "BD_Shape_mpz", (mk load_bds_Z dump_bds_Z, N0);
  "Octagonal_Shape_mpq", (mk load_oct_mpq dump_oct_mpq, N0);
  "Rational_Box", (mk load_box_mpq dump_box_mpq, box_fresh_object_status);
  "Z_Box", (mk load_box_Z dump_box_Z, box_fresh_object_status);
  "Constraint_System", (mk0 load_cs dump_cs, N0);
  "Generator_System", (mk0 load_gs dump_gs, N0);
  "Congruence_System", (mk0 load_cgs dump_cgs, N0);
  "Grid_Generator_System", (mk0 load_ggs dump_ggs, N0);
]

let read_block ic =           (* lines up to ENDD *)
  let b = Buffer.create 1024 in
  let rec go () = let l = input_line ic in if l = "ENDD" then () else (Buffer.add_string b l; Buffer.add_char b '\n'; go ()) in
  go (); Buffer.contents b

let same (a : stream) (b : Stdlib.String.t list) = List.map ostr a = b

let first_diff (a : stream) (b : Stdlib.String.t list) =
  let rec go i a b = match a, b with
    | [], [] -> "none"
    | x :: a', y :: b' -> if ostr x = y then go (i + 1) a' b' else Printf.sprintf "%d:%s/%s" i (ostr x) y
    | x :: _, [] -> Printf.sprintf "%d:%s/<end>" i (ostr x)
    | [], y :: _ -> Printf.sprintf "%d:<end>/%s" i y in
  go 0 a b

let () =
  let ic = open_in Sys.argv.(1) in
  (try
    while true do
      let l = input_line ic in
      match Stdlib.String.split_on_char ' ' l with
      | ["OBJ"; idx; cls] ->
          let d1 = read_block ic in
          let l2 = input_line ic in
          let ok2 = (match Stdlib.String.split_on_char ' ' l2 with ["D2"; o] -> o = "1" | _ -> failwith ("bad D2 line: " ^ l2)) in
          let d2 = read_block ic in
          let l3 = input_line ic in
          let ok3, tflags, tkinds = (match Stdlib.String.split_on_char ' ' l3 with
                                     | "D3" :: o :: t :: ks -> o = "1", int_of_string t, List.map (fun k -> nat_of_int (int_of_string k)) (List.filter (fun k -> k <> "") ks)
                                     | _ -> failwith ("bad D3 line: " ^ l3)) in
          let d3 = read_block ic in
          let lm = input_line ic in
          let muts = (match Stdlib.String.split_on_char ' ' lm with "MUTS" :: r -> List.map int_of_string (List.filter (fun s -> s <> "") r) | _ -> failwith ("bad MUTS line: " ^ lm)) in
          (match List.assoc_opt cls codecs with
           | None -> Printf.printf "V %s %s nomodel\n" idx cls
           | Some (c, fresh) ->
               let t1 = tokens d1 in
               let s1 = List.map cstr t1 in
               let blank = (match c N0 [] s1 with
                            | Some (rd, []) -> if same rd t1 then "OK" else "REDUMP@" ^ first_diff rd t1
                            | Some (_, _ :: _) -> "REST"
                            | None -> "LOADFAIL") in
               let predict st ks okc dc = (match c st ks s1, okc with
                            | Some (rd, _), true -> let tc = tokens dc in if same rd tc then "OK" else "DIFF@" ^ first_diff rd tc
                            | None, false -> "OK"
                            | Some _, false -> "MODEL-ACCEPTS-CPP-REJECTS"
                            | None, true -> "MODEL-REJECTS-CPP-ACCEPTS") in
               let freshr = predict fresh [] ok2 d2 in
               let usedr = predict (n_of_int tflags) tkinds ok3 d3 in
               Printf.printf "V %s %s blank=%s fresh=%s used=%s\n" idx cls blank freshr usedr;
               let arr = Array.of_list s1 in
               let n = Array.length arr in
               List.iter (fun i ->
                 let del = List.filteri (fun k _ -> k <> i) s1 in
                 let rep = List.mapi (fun k t -> if k = i then cstr "@@" else t) s1 in
                 ignore n;
                 Printf.printf "M %s %d D %d\n" idx i (match c fresh [] del with Some _ -> 1 | None -> 0);
                 Printf.printf "M %s %d R %d\n" idx i (match c fresh [] rep with Some _ -> 1 | None -> 0)) muts)
      | _ -> ()
    done
  with End_of_file -> ());
  close_in ic
