(* Judge for C10 (Partially_Reduced_Product).  usage: judge_prp <casefile> <obsfile>
   Reads the case file and what harness/run_prp.cc printed for it, and checks every transition of every
   product object with functions extracted from Coq (module Prp):
     - a transition that is not the effect of a mutator must be a reduction: each component only shrank
       (exact: incl_sys / lattice engine) and no point of the intersection was lost (exact when both
       components are constraint systems; by enumeration of lattice points when a grid with a proper
       congruence is involved -- reported as `sampled`);
     - with the flag set nothing may change; OK() must hold;
     - Smash / Direct products and Constraints products of two polyhedra: the new components are compared
       with the value of the transcribed reduction (exact);
     - `shrink`: the outcome of shrink_to_congruence_no_check is compared with Prp.shrink_decide run on the
       bounds the library's maximize/minimize returned (which are themselves compared with the exact sup/inf);
     - mutators: intersection of the result contains the exact image of the old intersection;
     - predicates: definite answers are true of the intersections.
   Output:  FAIL <case> <step> <kind> | <case line> | <detail>     UNDECIDED <case> <step> <kind>
            STAT steps n checks n undecided n cases n sampled n     COV <key> <count>
   Untrusted glue: parsing, dispatch, enumeration of candidate points. *)
open Prp
open Zutil_prp

let split s = List.filter (fun x -> x <> "") (String.split_on_char ' ' s)
exception Syntax of string
type cur = { mutable t : string list }
let next c = match c.t with x :: r -> c.t <- r; x | [] -> raise (Syntax "missing token")
let nexti c = int_of_string (next c)
let nextz c = z_of_string (next c)
let more c = c.t <> []
let rec take_z c n = if n = 0 then [] else let x = nextz c in x :: take_z c (n - 1)
let expect c w = let x = next c in if x <> w then raise (Syntax ("expected " ^ w ^ " got " ^ x))

let kind_of = function "=" -> EQ | ">=" -> GE | ">" -> GT | k -> raise (Syntax ("kind " ^ k))
let read_con c dim = let k = kind_of (next c) in let b = nextz c in let a = take_z c dim in { ccoefs = a; ccst = b; ckd = k }
let read_cons c dim = let k = nexti c in List.init k (fun _ -> read_con c dim)
let read_cg c dim = let m = nextz c in let b = nextz c in let a = take_z c dim in { ge = { lcoefs = a; lcst = b }; gm = m }
let read_cgs c dim = let k = nexti c in List.init k (fun _ -> read_cg c dim)
let read_expr c dim = let b = nextz c in let a = take_z c dim in { lcoefs = a; lcst = b }
let nat = nat_of_int
let zero = Z0
let is_z0 z = (z = Z0)
let zneg z = Z.opp z
let zpos z = (match z with Zpos _ -> true | _ -> false)

(* ---- states ---- *)
type comp = { kind : char; empty : bool; cons : con list; cgs : pcg list; div1 : bool (* grid: canonical point has divisor 1 *) }
type st = { sid : int; flag : bool; dim : int; c1 : comp; c2 : comp; ok : bool; ok1 : bool; ok2 : bool; idem : bool }

let read_comp c dim =
  let k = (next c).[0] in let e = nexti c = 1 in
  if e then { kind = k; empty = true; cons = []; cgs = []; div1 = true }
  else if k = 'P' then (expect c "cons"; { kind = k; empty = false; cons = read_cons c dim; cgs = []; div1 = true })
  else (expect c "cgs"; let g = read_cgs c dim in expect c "div"; let d = next c in { kind = k; empty = false; cons = []; cgs = g; div1 = (d = "1") })
let parse_st line =
  let c = { t = split line } in
  expect c "st"; let sid = nexti c in let flag = nexti c = 1 in let dim = nexti c in
  expect c "|"; let c1 = read_comp c dim in expect c "|"; let c2 = read_comp c dim in
  expect c "|"; expect c "ok"; let ok = nexti c = 1 in let ok1 = nexti c = 1 in let ok2 = nexti c = 1 in let idem = nexti c = 1 in
  { sid; flag; dim; c1; c2; ok; ok1; ok2; idem }

(* ---- time budget ---- *)
exception Timeout
let budget = ref (try float_of_string (Sys.getenv "VERIF_JUDGE_BUDGET") with _ -> 4.0)
let armed = ref false
let () = Sys.set_signal Sys.sigalrm (Sys.Signal_handle (fun _ -> if !armed then begin armed := false; raise Timeout end))
let timed (f : unit -> 'a) (dflt : 'a) : 'a =
  let stop () = armed := false; ignore (Unix.setitimer Unix.ITIMER_REAL { Unix.it_interval = 0.0; it_value = 0.0 }) in
  try armed := true; ignore (Unix.setitimer Unix.ITIMER_REAL { Unix.it_interval = 0.0; it_value = !budget });
      let r = f () in stop (); r
  with Timeout -> stop (); Gc.compact (); dflt
     | Stack_overflow | Out_of_memory -> stop (); Gc.compact (); dflt

(* ---- bookkeeping ---- *)
let steps = ref 0 and checks = ref 0 and undecided = ref 0 and cases = ref 0 and sampled = ref 0 and sample_points = ref 0
let cov : (string, int) Hashtbl.t = Hashtbl.create 64
let bump k = Hashtbl.replace cov k (1 + try Hashtbl.find cov k with Not_found -> 0)
let cur_case = ref "" and cur_step = ref 0 and cur_line = ref ""
let nt = ref 0   (* non-trivial judged events of the current case *)
let fail kind detail = Printf.printf "FAIL %s %d %s | %s | %s\n" !cur_case !cur_step kind !cur_line detail
let undec kind = incr undecided; Printf.printf "UNDECIDED %s %d %s\n" !cur_case !cur_step kind

(* a three-valued verdict: Some true = holds, Some false = violated, None = undecided *)
let taint_hook : (unit -> string) ref = ref (fun () -> "")
let judge kind detail (v : bool option) =
  incr checks;
  let detail = if String.length kind > 4 && String.sub kind 0 4 = "qry:" then !taint_hook () ^ detail else detail in
  match v with Some true -> incr nt | Some false -> incr nt; fail kind detail | None -> undec kind

(* ---- meets ---- *)
type meet = { mempty : bool; mcons : con list; mcgs : pcg list }
let comp_meet c = { mempty = c.empty; mcons = c.cons; mcgs = c.cgs }
let inter a b = { mempty = a.mempty || b.mempty; mcons = a.mcons @ b.mcons; mcgs = a.mcgs @ b.mcgs }
let meet_of s = inter (comp_meet s.c1) (comp_meet s.c2)
let universe = { mempty = false; mcons = []; mcgs = [] }
let restrict m cs cgs = { m with mcons = m.mcons @ cs; mcgs = m.mcgs @ cgs }
let eq_of_cg g = { ccoefs = g.ge.lcoefs; ccst = g.ge.lcst; ckd = EQ }
let exact m = m.mempty || List.for_all (fun g -> is_z0 g.gm) m.mcgs
let to_sys m = if m.mempty then j_false else j_sys (m.mcons @ List.map eq_of_cg m.mcgs)

(* ---- rational points ---- *)
let q_of_int n = inject_Z (z_of_int n)
let q_half k = j_qmake (z_of_int k) (XO XH)          (* k/2 *)
let rec pad n l = if n <= 0 then [] else match l with [] -> q_of_int 0 :: pad (n - 1) [] | x :: r -> x :: pad (n - 1) r
let vadd a b = List.map2 j_qadd a b
let vscale k a = List.map (j_qmul k) a
let mem_meet m p = (not m.mempty) && List.for_all (fun c -> mem_con_b c p) m.mcons && List.for_all (fun g -> mem_pcg_b g p) m.mcgs
let mem_comp c p = (not c.empty) && List.for_all (fun k -> mem_con_b k p) c.cons && List.for_all (fun g -> mem_pcg_b g p) c.cgs
let string_of_q (x : q) = let x = qred x in string_of_z x.qnum ^ (if x.qden = XH then "" else "/" ^ string_of_z (Zpos x.qden))
let string_of_pt p = "(" ^ String.concat "," (List.map string_of_q p) ^ ")"

(* ---- candidate points (untrusted enumeration; every candidate is afterwards tested by the proved-exact mem_*_b) ----
   The lattice of the proper congruences: point + integer combinations of the parameters + half-integer multiples
   of the lines.  The enumeration is AIMED at the constraints cs of the meet:
     - one parameter, no line (a 1-dimensional slice): the exact range of the integer coordinate k allowed by the
       constraints is computed; when bounded (<= 4000 values) ALL grid points of the slice inside the constraints
       are enumerated (exhaustive); a one-sided range is enumerated from its end;
     - otherwise the window is centred at the lattice point nearest (greedy, generator by generator) to the centre
       of the bounding box of the constraints (exact sup / inf of every coordinate). *)
module Fr = struct   (* small native rationals: only to choose which candidates to enumerate *)
  type t = int * int
  let rec gcd a b = if b = 0 then abs a else gcd b (a mod b)
  let mk n d = if d = 0 then failwith "Fr" else let g = gcd n d in let g = if g = 0 then 1 else g in
    let n, d = n / g, d / g in if d < 0 then (-n, -d) else (n, d)
  let of_q (x : q) : t = let x = qred x in mk (int_of_string (string_of_z x.qnum)) (int_of_string (string_of_z (Zpos x.qden)))
  let of_z (z : z) : t = (int_of_string (string_of_z z), 1)
  let add (a, b) (c, d) = mk (a * d + c * b) (b * d)
  let mul (a, b) (c, d) = mk (a * c) (b * d)
  let neg (a, b) = (-a, b)
  let div x (c, d) = mul x (mk d c)
  let sign (a, _) = compare a 0
  let floor (a, b) = if a >= 0 then a / b else - ((- a + b - 1) / b)
  let ceil x = - (floor (neg x))
  let round (a, b) = floor (mk (2 * a + b) (2 * b))
  let zero = (0, 1)
end
let q_of_fr ((n, d) : Fr.t) : q = j_qmake (z_of_int n) (match z_of_int d with Zpos p -> p | _ -> XH)
let exhaustive_slices = ref 0

let lattice_points_aimed dim (cgs : pcg list) (cs : con list) : q list list option =
  match j_grid_gens (nat dim) cgs with
  | None -> None
  | Some gens ->
    let pts = List.filter_map (function QPoint v -> Some (pad dim v) | _ -> None) gens in
    let pars = List.filter_map (function QParam v -> Some (pad dim v) | _ -> None) gens in
    let lins = List.filter_map (function QLine v -> Some (pad dim v) | _ -> None) gens in
    (match pts with
     | [] -> Some []
     | p0 :: _ ->
       let ng = List.length pars + List.length lins in
       let fallback center =
         let kr = if ng <= 1 then 12 else if ng = 2 then 6 else 3 in
         let ks = List.init (2 * kr + 1) (fun i -> q_of_int (i - kr)) in
         let ts = List.init (4 * kr + 1) (fun i -> q_half (i - 2 * kr)) in
         let ts = if ng >= 3 then List.init (2 * kr + 1) (fun i -> q_of_int (i - kr)) else ts in
         let acc = ref [center] in
         List.iter (fun g -> acc := List.concat_map (fun p -> List.map (fun k -> vadd p (vscale k g)) ks) !acc) pars;
         List.iter (fun g -> acc := List.concat_map (fun p -> List.map (fun k -> vadd p (vscale k g)) ts) !acc) lins;
         !acc in
       (try
         let fp0 = List.map Fr.of_q p0 in
         let dotf a v = List.fold_left Fr.add Fr.zero (List.mapi (fun i c -> if i < dim then Fr.mul (Fr.of_z c) (List.nth v i) else Fr.zero) a) in
         (match pars, lins with
          | [ g ], [] when cs <> [] ->
            (* the slice p0 + k g: every constraint a.x + b (>=|>|=) 0 bounds k *)
            let fg = List.map Fr.of_q g in
            let lo = ref None and hi = ref None in
            let upd_lo v = lo := (match !lo with None -> Some v | Some w -> Some (max v w)) in
            let upd_hi v = hi := (match !hi with None -> Some v | Some w -> Some (min v w)) in
            List.iter (fun c ->
              let al = dotf c.ccoefs fg and be = Fr.add (dotf c.ccoefs fp0) (Fr.of_z c.ccst) in
              if Fr.sign al <> 0 then begin
                let bound = Fr.div (Fr.neg be) al in       (* al*k + be >= 0 *)
                if c.ckd = EQ then (upd_lo (Fr.ceil bound); upd_hi (Fr.floor bound))
                else if Fr.sign al > 0 then upd_lo (Fr.ceil bound) else upd_hi (Fr.floor bound)
              end) cs;
            let range = (match !lo, !hi with
              | Some a, Some b -> if b - a <= 4000 then (incr exhaustive_slices; Some (a, b)) else Some (a, a + 2000)
              | Some a, None -> Some (a, a + 48)
              | None, Some b -> Some (b - 48, b)
              | None, None -> None) in
            (match range with
             | Some (a, b) -> Some (List.init (max 0 (b - a + 1)) (fun i -> vadd p0 (vscale (q_of_int (a + i)) g)))
             | None -> Some (fallback p0))
          | _ ->
            (* centre of the bounding box of the constraints *)
            let sys = j_sys cs in
            let unit i = { lcoefs = List.init dim (fun j -> if i = j then Zpos XH else Z0); lcst = Z0 } in
            let centre = List.mapi (fun i p0i ->
              let su = (match j_sup (nat dim) (unit i) sys with Some (SupVal (v, _)) -> Some (Fr.of_q v) | _ -> None) in
              let inf = (match j_inf (nat dim) (unit i) sys with Some (SupVal (v, _)) -> Some (Fr.of_q v) | _ -> None) in
              match su, inf with
              | Some a, Some b -> Fr.mul (Fr.add a b) (1, 2)
              | Some a, None -> a | None, Some b -> b
              | None, None -> p0i) fp0 in
            let cur = ref fp0 in
            let step half g =
              let fg = List.map Fr.of_q g in
              (match List.find_opt (fun i -> Fr.sign (List.nth fg i) <> 0) (List.init dim (fun i -> i)) with
               | Some piv ->
                 let t = Fr.div (Fr.add (List.nth centre piv) (Fr.neg (List.nth !cur piv))) (List.nth fg piv) in
                 let k = if half then Fr.mk (Fr.round (Fr.mul t (2, 1))) 2 else (Fr.round t, 1) in
                 cur := List.map2 (fun x y -> Fr.add x (Fr.mul k y)) !cur fg
               | None -> ()) in
            List.iter (step false) pars; List.iter (step true) lins;
            Some (fallback (List.map q_of_fr !cur)))
       with Failure _ | Division_by_zero | Not_found | Invalid_argument _ -> Some (fallback p0)))

let lattice_points dim (cgs : pcg list) : q list list option = lattice_points_aimed dim cgs []

let samples_cache : (int * pcg list * con list, q list list option) Hashtbl.t = Hashtbl.create 16
let samples_of dim (m : meet) : q list list option =
  if m.mempty then Some [] else begin
    let key = (dim, m.mcgs, m.mcons) in
    let l = (try Hashtbl.find samples_cache key with Not_found ->
               let r = lattice_points_aimed dim m.mcgs m.mcons in
               if Hashtbl.length samples_cache > 64 then Hashtbl.reset samples_cache;
               Hashtbl.replace samples_cache key r; r) in
    match l with None -> None | Some pts -> Some (List.filter (fun p -> List.for_all (fun c -> mem_con_b c p) m.mcons) pts)
  end

(* is a included in b?  exact when both are constraint systems, sampled otherwise (a violation found by
   sampling is still a definite violation: the witness point is checked by mem_*_b, proved exact) *)
let witness = ref ""
let witness_pt : q list option ref = ref None
let incl_meet dim a b : bool option =
  if a.mempty then Some true
  else if exact a && exact b then timed (fun () -> j_incl (nat (dim + 1)) (to_sys a) (to_sys b)) None
  else begin
    incr sampled;
    match timed (fun () -> samples_of dim a) None with
    | None -> None
    | Some pts ->
      sample_points := !sample_points + List.length pts;
      (match List.find_opt (fun p -> not (mem_meet b p)) pts with
       | Some p -> witness := string_of_pt p; witness_pt := Some p; Some false
       | None -> Some true)
  end
let empty_meet dim a : bool option =
  if a.mempty then Some true
  else if exact a then (match timed (fun () -> j_nonempty (nat (dim + 1)) (to_sys a)) None with Some b -> Some (not b) | None -> None)
  else begin
    incr sampled;
    match timed (fun () -> samples_of dim a) None with
    | None -> None
    | Some [] -> Some true
    | Some (p :: _) -> witness := string_of_pt p; Some false
  end

(* ---- components: exact comparisons ---- *)
let comp_sys c = if c.empty then j_false else j_sys c.cons
let comp_incl dim a b : bool option =
  if a.empty then Some true
  else if a.kind = 'P' then timed (fun () -> j_incl (nat (dim + 1)) (comp_sys a) (comp_sys b)) None
  else if b.empty then timed (fun () -> j_grid_empty (nat dim) a.cgs) None
  else timed (fun () -> j_grid_incl (nat dim) a.cgs b.cgs) None
let oand a b = match a, b with Some false, _ | _, Some false -> Some false | Some true, Some true -> Some true | _ -> None
let comp_equiv dim a b = oand (comp_incl dim a b) (comp_incl dim b a)
let comp_is_empty dim a : bool option =
  if a.empty then Some true
  else if a.kind = 'P' then (match timed (fun () -> j_nonempty (nat (dim + 1)) (comp_sys a)) None with Some b -> Some (not b) | None -> None)
  else timed (fun () -> j_grid_empty (nat dim) a.cgs) None
(* equality of a component with a meet-like description (exact only) *)
let comp_equiv_meet dim (a : comp) (m : meet) : bool option =
  if a.kind = 'P' then (if exact m then timed (fun () -> j_equiv (nat (dim + 1)) (comp_sys a) (to_sys m)) None else None)
  else if m.mcons <> [] && not m.mempty then None
  else comp_equiv dim a { kind = 'G'; empty = m.mempty; cons = []; cgs = m.mcgs; div1 = true }

(* ---- topology of the components per pair token ---- *)
let pair = ref "CG" and red = ref 'D'
let closed_comp w = (* is component w a necessarily closed polyhedron? *)
  match !pair, w with
  | "CG", 1 | "GC", 2 | "CN", 1 | "BC", 2 | "SC", 2 | "CS", 1 -> true
  | _ -> false
let is_poly w = match !pair, w with
  | "CG", 1 | "GC", 2 | "NG", 1 | "CN", _ | "NN", _ | "BC", 2 | "SC", 2 | "CS", 1 | "NB", 1 -> true | _ -> false
let dom_name w =
  let c = (try String.get !pair (w - 1) with _ -> '?') in
  (match c with 'C' -> "C_Polyhedron" | 'N' -> "NNC_Polyhedron" | 'G' -> "Grid" | 'B' -> "Rational_Box" | 'S' -> "BD_Shape" | 'O' -> "Octagonal_Shape" | _ -> "?")
let relax_con k = if k.ckd = GT then { k with ckd = GE } else k

let nth_q p i = List.nth p i
let set_nth p i v = List.mapi (fun j x -> if j = i then v else x) p
let qdiv_z (a : q) (d : z) = j_qmul a (match d with Zpos p -> j_qmake (z_of_int 1) p | Zneg p -> j_qmake (z_of_int (-1)) p | Z0 -> q_of_int 0)
let leval_pt (e : lin) p =
  List.fold_left j_qadd (inject_Z e.lcst) (List.mapi (fun i a -> if i < List.length p then j_qmul (inject_Z a) (nth_q p i) else q_of_int 0) e.lcoefs)

(* OK(): when it fails only because a flagged product is not a fixpoint of its reduction, say so *)
let check_ok (n : st) what =
  incr checks;
  if not n.ok && not (n.ok1 && n.ok2) then bump "not-owned:component-OK-false"   (* the invariant of a COMPONENT object: C03-C05's subject *)
  else if not n.ok then
    fail "ok" ((if n.ok1 && n.ok2 && n.flag && not n.idem then "[not-idempotent] " else "") ^ "OK() false after " ^ what)

(* Grid::max_min root cause (inhomogeneous term not scaled by the divisor of the point): can only show when a grid
   whose point has a non-integer coordinate is asked to bound an expression with a non-zero inhomogeneous term *)
let grid_point dim (c : comp) = if c.kind <> 'G' || c.empty then None else
  match timed (fun () -> j_grid_gens (nat dim) c.cgs) None with
  | Some g -> (match List.filter_map (function QPoint v -> Some (pad dim v) | _ -> None) g with p :: _ -> Some p | [] -> None)
  | None -> None
let nonintegral p = List.exists (fun (x : q) -> (qred x).qden <> XH) p
let maxmin_suspect_expr dim (b : comp) (e : lin) =
  b.kind = 'G' && (not b.empty) && (not (is_z0 e.lcst)) && (not b.div1)
let maxmin_suspect dim (a : comp) (b : comp) =
  (* a congruence of a is bounded on the grid b whose canonical point has a divisor <> 1 (the inhomogeneous term of
     the MINIMIZED congruence the reduction uses is not observable: any proper congruence counts) *)
  a.kind = 'G' && b.kind = 'G' && (not a.empty) && (not b.empty) && (not b.div1) && List.exists (fun g -> not (is_z0 g.gm)) a.cgs
let tainted = ref false   (* a tagged loss happened in the reduction implied by the current step *)
let tag_maxmin = "[grid-maxmin] "

let () = taint_hook := (fun () -> if !tainted then tag_maxmin else "")

(* ---- reduce-like transition ---- *)
let check_reduce_like (o : st) (n : st) ~(must_flag : bool) =
  let dim = o.dim in
  if n.dim <> o.dim then fail "reduce/dim" "dimension changed";
  judge "reduce/grow" "component 1 gained points" (comp_incl dim n.c1 o.c1);
  judge "reduce/grow" "component 2 gained points" (comp_incl dim n.c2 o.c2);
  witness := ""; witness_pt := None;
  let mo = meet_of o and mn = meet_of n in
  let v = incl_meet dim mo mn in
  (* the exchange refines the grids before asking them for bounds: the grid that is asked may have acquired its
     non-integer point during the reduction; then the lost common point itself is non-integer *)
  let wit_nonint = (match !witness_pt with Some p -> List.exists (fun (x : q) -> (qred x).qden <> XH) p | None -> false) in
  let tag = if v = Some false && (!red = 'G' || !red = 'P') && o.c1.kind = 'G' && o.c2.kind = 'G'
               && (maxmin_suspect dim o.c1 o.c2 || maxmin_suspect dim o.c2 o.c1 || wit_nonint) then tag_maxmin else "" in
  if tag <> "" then tainted := true;
  judge "reduce/lost-point" (tag ^ "a point of the intersection was lost " ^ !witness) v;
  if exact mo && exact mn then bump "meet-exact" else bump "meet-sampled";
  if o.flag then begin
    if not n.flag then (incr checks; fail "flag/cleared" "reduced flag cleared by a non-mutator");
    judge "flag/changed" "component 1 changed although the reduced flag was set" (comp_incl dim o.c1 n.c1);
    judge "flag/changed" "component 2 changed although the reduced flag was set" (comp_incl dim o.c2 n.c2)
  end;
  if must_flag && not n.flag then (incr checks; fail "flag/not-set" "reduce() did not set the flag");
  (* exact expected value of the reduction, where the transcribed reduction is representation-independent *)
  if (not o.flag) && n.flag then begin
    bump ("reduce:" ^ String.make 1 !red);
    let e1 = comp_is_empty dim o.c1 and e2 = comp_is_empty dim o.c2 in
    let both_empty () =
      judge "reduce/model" "expected both components empty" (comp_is_empty dim n.c1);
      judge "reduce/model" "expected both components empty" (comp_is_empty dim n.c2) in
    let unchanged () =
      judge "reduce/model" "expected component 1 unchanged" (comp_incl dim o.c1 n.c1);
      judge "reduce/model" "expected component 2 unchanged" (comp_incl dim o.c2 n.c2) in
    (match !red, e1, e2 with
     | 'D', _, _ -> unchanged ()
     | _, Some true, _ | _, _, Some true -> bump "reduce-smash-branch"; both_empty ()
     | 'S', Some false, Some false -> unchanged ()
     | 'K', Some false, Some false when is_poly 1 && is_poly 2 ->
       (* constraints_reduce with exact polyhedral refinement *)
       let cs2 = if closed_comp 1 then List.map relax_con o.c2.cons else o.c2.cons in
       let a1 = { mempty = false; mcons = o.c1.cons @ cs2; mcgs = [] } in
       (match empty_meet dim a1 with
        | Some true -> bump "reduce-K-empty1"; both_empty ()
        | Some false ->
          let cs1 = if closed_comp 2 then List.map relax_con a1.mcons else a1.mcons in
          let b1 = { mempty = false; mcons = o.c2.cons @ cs1; mcgs = [] } in
          (match empty_meet dim b1 with
           | Some true -> bump "reduce-K-empty2"; both_empty ()
           | Some false ->
             bump "reduce-K-exchange";
             judge "reduce/model" "component 1 differs from d1 refined with the constraints of d2" (comp_equiv_meet dim n.c1 a1);
             judge "reduce/model" "component 2 differs from d2 refined with the constraints of d1" (comp_equiv_meet dim n.c2 b1)
           | None -> undec "reduce/model")
        | None -> undec "reduce/model")
     | _ ->
       (* all reductions: an empty component afterwards forces the other one empty (smash postcondition) *)
       (match comp_is_empty dim n.c1, comp_is_empty dim n.c2 with
        | Some a, Some b when a <> b && (!red = 'K' || !red = 'S') -> incr checks; fail "reduce/model" "exactly one component empty after the reduction"
        | _ -> incr checks))
  end

(* ---- shrink ---- *)
let check_shrink (o : st) dir (c : cur) =
  let dim = o.dim in
  let a, b = if dir = 12 then o.c1, o.c2 else o.c2, o.c1 in
  let wa, wb = if dir = 12 then 1, 2 else 2, 1 in
  let w = next c in
  if w = "none" then bump "shrink-none" else begin
    let ret = int_of_string w = 1 in
    expect c "cg"; let g = read_cg c dim in
    expect c "max"; let rx = nexti c = 1 in let xn = nextz c in let xd = nextz c in let xi = nexti c = 1 in
    expect c "min"; let rm = nexti c = 1 in let mn = nextz c in let md = nextz c in let mi = nexti c = 1 in
    expect c "|"; let a' = read_comp c dim in expect c "|"; let b' = read_comp c dim in
    (* the premise: every point of a satisfies g *)
    judge "shrink/premise" "first component not included in its own congruence" (incl_meet dim (comp_meet a) (restrict universe [] [g]));
    (* the law instances used by the theorem: bounds returned by the library against the exact sup / inf *)
    if b.kind = 'P' then begin
      let sb = comp_sys b in
      let chk what r nn dd inc res =
        match res with
        | None -> undec ("shrink/" ^ what)
        | Some SupEmpty -> incr checks
        | Some SupUnbounded -> incr checks; if r then fail ("shrink/" ^ what) "library bounds an unbounded expression"
        | Some (SupVal (v, att)) ->
          incr checks;
          if not r then fail ("shrink/" ^ what) "library reports unbounded, expression is bounded"
          else if not (zpos dd) then fail ("shrink/" ^ what) "non-positive denominator"
          else if not (qeq_bool (qmult v (inject_Z dd)) (inject_Z nn)) then fail ("shrink/" ^ what) ("bound differs from exact value " ^ string_of_q v)
          else if att <> inc then fail ("shrink/" ^ what) "attained flag differs" in
      chk "maximize" rx xn xd xi (timed (fun () -> j_sup (nat dim) g.ge sb) None);
      chk "minimize" rm mn md mi (timed (fun () -> j_inf (nat dim) g.ge sb) None)
    end;
    let law_broken = ref false in
    if b.kind = 'G' then begin
      (* a grid bounds an expression only when it is constant on it: its value at the grid's point *)
      match grid_point dim b with
      | Some p ->
        let v = leval_pt g.ge p in
        let chk what r nn dd = if r then begin
          incr checks;
          if not (zpos dd) || not (qeq_bool (qmult v (inject_Z dd)) (inject_Z nn)) then begin
            law_broken := true;
            fail ("shrink/" ^ what) ((if maxmin_suspect_expr dim b g.ge then tag_maxmin else "") ^ "Grid::" ^ what ^ " returned " ^ string_of_z nn ^ "/" ^ string_of_z dd ^ ", the expression is constantly " ^ string_of_q v)
          end end in
        chk "maximize" rx xn xd; chk "minimize" rm mn md
      | None -> ()
    end;
    let out = if rx && rm then shrink_decide g.gm ((xn, xd), xi) ((mn, md), mi) else ShUnchanged in
    (match out with
     | ShUnchanged ->
       bump "shrink-unchanged"; incr checks;
       if not ret then fail "shrink/model" "model: unchanged, library returned false";
       judge "shrink/model" "model: unchanged, first component changed" (comp_equiv dim a a');
       judge "shrink/model" "model: unchanged, second component changed" (comp_equiv dim b b')
     | ShEmpty ->
       bump "shrink-empty"; incr checks;
       if ret then fail "shrink/model" "model: empty, library returned true";
       judge "shrink/model" "model: empty, first component not empty" (comp_is_empty dim a');
       judge "shrink/model" "model: empty, second component not empty" (comp_is_empty dim b')
     | ShEq (dn, k) ->
       bump "shrink-eq"; incr checks;
       if not ret then fail "shrink/model" "model: equality, library returned false";
       let e = eq_con dn g.ge k in
       let eg = { ge = { lcoefs = e.ccoefs; lcst = e.ccst }; gm = Z0 } in
       let expect_comp what w (x : comp) (x' : comp) =
         let target = if x.kind = 'P' then { mempty = x.empty; mcons = x.cons @ [e]; mcgs = [] } else { mempty = x.empty; mcons = []; mcgs = x.cgs @ [eg] } in
         if x.kind = 'G' || is_poly w then judge "shrink/model" ("model: " ^ what ^ " component is not the old one with the equality added") (comp_equiv_meet dim x' target)
         else begin (* boxes / BD shapes refine approximately: between the exact refinement and the old value *)
           judge "shrink/model" ("model: " ^ what ^ " component lost points of the exact refinement") (incl_meet dim target (comp_meet x'));
           judge "shrink/model" ("model: " ^ what ^ " component gained points") (comp_incl dim x' x)
         end in
       expect_comp "first" wa a a'; expect_comp "second" wb b b');
    (* independent of the model: no common point may be lost *)
    witness := "";
    judge "shrink/lost-point" ((if !law_broken && maxmin_suspect_expr dim b g.ge then tag_maxmin else "") ^ "a common point was lost " ^ !witness) (incl_meet dim (inter (comp_meet a) (comp_meet b)) (inter (comp_meet a') (comp_meet b')))
  end

(* ---- exact images on constraint systems; sampled images on points ---- *)

(* image check: [exact_img] builds the exact image system from the old meet's system (None: not available);
   [pt_img] maps a sample point of the old meet to points that must be in the new meet *)
let check_image kind dim_new (mo : meet) dim_old (mn : meet) (exact_img : (sys -> sys) option) (pt_img : q list -> q list list) =
  witness := "";
  if mo.mempty then (incr checks; bump "image-trivial")
  else if exact mo && exact mn && exact_img <> None then begin
    bump "image-exact";
    let f = (match exact_img with Some f -> f | None -> assert false) in
    judge kind "result does not contain the exact image of the old intersection"
      (timed (fun () -> j_incl (nat (dim_new + 1)) (f (to_sys mo)) (to_sys mn)) None)
  end else begin
    bump "image-sampled"; incr sampled;
    match timed (fun () -> samples_of dim_old mo) None with
    | None -> incr checks; undec kind
    | Some pts ->
      let bad = ref None in
      List.iter (fun p -> List.iter (fun q -> incr sample_points; if !bad = None && not (mem_meet mn q) then bad := Some (p, q)) (pt_img p)) pts;
      judge kind (match !bad with Some (p, q) -> "image " ^ string_of_pt q ^ " of point " ^ string_of_pt p ^ " of the old intersection is not in the result" | None -> "")
        (Some (!bad = None))
  end

let read_rel c = match next c with "<" -> Some RLT | "<=" -> Some RLE | "==" -> Some REQ | ">=" -> Some RGE | ">" -> Some RGT | _ -> None

(* preimages when a grid takes part: candidate points q (lattice of the NEW meet, aimed at its constraints, and a rational window);
   [pre q] = a point p related to q by the transformer (or None); when p is in the old meet, q must be in the result *)
let preimage_by_candidates kfail dim (mo : meet) (mn : meet) (pre : q list -> q list option) =
  incr sampled; bump "image-sampled";
  let cand = (match timed (fun () -> lattice_points_aimed dim mn.mcgs mn.mcons) None with Some l -> l | None -> []) in
  let cand2 = (match timed (fun () -> lattice_points_aimed dim mo.mcgs mo.mcons) None with Some l -> l | None -> []) in
  let cand3 = (match timed (fun () -> lattice_points dim []) None with Some l -> l | None -> []) in
  let bad = List.find_opt (fun qv -> incr sample_points;
    (match pre qv with Some p -> mem_meet mo p && not (mem_meet mn qv) | None -> false)) (cand @ cand2 @ cand3) in
  judge kfail (match bad with Some qv -> "point " ^ string_of_pt qv ^ " of the preimage is not in the result" | None -> "") (Some (bad = None))

let few_values = [q_of_int 0; q_of_int 1; q_of_int (-1); q_half 1; q_half (-3); q_of_int 5; q_of_int (-7)]

(* ---- main loop over a case ---- *)
let states : (int, st) Hashtbl.t = Hashtbl.create 8

let () =
  let cf = open_in Sys.argv.(1) and ob = open_in Sys.argv.(2) in
  let obs_pending = ref None in
  let read_obs () = match !obs_pending with Some l -> obs_pending := None; Some l | None -> (try Some (input_line ob) with End_of_file -> None) in
  let unread l = obs_pending := Some l in
  let rec read_states acc = match read_obs () with
    | Some l when String.length l > 3 && String.sub l 0 3 = "st " -> read_states (parse_st l :: acc)
    | Some l -> unread l; List.rev acc
    | None -> List.rev acc in
  (try while true do
    let line = input_line cf in
    let c = { t = split line } in
    if more c then begin
      let cmd = next c in
      cur_line := line;
      match cmd with
      | "case" ->
        incr cases; nt := 0; cur_case := next c; pair := next c; red := (next c).[0]; cur_step := 0; Hashtbl.reset states;
        bump ("pair:" ^ !pair); bump ("policy:" ^ String.make 1 !red);
        (match read_obs () with Some l when l = "case " ^ !cur_case -> () | Some l -> raise (Syntax ("obs out of step: " ^ l)) | None -> raise (Syntax "obs ended"))
      | "end" -> Printf.printf "NT %s %d\n" !cur_case !nt; (match read_obs () with Some "end" -> () | Some l -> raise (Syntax ("obs out of step at end: " ^ l)) | None -> ())
      | _ when cmd.[0] = '#' -> ()
      | _ ->
        incr cur_step; incr steps; tainted := false;
        let resp = (match read_obs () with Some l -> l | None -> raise (Syntax "obs ended")) in
        (* a `ret b` line may precede `res` *)
        let ret, resp = if String.length resp > 4 && String.sub resp 0 4 = "ret " then (Some (String.sub resp 4 1 = "1"), (match read_obs () with Some l -> l | None -> "")) else None, resp in
        ignore ret;
        let news = read_states [] in
        (* an object one of whose COMPONENTS reported OK() == false is in a state its own class invariant does not describe
           (a defect of that component domain: C03-C05's subject): what the printed constraints say about it is meaningless,
           so transitions starting from such a state are not judged *)
        let old id = (try let o = Hashtbl.find states id in
                          if o.ok1 && o.ok2 then Some o else (bump "not-owned:transition-from-component-OK-false"; None)
                      with Not_found -> None) in
        let r = { t = split resp } in
        let head = next r in
        let exn = (head = "res" && (match r.t with "exn" :: _ -> true | _ -> false)) in
        (try
          (match cmd with
           | "new" | "copy" | "set" | "setempty" ->
             let id = nexti c in
             List.iter (fun n -> if n.sid <> id then (match old n.sid with Some o -> check_reduce_like o n ~must_flag:false | None -> ())) news;
             List.iter (fun n -> if n.sid = id then check_ok n "construction") news;
             bump ("cmd:" ^ cmd)
           | "red" ->
             let id = nexti c in
             List.iter (fun n -> match old n.sid with
               | Some o -> check_reduce_like o n ~must_flag:(n.sid = id);
                 check_ok n "reduce()"
               | None -> ()) news;
             bump "cmd:red"
           | "shrink" ->
             let id = nexti c in let dir = nexti c in
             List.iter (fun n -> match old n.sid with Some o -> check_reduce_like o n ~must_flag:false | None -> ()) news;
             (match old id with
              | Some o -> expect r "shr"; check_shrink o dir r
              | None -> ());
             bump "cmd:shrink"
           | "qry" ->
             let id = nexti c in let q = next c in
             bump ("qry:" ^ q);
             let reducing = not (List.mem q ["is_universe"]) in
             List.iter (fun n -> match old n.sid with
               | Some o -> check_reduce_like o n ~must_flag:(reducing && n.sid = id && not exn);
                 check_ok n q
               | None -> ()) news;
             if not exn then begin
               match old id with
               | None -> ()
               | Some x ->
                 let dim = x.dim in
                 let mx = meet_of x in
                 let k = "qry:" ^ q in
                 let ansb () = expect r "b"; nexti r = 1 in
                 let arg () = let y = nexti c in match old y with Some s -> meet_of s | None -> raise (Syntax "unknown arg") in
                 (match q with
                  | "is_empty" -> if ansb () then (witness := ""; judge k ("answered empty, intersection is not: " ^ !witness) (empty_meet dim mx)) else bump "answer-indefinite"
                  | "is_universe" -> if ansb () then judge k "answered universe" (incl_meet dim universe mx) else bump "answer-indefinite"
                  | "is_bounded" ->
                    if ansb () then begin
                      if exact mx then judge k "answered bounded, intersection unbounded" (timed (fun () -> j_is_bounded (nat dim) (to_sys mx)) None)
                      else begin
                        let cb (cm : comp) = if cm.empty then Some true else if cm.kind = 'P' then timed (fun () -> j_is_bounded (nat dim) (comp_sys cm)) None
                          else (match timed (fun () -> j_grid_gens (nat dim) cm.cgs) None with
                                | Some g -> Some (List.for_all (function QPoint _ -> true | _ -> false) g) | None -> None) in
                        let xn = (match List.find_opt (fun n -> n.sid = id) news with Some n -> n | None -> x) in
                        let v = (match cb xn.c1, cb xn.c2 with Some true, _ | _, Some true -> Some true | Some false, Some false -> Some false | _ -> None) in
                        judge k "answered bounded, no component is bounded" v
                      end
                    end else bump "answer-indefinite"
                  | "contains" -> let my = arg () in if ansb () then (witness := ""; judge k ("answered contains, a point of the argument is outside " ^ !witness) (incl_meet dim my mx)) else bump "answer-indefinite"
                  | "is_disjoint_from" -> let my = arg () in if ansb () then (witness := ""; judge k ("answered disjoint, common point " ^ !witness) (empty_meet dim (inter mx my))) else bump "answer-indefinite"
                  | "relation_with_con" ->
                    let kc = read_con c dim in
                    expect r "rel"; let dj = nexti r = 1 in let inc = nexti r = 1 in let sa = nexti r = 1 in
                    witness := "";
                    if dj then judge k ("answered is_disjoint " ^ !witness) (empty_meet dim (restrict mx [kc] []));
                    if inc then judge k ("answered is_included " ^ !witness) (incl_meet dim mx (restrict universe [kc] []));
                    if sa then judge k ("answered saturates " ^ !witness) (incl_meet dim mx (restrict universe [{ kc with ckd = EQ }] []));
                    if not (dj || inc || sa) then bump "answer-indefinite"
                  | "relation_with_cg" ->
                    let g = read_cg c dim in
                    expect r "rel"; let dj = nexti r = 1 in let inc = nexti r = 1 in let _ = nexti r in let _ = nexti r in
                    (* the components' own answers (when the harness printed them) *)
                    let c1dj, c1inc, c2dj, c2inc = (match r.t with
                      | "comp" :: a :: b :: c' :: d' :: _ -> a = "1", b = "1", c' = "1", d' = "1"
                      | _ -> false, false, false, false) in
                    (* a wrong definite answer that a Box / BD_Shape / Octagonal_Shape component gives on its own (its
                       relation_with(Congruence) works on interval bounds and mishandles non-unit coefficients / rational bounds) *)
                    let weak w = (match dom_name w with "Rational_Box" -> true | _ -> false) in
                    (* when the product's definite answer is refuted by a witness point of the intersection, that point lies in
                       every component: a component that gave the same definite answer on its own is refuted by the same point *)
                    let tag_for cdj1 cdj2 = (if weak 1 && cdj1 then "[component-relation-cg " ^ dom_name 1 ^ "] "
                                             else if weak 2 && cdj2 then "[component-relation-cg " ^ dom_name 2 ^ "] " else "") in
                    witness := "";
                    if dj then judge k (tag_for c1dj c2dj ^ "answered is_disjoint " ^ !witness) (empty_meet dim (restrict mx [] [g]));
                    if inc then judge k (tag_for c1inc c2inc ^ "answered is_included " ^ !witness) (incl_meet dim mx (restrict universe [] [g]));
                    if not (dj || inc) then bump "answer-indefinite"
                  | "relation_with_gen" ->
                    (* subsumes: adding the generator does not change the product.  A point must belong to the intersection
                       (closure points: to its closure -- not judged); a ray / line must keep every point of the intersection inside *)
                    let gk = next c in let dv = nextz c in let co = take_z c dim in
                    if ansb () then begin
                      (match gk with
                       | "p" ->
                         let pt = List.map (fun n -> qdiv_z (inject_Z n) dv) co in
                         incr checks; incr nt;
                         if not (mem_meet mx pt) then fail k ("answered subsumes, the point " ^ string_of_pt pt ^ " is not in the intersection"
                           ^ (if not (mem_comp x.c1 pt) then " (outside component 1)" else "") ^ (if not (mem_comp x.c2 pt) then " (outside component 2)" else ""))
                       | "r" | "l" ->
                         let dir = List.map inject_Z co in
                         incr sampled;
                         (match timed (fun () -> samples_of dim mx) None with
                          | None -> incr checks; undec k
                          | Some pts ->
                            let ts = if gk = "r" then [q_of_int 1; q_of_int 3; q_half 1] else [q_of_int 1; q_of_int (-1); q_of_int 4; q_half (-3)] in
                            let bad = ref None in
                            List.iter (fun p -> List.iter (fun t -> incr sample_points;
                              let p' = vadd p (vscale t dir) in if !bad = None && not (mem_meet mx p') then bad := Some (p, p')) ts) pts;
                            judge k (match !bad with Some (p, p') -> "answered subsumes, but " ^ string_of_pt p ^ " is in the intersection and " ^ string_of_pt p' ^ " is not" | None -> "") (Some (!bad = None)))
                       | _ -> bump "not-judged")
                    end else bump "answer-indefinite"
                  | "maximize" | "minimize" ->
                    let e = read_expr c dim in
                    expect r "opt";
                    if nexti r = 1 then begin
                      let n = nextz r in let d = nextz r in
                      incr checks;
                      if not (zpos d) then fail k "non-positive denominator"
                      else begin
                        (* e(p) * d <= n  (maximize),  >= n (minimize) for every point of the intersection *)
                        let bound = if q = "maximize"
                          then { ccoefs = List.map (fun a -> zneg (Z.mul d a)) e.lcoefs; ccst = Z.sub n (Z.mul d e.lcst); ckd = GE }
                          else { ccoefs = List.map (fun a -> Z.mul d a) e.lcoefs; ccst = Z.sub (Z.mul d e.lcst) n; ckd = GE } in
                        witness := "";
                        let tag = if maxmin_suspect_expr dim x.c1 e || maxmin_suspect_expr dim x.c2 e then tag_maxmin else "" in
                        judge k (tag ^ "returned bound is exceeded in the intersection " ^ !witness) (incl_meet dim mx (restrict universe [bound] []))
                      end
                    end else bump "answer-indefinite"
                  | "bounds_from_above" | "bounds_from_below" ->
                    let e = read_expr c dim in
                    if ansb () then begin
                      if exact mx then begin
                        let res = timed (fun () -> if q = "bounds_from_above" then j_sup (nat dim) e (to_sys mx) else j_inf (nat dim) e (to_sys mx)) None in
                        judge k "answered bounded, expression unbounded on the intersection" (match res with Some SupUnbounded -> Some false | Some _ -> Some true | None -> None)
                      end else bump "not-judged"
                    end else bump "answer-indefinite"
                  | "constraints" | "minimized_constraints" ->
                    expect r "cons"; let cs = read_cons r dim in
                    witness := "";
                    judge k ("a point of the intersection violates the returned constraints " ^ !witness) (incl_meet dim mx (restrict universe cs []))
                  | "congruences" ->
                    expect r "cgs"; let gs = read_cgs r dim in
                    witness := "";
                    judge k ("a point of the intersection violates the returned congruences " ^ !witness) (incl_meet dim mx (restrict universe [] gs))
                  | _ -> bump "not-judged")
             end
           | "op" ->
             let id = nexti c in let op = next c in
             bump ("op:" ^ op);
             if exn then bump ("exn:" ^ op);
             let kfail = "op:" ^ op ^ "/image" in
             List.iter (fun n -> if n.sid <> id then (match old n.sid with Some o -> check_reduce_like o n ~must_flag:false | None -> ())) news;
             (match old id, List.find_opt (fun n -> n.sid = id) news with
              | Some x, Some x' when not exn ->
                check_ok x' op;
                (* the flag after a mutator, as Partially_Reduced_Product_inlines.hh has it *)
                let yflag () = (match c.t with y :: _ -> (match old (int_of_string y) with Some s -> s.flag | None -> true) | [] -> true) in
                let expected_flag = (match op with
                  | "add_constraint" | "refine_with_constraint" | "add_constraints" | "refine_with_constraints" | "add_congruence"
                  | "refine_with_congruence" | "refine_with_congruences" | "intersection_assign" | "difference_assign" | "affine_image"
                  | "affine_preimage" | "generalized_affine_image" | "generalized_affine_preimage"
                  | "generalized_affine_image_lhs" | "generalized_affine_preimage_lhs" | "bounded_affine_image" | "bounded_affine_preimage"
                  | "add_congruences" -> Some false
                  | "upper_bound_assign" | "upper_bound_assign_if_exact" | "time_elapse_assign" | "unconstrain" | "unconstrain_set"
                  | "widening_assign" -> Some true
                  | "topological_closure_assign" | "add_space_dimensions_and_embed" | "add_space_dimensions_and_project"
                  | "remove_higher_space_dimensions" | "remove_space_dimensions" | "map_space_dimensions" | "expand_space_dimension"
                  | "fold_space_dimensions" -> Some x.flag
                  | "concatenate_assign" -> Some (x.flag && yflag ())
                  | "assign" -> Some (yflag ())
                  | _ -> None) in
                (match expected_flag with
                 | Some b -> incr checks; if x'.flag <> b then fail "flag/model" (Printf.sprintf "reduced flag is %b after %s, the transcribed member leaves it %b" x'.flag op b)
                 | None -> ());
                let dim = x.dim in
                let mo = meet_of x and mn = meet_of x' in
                let argm () = let y = nexti c in match old y with Some s -> s | None -> raise (Syntax "unknown arg") in
                let restrict_op cs cgs =
                  let mo' = restrict mo cs cgs in
                  (* exact or sampled inclusion of the restricted old meet in the new one *)
                  witness := ""; judge kfail ("lost " ^ !witness) (incl_meet dim mo' mn) in
                (match op with
                 | "add_constraint" | "refine_with_constraint" -> restrict_op [read_con c dim] []
                 | "add_constraints" | "refine_with_constraints" -> restrict_op (read_cons c dim) []
                 | "add_congruence" | "refine_with_congruence" -> restrict_op [] [read_cg c dim]
                 | "refine_with_congruences" -> restrict_op [] (read_cgs c dim)
                 | "intersection_assign" -> let y = argm () in witness := ""; judge kfail ("lost " ^ !witness) (incl_meet dim (inter mo (meet_of y)) mn)
                 | "upper_bound_assign" | "upper_bound_assign_if_exact" ->
                   let y = argm () in
                   if op = "upper_bound_assign" || ret = Some true then begin
                     witness := ""; judge kfail ("lost (receiver) " ^ !witness) (incl_meet dim mo mn);
                     witness := ""; judge kfail ("lost (argument) " ^ !witness) (incl_meet dim (meet_of y) mn)
                   end else begin
                     witness := ""; judge kfail ("lost (receiver) " ^ !witness) (incl_meet dim mo mn)
                   end
                 | "difference_assign" ->
                   let y = argm () in let my = meet_of y in
                   (* meet(x) \ meet(y) = union over the constraints c of meet(y) of  meet(x) /\ not c;  congruences of y: sampled *)
                   (* an argument one of whose COMPONENTS is itself empty, under a policy that reduces: reduce() smashes it
                      first, so the known component-wise defect of difference_assign cannot lose a point; judged under a
                      kind of its own, which the known finding does not match.  (Under the Direct policy, or when the
                      argument is empty only as an intersection, the component-wise defect does apply.) *)
                   if my.mempty && !red <> 'D' && (y.c1.empty || y.c2.empty) then
                     (witness := ""; judge "op:difference_assign/empty-arg" ("lost although a component of the argument is empty " ^ !witness) (incl_meet dim mo mn))
                   else if my.mempty then (witness := ""; judge kfail ("lost " ^ !witness) (incl_meet dim mo mn))
                   else if exact my then begin
                     let ycons = my.mcons @ List.map eq_of_cg my.mcgs in
                     List.iter (fun yc -> List.iter (fun nc -> witness := "";
                       judge kfail ("a point of the difference was lost " ^ !witness) (incl_meet dim (restrict mo [nc] []) mn)) (j_neg_con yc)) ycons
                   end else begin
                     incr sampled;
                     match timed (fun () -> samples_of dim mo) None with
                     | None -> incr checks; undec kfail
                     | Some pts ->
                       let bad = List.find_opt (fun p -> not (mem_meet my p) && not (mem_meet mn p)) pts in
                       sample_points := !sample_points + List.length pts;
                       judge kfail (match bad with Some p -> "point " ^ string_of_pt p ^ " of the difference was lost" | None -> "") (Some (bad = None))
                   end
                 | "time_elapse_assign" ->
                   let y = argm () in let my = meet_of y in
                   (match timed (fun () -> samples_of dim my) None with
                    | None -> incr checks; undec kfail
                    | Some qs ->
                      let qs = List.filteri (fun i _ -> i < 12) qs in
                      check_image kfail dim mo dim mn None (fun p -> List.concat_map (fun qv -> List.map (fun t -> vadd p (vscale t qv)) [q_of_int 0; q_of_int 1; q_of_int 2; q_of_int 3]) qs))
                 | "concatenate_assign" ->
                   let y = argm () in let my = meet_of y in
                   (match timed (fun () -> samples_of y.dim my) None with
                    | None -> incr checks; undec kfail
                    | Some qs ->
                      let qs = List.filteri (fun i _ -> i < 20) qs in
                      let ex = if exact my then Some (fun s -> j_concatenate (nat dim) s (to_sys my)) else None in
                      check_image kfail (dim + y.dim) mo dim mn ex (fun p -> List.map (fun qv -> p @ qv) qs))
                 | "assign" -> let y = argm () in witness := ""; judge kfail ("lost " ^ !witness) (incl_meet dim (meet_of y) mn)
                 | "topological_closure_assign" -> witness := ""; judge kfail ("lost " ^ !witness) (incl_meet dim mo mn)
                 | "affine_image" ->
                   let v = nexti c in let d = nextz c in let e = read_expr c dim in
                   check_image kfail dim mo dim mn (Some (fun s -> j_affine_image (nat v) (nat dim) e d s))
                     (fun p -> [set_nth p v (qdiv_z (leval_pt e p) d)])
                 | "affine_preimage" ->
                   let v = nexti c in let d = nextz c in let e = read_expr c dim in
                   if exact mo && exact mn then
                     check_image kfail dim mo dim mn (Some (fun s -> j_affine_preimage (nat v) (nat dim) e d s)) (fun _ -> [])
                   else begin
                     (* candidates q from the lattice of the NEW meet and a half-integer window; q is in the preimage when f(q) is in the old meet *)
                     incr sampled; bump "image-sampled";
                     let cand = (match timed (fun () -> lattice_points dim mn.mcgs) None with Some l -> l | None -> []) in
                     let cand2 = (match timed (fun () -> lattice_points dim []) None with Some l -> l | None -> []) in
                     let bad = List.find_opt (fun qv -> incr sample_points;
                       mem_meet mo (set_nth qv v (qdiv_z (leval_pt e qv) d)) && not (mem_meet mn qv)) (cand @ cand2) in
                     judge kfail (match bad with Some qv -> "point " ^ string_of_pt qv ^ " of the preimage is not in the result" | None -> "") (Some (bad = None))
                   end
                 | "unconstrain" ->
                   let v = nexti c in
                   check_image kfail dim mo dim mn (Some (fun s -> j_unconstrain (nat v) s)) (fun p -> List.map (fun w -> set_nth p v w) few_values)
                 | "add_space_dimensions_and_embed" ->
                   let m = nexti c in
                   check_image kfail (dim + m) mo dim mn (Some (fun s -> s)) (fun p -> List.map (fun w -> p @ List.init m (fun _ -> w)) few_values)
                 | "add_space_dimensions_and_project" ->
                   let m = nexti c in
                   check_image kfail (dim + m) mo dim mn (Some (fun s -> j_project (nat dim) (nat m) s)) (fun p -> [p @ List.init m (fun _ -> q_of_int 0)])
                 | "remove_higher_space_dimensions" ->
                   let k = nexti c in
                   check_image kfail k mo dim mn (Some (fun s -> j_remove_higher (nat k) (nat dim) s)) (fun p -> [List.filteri (fun i _ -> i < k) p])
                 | "add_congruences" -> restrict_op [] (read_cgs c dim)
                 | "generalized_affine_image" ->
                   let v = nexti c in let r = read_rel c in let d = nextz c in let e = read_expr c dim in
                   (match r with
                    | None -> bump "not-judged"
                    | Some r ->
                      (* sample images: the value e(p)/d itself when the relation admits equality *)
                      let pts p = if r = RLT || r = RGT then [] else [set_nth p v (qdiv_z (leval_pt e p) d)] in
                      check_image kfail dim mo dim mn (Some (fun s -> j_gen_image (nat v) (nat dim) r e d s)) pts)
                 | "generalized_affine_preimage" ->
                   let v = nexti c in let r = read_rel c in let d = nextz c in let e = read_expr c dim in
                   (match r with
                    | None -> bump "not-judged"
                    | Some r ->
                      if exact mo && exact mn then
                        check_image kfail dim mo dim mn (Some (fun s -> j_gen_preimage (nat v) (nat dim) r e d s)) (fun _ -> [])
                      else preimage_by_candidates kfail dim mo mn (fun qv ->
                        if r = RLT || r = RGT then None else Some (set_nth qv v (qdiv_z (leval_pt e qv) d))))
                 | "bounded_affine_image" ->
                   let v = nexti c in let d = nextz c in let lb = read_expr c dim in let ub = read_expr c dim in
                   let pts p = let l = qdiv_z (leval_pt lb p) d and u = qdiv_z (leval_pt ub p) d in
                     if qle_bool l u then [set_nth p v l; set_nth p v u] else [] in
                   check_image kfail dim mo dim mn (Some (fun s -> j_bounded_image (nat v) (nat dim) lb ub d s)) pts
                 | "bounded_affine_preimage" ->
                   let v = nexti c in let d = nextz c in let lb = read_expr c dim in let ub = read_expr c dim in
                   if exact mo && exact mn then
                     check_image kfail dim mo dim mn (Some (fun s -> j_bounded_preimage (nat v) (nat dim) lb ub d s)) (fun _ -> [])
                   else preimage_by_candidates kfail dim mo mn (fun qv ->
                     let l = qdiv_z (leval_pt lb qv) d and u = qdiv_z (leval_pt ub qv) d in
                     if qle_bool l u then Some (set_nth qv v l) else None)
                 | "generalized_affine_image_lhs" ->
                   (* lhs' rel rhs, only the variables of lhs change: no reference operator; images of sample points obtained by
                      moving one variable of lhs so that lhs' = rhs (when the relation admits equality) *)
                   let l = read_expr c dim in let r = read_rel c in let e = read_expr c dim in
                   let pts p = (match r with
                     | Some RLT | Some RGT | None -> []
                     | _ -> List.concat (List.mapi (fun k a -> if is_z0 a || k >= dim then [] else
                              let rest = j_qadd (leval_pt l p) (j_qmul (q_of_int (-1)) (j_qmul (inject_Z a) (nth_q p k))) in
                              [set_nth p k (qdiv_z (j_qadd (leval_pt e p) (j_qmul (q_of_int (-1)) rest)) a)]) l.lcoefs)) in
                   check_image kfail dim mo dim mn None pts
                 | "generalized_affine_preimage_lhs" ->
                   let l = read_expr c dim in let r = read_rel c in let e = read_expr c dim in
                   (match r with
                    | Some RLT | Some RGT | None -> bump "not-judged"
                    | _ ->
                      (match List.find_opt (fun k -> k < dim && not (is_z0 (List.nth l.lcoefs k))) (List.init (List.length l.lcoefs) (fun k -> k)) with
                       | None -> bump "not-judged"
                       | Some k ->
                         let a = List.nth l.lcoefs k in
                         preimage_by_candidates kfail dim mo mn (fun qv ->
                           (* p = qv with x_k moved so that lhs(p) = rhs(qv) *)
                           let rest = j_qadd (leval_pt l qv) (j_qmul (q_of_int (-1)) (j_qmul (inject_Z a) (nth_q qv k))) in
                           Some (set_nth qv k (qdiv_z (j_qadd (leval_pt e qv) (j_qmul (q_of_int (-1)) rest)) a)))))
                 | "unconstrain_set" ->
                   let k = nexti c in let vs = List.init k (fun _ -> nexti c) in
                   check_image kfail dim mo dim mn (Some (fun s -> j_unconstrain_set (List.map nat vs) s))
                     (fun p -> List.map (fun w -> List.fold_left (fun p v -> set_nth p v w) p vs) few_values)
                 | "remove_space_dimensions" ->
                   let k = nexti c in let vs = List.init k (fun _ -> nexti c) in
                   let cnt = ref 0 in
                   let pf = List.init dim (fun i -> if List.mem i vs then None else (let j = !cnt in incr cnt; Some (nat j))) in
                   check_image kfail !cnt mo dim mn (Some (fun s -> j_map_dims pf (nat (dim + 1)) s)) (fun p -> [List.filteri (fun i _ -> not (List.mem i vs)) p])
                 | "map_space_dimensions" ->
                   let k = nexti c in let m = List.init k (fun _ -> nexti c) in
                   let pf = List.map (fun j -> if j < 0 then None else Some (nat j)) m in
                   let nd = List.fold_left (fun a j -> if j >= 0 then max a (j + 1) else a) 0 m in
                   check_image kfail nd mo dim mn (Some (fun s -> j_map_dims pf (nat (max dim nd + 1)) s))
                     (fun p -> [List.init nd (fun j -> let rec find i = function [] -> q_of_int 0 | x :: r -> if x = j then nth_q p i else find (i + 1) r in find 0 m)])
                 | "expand_space_dimension" ->
                   let v = nexti c in let m = nexti c in
                   check_image kfail (dim + m) mo dim mn (Some (fun s -> j_expand (nat v) (nat dim) (nat m) s)) (fun p -> [p @ List.init m (fun _ -> nth_q p v)])
                 | "fold_space_dimensions" ->
                   (* no reference operator: every point with dest replaced by the value of one of the folded variables (or kept) *)
                   let k = nexti c in let vs = List.init k (fun _ -> nexti c) in let dst = nexti c in
                   check_image kfail (dim - k) mo dim mn None
                     (fun p -> List.map (fun u -> List.filteri (fun i _ -> not (List.mem i vs)) (set_nth p dst (nth_q p u))) (dst :: vs))
                 | "widening_assign" -> let _ = argm () in witness := ""; judge kfail ("lost (receiver) " ^ !witness) (incl_meet dim mo mn)
                 | _ -> bump "not-judged")
              | _ -> ())
           | _ -> raise (Syntax ("unknown command " ^ cmd)))
        with Syntax m -> Printf.printf "FAIL %s %d judge/syntax | %s | %s\n" !cur_case !cur_step line m);
        List.iter (fun n -> Hashtbl.replace states n.sid n) news
    end
  done with End_of_file -> ());
  Printf.printf "STAT steps %d checks %d undecided %d cases %d sampled %d points %d\n" !steps !checks !undecided !cases !sampled !sample_points;
  Printf.printf "COV exhaustive-1dim-slices %d\n" !exhaustive_slices;
  Hashtbl.iter (fun k v -> Printf.printf "COV %s %d\n" k v) cov
