(* C16 driver (untrusted glue): runs histories on the extracted models (gen/rows.ml) and prints one
   observation line per operation, in the same format as harness/run_rows.cc. *)
open Rows

(* ---- number conversions ---- *)
let rec pos_of_int n = if n = 1 then XH else if n land 1 = 0 then XO (pos_of_int (n lsr 1)) else XI (pos_of_int (n lsr 1))
let n_of_int i = if i <= 0 then N0 else Npos (pos_of_int i)
let rec int_of_pos = function XH -> 1 | XO p -> 2 * int_of_pos p | XI p -> 2 * int_of_pos p + 1
let int_of_n = function N0 -> 0 | Npos p -> int_of_pos p
let z_of_int i = if i = 0 then Z0 else if i > 0 then Zpos (pos_of_int i) else Zneg (pos_of_int (-i))
let ten = z_of_int 10
let z_of_string s =
  let s = String.trim s in
  let neg, s = if String.length s > 0 && s.[0] = '-' then true, String.sub s 1 (String.length s - 1) else false, s in
  if String.length s = 0 then failwith "z_of_string";
  let r = ref Z0 in
  String.iter (fun ch -> if ch < '0' || ch > '9' then failwith ("z_of_string: " ^ s);
                r := Z.add (Z.mul !r ten) (z_of_int (Char.code ch - 48))) s;
  if neg then Z.opp !r else !r
let string_of_z z =
  let rec digits z acc = match z with
    | Z0 -> acc
    | _ -> let q = Z.div z ten and r = Z.modulo z ten in
           let d = (match r with Z0 -> 0 | Zpos p -> int_of_pos p | Zneg _ -> 0) in
           digits q (Char.chr (48 + d) :: acc) in
  let str l = String.init (List.length l) (List.nth l) in
  match z with
  | Z0 -> "0"
  | Zpos _ -> str (digits z [])
  | Zneg p -> "-" ^ str (digits (Zpos p) [])
let rec nat_of_int n = if n <= 0 then O else S (nat_of_int (n - 1))

(* ---- layout printing / hashing (same arithmetic as the C++ side) ---- *)
let modulus = 2147483647
let vhash s = let h = ref 0 in String.iter (fun c -> h := (!h * 131 + Char.code c) mod modulus) s; !h
let layout_string (t : tree0) =
  let r = int_of_n t.t_rsz in
  if r <= 31 then
    String.concat "," (List.map (function None -> "-" | Some (k, d) -> string_of_int (int_of_n k) ^ ":" ^ string_of_z d) (layout t))
  else begin
    let h = ref 7 in
    for i = 1 to r do
      match aget t.t_arr (n_of_int i) with
      | None -> h := (!h * 1000003) mod modulus
      | Some (k, d) -> h := (!h * 1000003 + (int_of_n k mod modulus) * 31 + vhash (string_of_z d) + 1) mod modulus
    done;
    "#" ^ string_of_int !h
  end

(* for big trees (reserved_size > 255) the O(R) parts of the observation (OK(), layout hash) are printed
   on every 4th operation of the history and on every iteration only; both sides use the same rule *)
let opcount = ref 0
let obs name ret (s : srow) =
  let t = s.s_tree in
  incr opcount;
  let full = int_of_n t.t_rsz <= 255 || !opcount mod 4 = 0 || name = "iter" in
  Printf.printf "%s ret=%s S=%d R=%d D=%d n=%d ok=%s lay=%s\n" name ret
    (int_of_n t.t_size) (int_of_n t.t_rsz) (int_of_n t.t_depth) (int_of_n s.s_size)
    (if full then (if srow_ok s then "1" else "0") else "~") (if full then layout_string t else "~")

(* ---- tree histories ---- *)
let nreg = 4
let regs = Array.make nreg { s_tree = empty_tree; s_size = N0 }
let prev = Array.make nreg 1      (* dfs index returned by the previous operation on the register *)
let erased = Array.make nreg 1    (* dfs index of the most recently erased element *)

let scan_up_t (t : tree0) p = int_of_n (scan_up (fuel_of t.t_rsz) t.t_arr t.t_rsz (n_of_int p))
let scan_down_t (t : tree0) p = int_of_n (scan_down (fuel_of t.t_rsz) t.t_arr t.t_rsz (n_of_int p))

(* hint tokens: B E L P D K<key> R<raw>; all resolve to a valid iterator (used slot or end) *)
let resolve r tok =
  let t = regs.(r).s_tree in
  let rr = int_of_n t.t_rsz in
  let e = rr + 1 in
  if int_of_n t.t_size = 0 then e else
  let raw = match tok.[0] with
    | 'B' -> 1
    | 'E' -> e
    | 'L' -> let p = scan_down_t t rr in if p = 0 then e else p
    | 'P' -> prev.(r)
    | 'D' -> erased.(r)
    | 'K' -> int_of_n (lower_bound t (n_of_int (int_of_string (String.sub tok 1 (String.length tok - 1)))))
    | 'R' -> int_of_string (String.sub tok 1 (String.length tok - 1))
    | _ -> failwith ("hint " ^ tok) in
  let raw = max 1 (min raw e) in
  scan_up_t t raw

let set r s = regs.(r) <- s
let with_tree r (t, p) = regs.(r) <- { (regs.(r)) with s_tree = t }; prev.(r) <- int_of_n p; int_of_n p

let tree_op toks =
  let i k = int_of_string (List.nth toks k) in
  let nn k = n_of_int (i k) in
  let zz k = z_of_string (List.nth toks k) in
  let name = List.hd toks in
  let r = i 1 in
  let t () = regs.(r).s_tree in
  let ret = ref "-" in
  (match name with
   | "new" -> set r { s_tree = empty_tree; s_size = nn 2 }; prev.(r) <- 1; erased.(r) <- 1
   | "ins" -> ret := string_of_int (with_tree r (insert (t ()) (nn 2) (zz 3)))
   | "insk" -> ret := string_of_int (with_tree r (insert_key (t ()) (nn 2)))
   | "insh" -> let h = resolve r (List.nth toks 2) in
               ret := string_of_int (with_tree r (insert_hint (t ()) (n_of_int h) (nn 3) (Some (zz 4))))
   | "inshk" -> let h = resolve r (List.nth toks 2) in
                ret := string_of_int (with_tree r (insert_hint (t ()) (n_of_int h) (nn 3) None))
   | "era" ->
     let p = find0 (t ()) (nn 2) in
     if int_of_n (t ()).t_size > 0 && int_of_n p <> int_of_n (t_end (t ())) then erased.(r) <- int_of_n p;
     ret := string_of_int (with_tree r (erase_key (t ()) (nn 2)))
   | "erap" -> let h = resolve r (List.nth toks 2) in
               if h <> int_of_n (t_end (t ())) then begin
                 erased.(r) <- h;
                 ret := string_of_int (with_tree r (erase_pos (t ()) (n_of_int h))) end
   | "easl" -> set r (delete_element_and_shift regs.(r) (nn 2))
   | "incr" -> set r (add_zeroes_and_shift regs.(r) (nn 3) (nn 2))
   | "get" -> ret := string_of_z (get (t ()) (nn 2))
   | "lb" -> let h = resolve r (List.nth toks 2) in
             let p = int_of_n (lower_bound_near (t ()) (n_of_int h) (nn 3)) in prev.(r) <- p; ret := string_of_int p
   | "find" -> let h = resolve r (List.nth toks 2) in
               ret := string_of_int (int_of_n (find_near (t ()) (n_of_int h) (nn 3)))
   | "bis" -> let h = resolve r (List.nth toks 2) in
              ret := string_of_int (int_of_n (bisect_near (t ()) (n_of_int h) (nn 3)))
   | "swp" -> set r (swap_coefficients regs.(r) (nn 2) (nn 3))
   | "rsa" -> set r (reset_after regs.(r) (nn 2))
   | "rsz" -> set r (resize regs.(r) (nn 2))
   | "rr" -> set r (reset_range regs.(r) (nn 2) (nn 3))
   | "lc" -> set r (linear_combine regs.(r) regs.(i 2) (zz 3) (zz 4))
   | "lcr" -> set r (linear_combine_range regs.(r) regs.(i 2) (zz 3) (zz 4) (nn 5) (nn 6))
   | "eim" -> let tt = t () in
              set r { (regs.(r)) with s_tree = erase_if_mod (nat_of_int (int_of_n tt.t_size + 1)) tt (t_begin tt) (nn 2) (nn 3) }
   | "cpy" -> set r (copy_resized regs.(i 2) (nn 3))
   | "asg" -> set r regs.(i 2)
   | "dconv" | "mixeq" | "mixlc" | "mixswap" | "comb" -> ()
   | "iter" -> ret := String.concat ";" (List.map (fun (k, d) -> string_of_int (int_of_n k) ^ ":" ^ string_of_z d) (abs_tree (t ())))
   | _ -> failwith ("unknown tree op " ^ name));
  (* keep prev/erased meaningful after structural changes: clamp happens in resolve *)
  obs name !ret regs.(r)

let () =
  let ic = if Array.length Sys.argv > 1 then open_in Sys.argv.(1) else stdin in
  (try
     while true do
       let line = String.trim (input_line ic) in
       if line <> "" then begin
         let toks = List.filter (fun s -> s <> "") (String.split_on_char ' ' line) in
         match toks with
         | "H" :: id :: _ ->
           for k = 0 to nreg - 1 do regs.(k) <- { s_tree = empty_tree; s_size = N0 }; prev.(k) <- 1; erased.(k) <- 1 done;
           Rowsle.reset ();
           opcount := 0;
           Printf.printf "H %s\n" id
         | "T" :: rest -> (try tree_op rest with e -> Printf.printf "EXN %s\n" (Printexc.to_string e))
         | "E" :: rest -> (try Rowsle.le_op rest with e -> Printf.printf "EXN %s\n" (Printexc.to_string e))
         | _ -> Printf.printf "?? %s\n" line
       end
     done
   with End_of_file -> ())
