(* C13 judge (untrusted glue around verified functions).
   Reads the trace printed by harness/run_alias.cc.  After every command it knows, from the command alone,
   which pool objects were allowed to change and what copies / assignments / swaps must denote; every other
   object must denote what it denoted before.  "Denote the same set" is decided by
     - Values.equiv_sys   (verified exact, coq/Base/Sys.v)  for constraint descriptions (polyhedra, BD shapes,
                         octagons, boxes over mpq, the product = union of both components' constraints),
     - Grid.gens_equiv  (verified sound, coq/Grid/GridRef.v) for grids (generator descriptions),
     - Values.cover_equiv (verified exact, coq/Values/Cover.v) for powersets (finite unions of polyhedra),
     - text equality for syntactic objects (linear expressions, constraint / generator systems).
   Identical printed descriptions are accepted without calling the oracle (same text = same system).

   usage: judge_alias <tracefile>
     FAIL <case> <step> <kind> | <cmd line> | <detail>
     UNDECIDED <case> <step> <kind> | <cmd line>
     STAT steps n checks n undecided n cases n timeouts n oracle n syntactic n
     COV <key> <count>                                                                        *)

let split s = List.filter (fun x -> x <> "") (String.split_on_char ' ' s)

(* ---- numbers for the two extracted modules (each has its own copy of the binary integer types) ---- *)
module BN = struct
  open Values
  let rec pos_of_int n = if n = 1 then XH else if n land 1 = 0 then XO (pos_of_int (n lsr 1)) else XI (pos_of_int (n lsr 1))
  let z_of_int n = if n = 0 then Z0 else if n > 0 then Zpos (pos_of_int n) else Zneg (pos_of_int (-n))
  let rec nat n = if n <= 0 then O else S (nat (n - 1))
  let ten = z_of_int 10
  let z s =
    let neg, s = if String.length s > 0 && s.[0] = '-' then true, String.sub s 1 (String.length s - 1) else false, s in
    if String.length s = 0 then failwith "z: empty";
    let r = ref Z0 in
    String.iter (fun ch -> if ch < '0' || ch > '9' then failwith ("z: " ^ s); r := Z.add (Z.mul !r ten) (z_of_int (Char.code ch - 48))) s;
    if neg then Z.opp !r else !r
end
module GN = struct
  open Grid
  let rec pos_of_int n = if n = 1 then XH else if n land 1 = 0 then XO (pos_of_int (n lsr 1)) else XI (pos_of_int (n lsr 1))
  let z_of_int n = if n = 0 then Z0 else if n > 0 then Zpos (pos_of_int n) else Zneg (pos_of_int (-n))
  let rec nat n = if n <= 0 then O else S (nat (n - 1))
  let ten = z_of_int 10
  let z s =
    let neg, s = if String.length s > 0 && s.[0] = '-' then true, String.sub s 1 (String.length s - 1) else false, s in
    if String.length s = 0 then failwith "z: empty";
    let r = ref Z0 in
    String.iter (fun ch -> if ch < '0' || ch > '9' then failwith ("z: " ^ s); r := Z.add (Z.mul !r ten) (z_of_int (Char.code ch - 48))) s;
    if neg then Z.opp !r else !r
  let pos s = match z s with Zpos p -> p | _ -> failwith "positive expected"
end

exception Syntax of string
type cur = { mutable t : string list }
let next c = match c.t with x :: r -> c.t <- r; x | [] -> raise (Syntax "missing token")
let nexti c = int_of_string (next c)
let rec take c n = if n = 0 then [] else let x = next c in x :: take c (n - 1)

(* ---- values ---- *)
type body =
  | VP of Values.con list                                  (* one conjunction of constraints *)
  | VG of Grid.ggen list * Grid.cg list                  (* grid: generators and congruences (of two copies) *)
  | VS of Values.con list list                             (* powerset: one conjunction per disjunct *)
  | VT of string                                         (* syntactic object *)
type value = { dim : int; ok : int; flags : string; text : string; body : body }

let read_con c dim =
  let k = (match next c with "=" -> Values.EQ | ">=" -> Values.GE | ">" -> Values.GT | k -> raise (Syntax ("kind " ^ k))) in
  let b = BN.z (next c) in let a = List.map BN.z (take c dim) in
  { Values.ccoefs = a; ccst = b; ckd = k }
let read_cons c dim =
  if next c <> "cons" then raise (Syntax "expected cons");
  let k = nexti c in List.init k (fun _ -> read_con c dim)
let read_ggens c dim =
  if next c <> "ggens" then raise (Syntax "expected ggens");
  let k = nexti c in
  List.init k (fun _ -> let t = next c in let d = next c in let a = List.map GN.z (take c dim) in
    match t with "p" -> Grid.GPoint (a, GN.pos d) | "q" -> Grid.GParam (a, GN.pos d) | "l" -> Grid.GLine a | _ -> raise (Syntax "ggen"))
let read_gcgs c dim =
  if next c <> "gcgs" then raise (Syntax "expected gcgs");
  let k = nexti c in
  List.init k (fun _ -> let b = GN.z (next c) in let m = GN.z (next c) in let a = List.map GN.z (take c dim) in
    { Grid.cg_a = a; cg_b = b; cg_m = m })

(* st <id> <dim> <ok> <flags> <kind> ... *)
let parse_st line : int * value =
  let c = { t = split line } in
  if next c <> "st" then raise (Syntax ("expected st: " ^ line));
  let id = nexti c in let dim = nexti c in let ok = nexti c in let flags = next c in
  let rest = String.concat " " c.t in
  let body = match next c with
    | "P" -> VP (read_cons c dim)
    | "G" -> let g = read_ggens c dim in let cg = read_gcgs c dim in VG (g, cg)
    | "S" -> let m = nexti c in VS (List.init m (fun _ -> read_cons c dim))
    | "T" -> VT (next c)
    | k -> raise (Syntax ("value kind " ^ k)) in
  id, { dim; ok; flags; text = rest; body }

(* ---- time budget around the (worst-case exponential) verified procedures ---- *)
exception Timeout
let budget = ref (try float_of_string (Sys.getenv "VERIF_JUDGE_BUDGET") with _ -> 5.0)
let timeouts = ref 0
let armed = ref false
let () = Sys.set_signal Sys.sigalrm (Sys.Signal_handle (fun _ -> if !armed then begin armed := false; raise Timeout end))
let timed (f : unit -> 'a) (dflt : 'a) : 'a =
  let stop () = armed := false; ignore (Unix.setitimer Unix.ITIMER_REAL { Unix.it_interval = 0.0; it_value = 0.0 }) in
  try
    armed := true;
    ignore (Unix.setitimer Unix.ITIMER_REAL { Unix.it_interval = 0.0; it_value = !budget });
    let r = f () in stop (); r
  with Timeout -> stop (); incr timeouts; Gc.compact (); dflt
     | Stack_overflow | Out_of_memory -> stop (); incr timeouts; Gc.compact (); dflt

let n_oracle = ref 0 and n_syntactic = ref 0

(* Some true: same set (verified); Some false: different sets; None: undecided *)
let same_value (a : value) (b : value) : bool option =
  if a.dim <> b.dim then Some false
  else if a.text = b.text then (incr n_syntactic; Some true)
  else begin
    incr n_oracle;
    match a.body, b.body with
    | VP x, VP y -> timed (fun () -> Values.equiv_sys (BN.nat (a.dim + 1)) (Values.sys_of_cons x) (Values.sys_of_cons y)) None
    | VG (gx, _), VG (gy, _) ->
        timed (fun () -> match Grid.gens_equiv (GN.nat a.dim) (Grid.gens_of_ppl gx) (Grid.gens_of_ppl gy) with Grid.Ans r -> Some r | Grid.Unk -> None) None
    | VS xs, VS ys ->
        timed (fun () -> Values.cover_equiv (BN.nat (a.dim + 1)) (List.map Values.sys_of_cons xs) (List.map Values.sys_of_cons ys)) None
    | VT x, VT y -> Some (x = y)
    | _ -> Some false
  end

(* grids: the congruences and the generators read from two copies must describe the same grid *)
let grid_dd (v : value) : bool option =
  match v.body with
  | VG (g, cg) -> timed (fun () -> match Grid.dd_agree (GN.nat v.dim) cg (Grid.gens_of_ppl g) with Grid.Ans r -> Some r | Grid.Unk -> None) None
  | _ -> Some true

(* ---- main ---- *)
let stats_steps = ref 0 and stats_checks = ref 0 and stats_undecided = ref 0 and stats_cases = ref 0
let cov : (string, int) Hashtbl.t = Hashtbl.create 64
let bump k = Hashtbl.replace cov k (1 + try Hashtbl.find cov k with Not_found -> 0)

let () =
  let ic = open_in Sys.argv.(1) in
  let rd () = try Some (input_line ic) with End_of_file -> None in
  let case = ref "?" and dom = ref "?" and step = ref 0 in
  let pool : (int, value) Hashtbl.t = Hashtbl.create 16 in
  let results : string list ref = ref [] in           (* most recent first *)
  let report kind line detail (v : bool option) =
    incr stats_checks;
    match v with
    | Some true -> ()
    | Some false -> Printf.printf "FAIL %s %d %s | %s | %s\n" !case !step kind line detail
    | None -> incr stats_undecided; Printf.printf "UNDECIDED %s %d %s | %s\n" !case !step kind line in
  let pending = ref (rd ()) in
  let peek () = !pending in
  let advance () = pending := rd () in
  let dead = ref false in
  (* a pair is judged only when every operand satisfied OK() when its twin copy was taken: an object whose
     representation invariant is already broken (another property's business) makes both calls meaningless *)
  let skip_pair = ref false in
  let rec loop () =
    match peek () with
    | None -> ()
    | Some l ->
      advance ();
      (match split l with
       | "case" :: id :: d :: _ -> case := id; dom := d; step := 0; Hashtbl.reset pool; results := []; incr stats_cases; dead := false
       | "end" :: _ -> ()
       | "HARNESS-ERROR" :: _ -> Printf.printf "HARNESS %s\n" l; exit 3
       | "cmd" :: cmd ->
           incr step;
           let line = String.concat " " cmd in
           (match cmd with
            | "note" :: _ -> ()
            | "eq" :: _ when !skip_pair -> bump ("pair-skipped-operand-not-OK:" ^ !dom)
            | ("eqres" | "eqres3") :: _ when !skip_pair -> ()
            | "eqres3" :: _ ->
                if not !dead then (match !results with
                 | r1 :: r2 :: r3 :: _ ->
                     report "pairres" line (Printf.sprintf "call as chosen: %s ; on copies: %s ; on deep unshared rebuilds: %s" r1 r2 r3) (Some (r1 = r2 && r2 = r3))
                 | _ -> raise (Syntax "eqres3 without three results"))
            | "eq" :: a :: b :: _ ->
                if not !dead then begin
                  bump ("pair:" ^ !dom);
                  (match Hashtbl.find_opt pool (int_of_string a), Hashtbl.find_opt pool (int_of_string b) with
                   | Some va, Some vb ->
                       if va.ok <> vb.ok then report "pair-OK" line (Printf.sprintf "OK() is %d after the aliased call and %d after the call with fresh copies" va.ok vb.ok) (Some false);
                       report "pair" line (Printf.sprintf "flags=%s aliased result [%s] vs result with a fresh copy as argument [%s]" va.flags va.text vb.text) (same_value va vb)
                   | _ -> raise (Syntax ("eq on unknown object: " ^ line)))
                end
            | "eqres" :: _ ->
                if not !dead then (match !results with
                 | r1 :: r2 :: _ ->
                     let fl id = (match Hashtbl.find_opt pool id with Some v -> v.flags | None -> "-") in
                     report "pairres" line (Printf.sprintf "aliased call: %s ; with a fresh copy: %s ; twinflags=%s/%s" r1 r2 (fl 10) (fl 11)) (Some (r1 = r2))
                 | _ -> raise (Syntax "eqres without two results"))
            | _ ->
              incr stats_steps;
              (* result line *)
              let res = (match peek () with Some r -> advance (); r | None -> raise (Syntax "trace ended early")) in
              (* optional direct const-argument check printed by the harness before the result line *)
              let res = (match split res with
                | "argck" :: fields ->
                    if not !dead then begin
                      bump ("argck:" ^ !dom);
                      let bad = List.filter (fun f -> not (String.length f > 2 && String.sub f (String.length f - 2) 2 = "=1")) fields in
                      report "const-arg-direct" line (Printf.sprintf "the const argument, compared on copies taken before and after the call with the library's own ==, contains, OK(): %s" (String.concat " " fields)) (Some (bad = []))
                    end;
                    (match peek () with Some r -> advance (); r | None -> raise (Syntax "trace ended early"))
                | _ -> res) in
              let rt = split res in
              (match rt with "res" :: _ -> () | "HARNESS-ERROR" :: _ -> Printf.printf "HARNESS %s\n" res; exit 3 | _ -> raise (Syntax ("expected res: " ^ res)));
              let exn = (match rt with "res" :: "exn" :: _ -> true | _ -> false) in
              (* strip the srcflags annotation from the compared result *)
              let rcmp = (match rt with "res" :: "ok" :: "srcflags" :: _ -> "res ok" | _ -> res) in
              results := rcmp :: !results;
              let srcflags = (match rt with "res" :: "ok" :: "srcflags" :: f :: _ -> f | _ -> "") in
              (* states *)
              let now : (int, value) Hashtbl.t = Hashtbl.create 16 in
              let rec states () = match peek () with
                | Some "endst" -> advance ()
                | Some s when String.length s > 3 && String.sub s 0 3 = "st " -> advance (); let id, v = parse_st s in Hashtbl.replace now id v; states ()
                | Some s -> raise (Syntax ("expected st/endst: " ^ s))
                | None -> raise (Syntax "trace ended inside a state block") in
              states ();
              if not !dead then begin
                let ids = List.map int_of_string (List.filter (fun t -> t <> "" && (match int_of_string_opt t with Some _ -> true | None -> false)) cmd) in
                ignore ids;
                let old id = Hashtbl.find_opt pool id in
                (* what each object must now be *)
                let expect : (int, string * value option) Hashtbl.t = Hashtbl.create 8 in   (* id -> kind, required value (None = free) *)
                let gone = ref [] in
                let opname = ref (List.hd cmd) in
                (match cmd with
                 | ("copy" | "rebuild") :: ("10" | "11" | "12" | "20" | "21" | "22" as t) :: y :: _ ->
                     if t = "10" then skip_pair := false;
                     (match old (int_of_string y), Hashtbl.find_opt now (int_of_string t) with
                      | Some o, Some c -> if o.ok <> 1 || c.ok <> 1 then skip_pair := true
                      | _ -> ())
                 | _ -> ());
                (match cmd with
                 | "new" :: x :: _ -> Hashtbl.replace expect (int_of_string x) ("new", None)
                 | "copy" :: x :: y :: _ -> Hashtbl.replace expect (int_of_string x) ("copy", old (int_of_string y))
                 | "rebuild" :: x :: y :: _ -> Hashtbl.replace expect (int_of_string x) ("rebuild", old (int_of_string y))
                 | "del" :: x :: _ -> gone := [int_of_string x]
                 | "op" :: x :: "assign" :: y :: _ ->
                     opname := "assign";
                     Hashtbl.replace expect (int_of_string x) ((if x = y then "self-assign" else "assign"), if exn then None else old (int_of_string y))
                 | "op" :: x :: ("swap" | "std_swap" as o) :: y :: _ ->
                     opname := o;
                     let k = if x = y then "self-swap" else "swap" in
                     if exn then begin Hashtbl.replace expect (int_of_string x) (k, None); Hashtbl.replace expect (int_of_string y) (k, None) end
                     else begin Hashtbl.replace expect (int_of_string x) (k, old (int_of_string y)); Hashtbl.replace expect (int_of_string y) (k, old (int_of_string x)) end
                 | "op" :: x :: ("insert_recycled_sys" as o) :: y :: _ ->
                     (* the donor of a recycling insertion is left valid but unspecified *)
                     opname := o; Hashtbl.replace expect (int_of_string x) ("op", None); Hashtbl.replace expect (int_of_string y) ("op", None)
                 | "op" :: x :: o :: _ -> opname := o; Hashtbl.replace expect (int_of_string x) ("op", None)
                 | "qry" :: _ :: o :: _ -> opname := "qry:" ^ o
                 | "obs" :: _ :: o :: _ -> opname := "obs:" ^ o
                 | _ -> raise (Syntax ("unknown command: " ^ line)));
                bump ("op:" ^ !dom ^ ":" ^ !opname);
                if exn then bump ("exn:" ^ !dom ^ ":" ^ !opname);
                (* is the object mentioned in the command (an argument) or a bystander? *)
                let mentioned id = List.mem (string_of_int id) (match cmd with _ :: _ :: _ :: rest -> rest | _ -> []) in
                let failed = ref false in
                let rep kind detail v = (match v with Some false -> failed := true | _ -> ()); report kind line detail v in
                Hashtbl.iter (fun id (v : value) ->
                  bump ("flags:" ^ !dom ^ ":" ^ v.flags);
                  (* the representation invariant of an object that is not the receiver must not be broken by the step
                     (what OK() says about the receiver itself belongs to other properties; for pairs see "eq") *)
                  (match Hashtbl.find_opt expect id, old id with
                   | None, Some o when o.ok = 1 && v.ok <> 1 -> rep "OK-nonreceiver" (Printf.sprintf "object %d: OK() became false though the object is not the receiver" id) (Some false)
                   | _ -> ());
                  (match Hashtbl.find_opt expect id with
                   | Some (_, None) -> ()
                   | Some (k, Some want) ->
                       rep k (Printf.sprintf "object %d is [%s], must denote [%s]%s" id v.text want.text
                                (if srcflags <> "" then " srcflags=" ^ srcflags else "")) (same_value v want)
                   | None ->
                       (match old id with
                        | None -> raise (Syntax (Printf.sprintf "object %d appeared from nowhere: %s" id line))
                        | Some want ->
                            let k = if mentioned id then "const-arg" else "bystander" in
                            rep ("unchanged/" ^ k) (Printf.sprintf "object %d was [%s] flags %s, now [%s] flags %s" id want.text want.flags v.text v.flags) (same_value v want)));
                  (match v.body with VG _ -> rep "grid-dd" (Printf.sprintf "object %d: a copy's congruences and a copy's generators disagree [%s] flags=%s" id v.text v.flags) (grid_dd v) | _ -> ())
                ) now;
                Hashtbl.iter (fun id _ -> if not (Hashtbl.mem now id) && not (List.mem id !gone) then raise (Syntax (Printf.sprintf "object %d vanished: %s" id line))) pool;
                Hashtbl.reset pool;
                Hashtbl.iter (fun id v -> Hashtbl.replace pool id v) now;
                if !failed then dead := true      (* the rest of the case is not judged *)
              end)
       | [] -> ()
       | _ -> raise (Syntax ("unexpected trace line: " ^ l)));
      loop () in
  (try loop () with Syntax m -> Printf.printf "JUDGE-SYNTAX %s (case %s step %d)\n" m !case !step; exit 4);
  Printf.printf "STAT steps %d checks %d undecided %d cases %d timeouts %d oracle %d syntactic %d\n"
    !stats_steps !stats_checks !stats_undecided !stats_cases !timeouts !n_oracle !n_syntactic;
  Hashtbl.iter (fun k v -> Printf.printf "COV %s %d\n" k v) cov
