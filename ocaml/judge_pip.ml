(* C07 judge (untrusted glue around the extracted, verified functions of gen/pip.ml):
   for one PIP problem and the tree the library returned, enumerate parameter valuations, and for
   each valuation of the context compare   Pip.eval_tree tree q   with   Pip.lexmin_ref fuel pb q.
   Input: one record per line on stdin (tokens, see parse_record); output: one JSON object per line. *)
open Pip

(* ---- number conversions ---- *)
let rec pos_of_int n = if n = 1 then XH else if n land 1 = 0 then XO (pos_of_int (n lsr 1)) else XI (pos_of_int (n lsr 1))
let rec int_of_pos = function XH -> 1 | XO p -> 2 * int_of_pos p | XI p -> 2 * int_of_pos p + 1
let z_of_int i = if i = 0 then Z0 else if i > 0 then Zpos (pos_of_int i) else Zneg (pos_of_int (-i))
let ten = z_of_int 10
let z_of_string s =
  let s = String.trim s in
  let neg, s = if String.length s > 0 && s.[0] = '-' then true, String.sub s 1 (String.length s - 1) else false, s in
  if String.length s = 0 then failwith "z_of_string";
  let r = ref Z0 in
  String.iter (fun ch -> if ch < '0' || ch > '9' then failwith ("z_of_string: " ^ s);
                r := Z.add (Z.mul !r ten) (z_of_int (Char.code ch - 48))) s;
  if neg then Z.opp !r else !r
let string_of_z z =
  let rec digits z acc = match z with
    | Z0 -> acc
    | _ -> let q = Z.div z ten and r = Z.modulo z ten in
           let d = (match r with Z0 -> 0 | Zpos p -> int_of_pos p | Zneg _ -> 0) in
           digits q (string_of_int d :: acc) in
  match z with
  | Z0 -> "0"
  | Zpos _ -> String.concat "" (digits z [])
  | Zneg p -> "-" ^ String.concat "" (digits (Zpos p) [])
let rec nat_of_int n = if n <= 0 then O else S (nat_of_int (n - 1))
let is_zero z = (z = Z0)

(* ---- token stream ---- *)
exception Malformed of string
exception Judge_timeout
let toks = ref [||] and pos = ref 0
let next () = if !pos >= Array.length !toks then raise (Malformed "truncated record");
  let t = !toks.(!pos) in incr pos; t
let next_int () = let t = next () in try int_of_string t with _ -> raise (Malformed ("int expected: " ^ t))
let next_z () = let t = next () in try z_of_string t with _ -> raise (Malformed ("integer expected: " ^ t))

let parse_expr () = let k0 = next_z () in let n = next_int () in
  let co = List.init n (fun _ -> next_z ()) in (co, k0)
let kind_of = function "E" -> EQ | "G" -> GE | "S" -> GT | s -> raise (Malformed ("constraint kind " ^ s))
let parse_con () = let k = kind_of (next ()) in let (co, k0) = parse_expr () in { ccoefs = co; ccst = k0; ckd = k }

let rec parse_tree () =
  match next () with
  | "N" -> Bot
  | "S" ->
    let nc = next_int () in let na = next_int () in let nv = next_int () in
    let cs = List.init nc (fun _ -> parse_con ()) in
    let aps = List.init na (fun _ -> (match next () with "A" -> () | s -> raise (Malformed ("A expected: " ^ s)));
                                     let d = next_z () in let (co, k0) = parse_expr () in { anum = { lco = co; lk = k0 }; aden = d }) in
    let vs = List.init nv (fun _ -> (match next () with "V" -> () | s -> raise (Malformed ("V expected: " ^ s)));
                                    let (co, k0) = parse_expr () in { lco = co; lk = k0 }) in
    Sol (cs, aps, vs)
  | "D" ->
    let nc = next_int () in let na = next_int () in
    let cs = List.init nc (fun _ -> parse_con ()) in
    let aps = List.init na (fun _ -> (match next () with "A" -> () | s -> raise (Malformed ("A expected: " ^ s)));
                                     let d = next_z () in let (co, k0) = parse_expr () in { anum = { lco = co; lk = k0 }; aden = d }) in
    let t = parse_tree () in let f = parse_tree () in
    Dec (cs, aps, t, f)
  | s -> raise (Malformed ("tree token " ^ s))

(* ---- static checks of what the documentation promises about the tree ---- *)
let malformed = ref []
let note s = if not (List.mem s !malformed) then malformed := s :: !malformed

(* every non-zero coefficient must sit at a parameter position of the problem or at an artificial
   parameter already defined (index < len) *)
let check_expr what flags len co =
  List.iteri (fun i a -> if not (is_zero a) then begin
      if i >= len then note (what ^ ": references undeclared artificial parameter")
      else if i < Array.length flags && not flags.(i) then note (what ^ ": non-zero coefficient on a problem variable")
    end) co

let rec check_tree flags len nvars t =
  match t with
  | Bot -> ()
  | Sol (cs, aps, vs) ->
    let len' = List.fold_left (fun l a -> check_expr "artificial parameter" flags l a.anum.lco;
                                (if not (Z.ltb Z0 a.aden) then note "artificial parameter: denominator not positive"); l + 1) len aps in
    List.iter (fun c -> check_expr "solution-node constraint" flags len' c.ccoefs;
                ()) cs;
    List.iter (fun v -> check_expr "parametric value" flags len' v.lco) vs;
    if List.length vs <> nvars then note "solution node: wrong number of parametric values"
  | Dec (cs, aps, t1, t2) ->
    let len' = List.fold_left (fun l a -> check_expr "artificial parameter" flags l a.anum.lco;
                                (if not (Z.ltb Z0 a.aden) then note "artificial parameter: denominator not positive"); l + 1) len aps in
    List.iter (fun c -> check_expr "decision-node constraint" flags len' c.ccoefs) cs;
    if cs = [] then note "decision node without constraint";
    if List.length cs > 1 && t2 <> Bot then note "decision node with several tests and a false child";
    if t1 = Bot then note "decision node without true child";
    check_tree flags len' nvars t1; check_tree flags len' nvars t2

(* ---- output helpers ---- *)
let jlist l = "[" ^ String.concat "," (List.map string_of_z l) ^ "]"
let jopt = function None -> "null" | Some l -> jlist l
let jstr s = "\"" ^ String.escaped s ^ "\""

let rec tree_size = function Bot -> 0 | Sol _ -> 1 | Dec (_, _, a, b) -> 1 + tree_size a + tree_size b
let rec tree_arts = function Bot -> 0 | Sol (_, a, _) -> List.length a | Dec (_, a, x, y) -> List.length a + tree_arts x + tree_arts y

(* does some artificial parameter of the tree depend (directly or through earlier artificial
   parameters of its path) on the parameter at index bigi? *)
let big_in_arts bigi dim tree =
  let found = ref false in
  let rec walk dep len t =      (* dep: indices (>= dim) of big-dependent artificial parameters *)
    let scan aps =
      List.fold_left (fun (dep, len) a ->
          let d = ref false in
          List.iteri (fun i c -> if not (is_zero c) && (i = bigi || List.mem i dep) then d := true) a.anum.lco;
          if !d then (found := true; (len :: dep, len + 1)) else (dep, len + 1)) (dep, len) aps in
    match t with
    | Bot -> ()
    | Sol (_, aps, _) -> ignore (scan aps)
    | Dec (_, aps, t1, t2) -> let (dep', len') = scan aps in walk dep' len' t1; walk dep' len' t2 in
  if bigi >= 0 then walk [] dim tree;
  !found

let judge_record line =
  toks := Array.of_list (List.filter (fun s -> s <> "") (String.split_on_char ' ' line)); pos := 0;
  malformed := [];
  let rid = next () in
  try
    let bnd = next_int () in
    let nbv = next_int () in
    let bigvals = List.init nbv (fun _ -> next_z ()) in
    let fuel = next_int () in
    let dim = next_int () in
    let flags = Array.init dim (fun _ -> next_int () = 1) in
    let bigi = next_int () in
    let m = next_int () in
    let cons = List.init m (fun _ -> parse_con ()) in
    let status = next () in
    (* tokens starting with '!' are anomalies reported by the harness itself *)
    Array.iter (fun t -> if String.length t > 0 && t.[0] = '!' then note ("harness: " ^ t)) !toks;
    toks := Array.of_list (List.filter (fun t -> not (String.length t > 0 && t.[0] = '!')) (Array.to_list !toks));
    let tree = parse_tree () in
    if !pos <> Array.length !toks then note "trailing tokens after tree";
    let pb = { is_par = Array.to_list flags; cons = cons; big = (if bigi >= 0 then Some (nat_of_int bigi) else None) } in
    let nvars = Array.fold_left (fun n f -> if f then n else n + 1) 0 flags in
    check_tree flags dim nvars tree;
    if not (wf_treeb tree) then note "artificial parameter: denominator not positive";
    if status = "UNF" && tree <> Bot then note "status UNFEASIBLE with a non-null tree";
    if status = "OPT" && tree = Bot then note "status OPTIMIZED with a null tree";
    (* enumerate valuations: parameters in [0..bnd], the big parameter over bigvals *)
    let par_idx = List.filter (fun i -> flags.(i)) (List.init dim (fun i -> i)) in
    let rec enum idx : z list list =       (* assignments for idx, as association in order *)
      match idx with
      | [] -> [[]]
      | i :: rest ->
        let tails = enum rest in
        let vals = if i = bigi then bigvals else List.init (bnd + 1) z_of_int in
        List.concat_map (fun v -> List.map (fun t -> v :: t) tails) vals in
    let assigns = enum par_idx in
    let inctx = ref 0 and nsol = ref 0 and nbot = ref 0 and undec = ref 0 and nfail = ref 0 in
    let fails = Buffer.create 256 in
    let fail_kinds = Hashtbl.create 7 in
    let all_fail_zero = ref true in        (* every failing valuation has a (non-big) parameter equal to 0 *)
    let ref_sol_nonzero = ref 0 in         (* valuations of the context with all (non-big) parameters > 0 where the reference finds a point *)
    let tree_sol = ref 0 in
    let maxv = ref Z0 in
    let by_rest : (z list, (z * z list option option) list) Hashtbl.t = Hashtbl.create 97 in
    List.iter (fun asg ->
        let tbl = List.combine par_idx asg in
        let q = List.init dim (fun i -> try List.assoc i tbl with Not_found -> Z0) in
        if contextb pb q then begin
          incr inctx;
          let rt = eval_tree tree q in
          let rr = res_answer pb.is_par (lexmin_ref (nat_of_int fuel) pb q) in
          (match rt with Some _ -> incr tree_sol | None -> ());
          let has_zero = List.exists (fun (i, v) -> i <> bigi && is_zero v) tbl in
          if bigi >= 0 then begin
            let rest = List.map snd (List.filter (fun (i, _) -> i <> bigi) tbl) in
            let mv = List.assoc bigi tbl in
            Hashtbl.replace by_rest rest ((mv, rr) :: (try Hashtbl.find by_rest rest with Not_found -> []))
          end;
          match rr with
          | None -> incr undec
          | Some a ->
            (match a with
             | Some x -> incr nsol; List.iter (fun v -> if Z.ltb !maxv v then maxv := v) x;
               if not has_zero then incr ref_sol_nonzero
             | None -> incr nbot);
            if a <> rt then begin
              incr nfail;
              let kind = match rt, a with
                | None, Some _ -> "bottom_but_feasible"
                | Some _, None -> "solution_but_infeasible"
                | Some xt, Some _ ->
                  (* is the tree's point feasible at all? rebuild the full point *)
                  let rec fill fl qq xx = match fl, qq with
                    | [], _ -> []
                    | true :: fl', q0 :: q' -> q0 :: fill fl' q' xx
                    | false :: fl', _ :: q' -> (match xx with x0 :: x' -> x0 :: fill fl' q' x' | [] -> Z0 :: fill fl' q' [])
                    | _, [] -> [] in
                  let p = fill pb.is_par q xt in
                  if List.length xt = nvars && List.for_all (fun v -> Z.leb Z0 v) xt && all_holdb cons p
                  then "feasible_not_minimal" else "infeasible_point"
                | None, None -> "?" in
              Hashtbl.replace fail_kinds kind (1 + try Hashtbl.find fail_kinds kind with Not_found -> 0);
              if not has_zero then all_fail_zero := false;
              if !nfail <= 12 then
                Buffer.add_string fails (Printf.sprintf "%s{\"kind\":%s,\"q\":%s,\"tree\":%s,\"ref\":%s}"
                                           (if !nfail > 1 then "," else "") (jstr kind) (jlist asg) (jopt rt) (jopt a))
            end
        end) assigns;
    (* status clause: OPTIMIZED but the rational relaxation of the whole problem (variables and
       parameters non-negative) is empty -> certainly wrong; this does not depend on the box.
       Only consulted when no valuation of the box has a solution, and only for small systems
       (Fourier-Motzkin over all dimensions). *)
    let relax =
      if status = "OPT" && !nsol = 0 && !tree_sol = 0 && dim <= 5 && m <= 6 then begin
        let nonneg = List.init dim (fun i -> { ccoefs = List.init (i + 1) (fun j -> if j = i then z_of_int 1 else Z0); ccst = Z0; ckd = GE }) in
        let bigc = if bigi >= 0 then [{ ccoefs = List.init (bigi + 1) (fun j -> if j = bigi then z_of_int 1 else Z0); ccst = z_of_int (-1000000); ckd = GE }] else [] in
        (* a context that bounds the big parameter from above leaves nothing specified *)
        let ctx_only = List.filter (fun c -> ponly pb.is_par c.ccoefs) cons in
        (* ... and so does a context that lets the big parameter be big only together with
           other parameters (it must admit M >= 10^6 with all other parameters <= 1000) *)
        let small = List.concat (List.init dim (fun i ->
            if flags.(i) && i <> bigi then
              [{ ccoefs = List.init (i + 1) (fun j -> if j = i then z_of_int (-1) else Z0); ccst = z_of_int 1000; ckd = GE }]
            else [])) in
        if bigi >= 0 && nonempty_cons (nat_of_int dim) (ctx_only @ nonneg @ bigc @ small) <> Some true then None
        else nonempty_cons (nat_of_int dim) (cons @ nonneg @ bigc) end
      else None in
    let status_fail =
      if status = "OPT" && relax = Some false then "optimized_but_relaxation_empty"
      else if status = "UNF" && !nsol > 0 then "unfeasible_but_feasible"
      else "" in
    (* is the exact answer an affine function of the big parameter on consecutive big values?
       (it is not exactly when integrality of an expression in the big parameter matters, i.e. when
       a Gomory cut has to involve the big parameter) *)
    let nonaffine = ref false in
    Hashtbl.iter (fun _ l ->
        let one = z_of_int 1 in
        List.iter (fun (m0, a0) ->
            match List.assoc_opt (Z.add m0 one) l, List.assoc_opt (Z.add m0 (z_of_int 2)) l with
            | Some a1, Some a2 ->
              (match a0, a1, a2 with
               | Some None, Some None, Some None -> ()
               | Some (Some x0), Some (Some x1), Some (Some x2) ->
                 if List.length x0 = List.length x1 && List.length x1 = List.length x2 then
                   List.iteri (fun i v0 ->
                       let v1 = List.nth x1 i and v2 = List.nth x2 i in
                       if Z.add v0 v2 <> Z.add v1 v1 then nonaffine := true) x0
                 else nonaffine := true
               | None, None, None -> ()
               (* a mix of answers and undecided values (no integral point found in an unbounded
                  relaxation) is counted as non-uniform as well *)
               | _ -> nonaffine := true)
            | _ -> ()) l) by_rest;
    (* all-valuations certificate (Pip.tree_cert_b, theorem tree_cert_sound): attempted on small
       instances under its own time limit; "no" only means not certified *)
    let certified =
      if bigi < 0 && dim + nvars + tree_arts tree <= 9 && m <= 7 && tree_size tree <= 12 then begin
        ignore (Unix.alarm 3);
        let r = (try (if tree_cert_b pb tree then "yes" else "no") with Judge_timeout | Stack_overflow | Out_of_memory -> "gave_up") in
        ignore (Unix.alarm 20); r end
      else "not_tried" in
    let kinds = String.concat "," (Hashtbl.fold (fun k v acc -> (jstr k ^ ":" ^ string_of_int v) :: acc) fail_kinds []) in
    Printf.printf "{\"rid\":%s,\"status\":%s,\"inctx\":%d,\"sol\":%d,\"bot\":%d,\"undecided\":%d,\"treesol\":%d,\"nfail\":%d,\"kinds\":{%s},\"fails\":[%s],\"status_fail\":%s,\"all_fail_zero_param\":%b,\"ref_sol_nonzero\":%d,\"malformed\":[%s],\"nodes\":%d,\"arts\":%d,\"maxval\":%s,\"relax\":%s,\"big_nonaffine\":%b,\"certified\":%s,\"big_in_arts\":%b}\n"
      (jstr rid) (jstr status) !inctx !nsol !nbot !undec !tree_sol !nfail kinds (Buffer.contents fails) (jstr status_fail)
      !all_fail_zero !ref_sol_nonzero
      (String.concat "," (List.map jstr (List.rev !malformed))) (tree_size tree) (tree_arts tree) (string_of_z !maxv)
      (match relax with Some true -> "\"nonempty\"" | Some false -> "\"empty\"" | None -> "\"?\"") !nonaffine (jstr certified) (big_in_arts bigi dim tree)
  with
  | Malformed s -> Printf.printf "{\"rid\":%s,\"error\":%s}\n" (jstr rid) (jstr ("malformed record: " ^ s))
  | Stack_overflow -> Printf.printf "{\"rid\":%s,\"error\":\"judge: stack overflow\"}\n" (jstr rid)
  | Out_of_memory -> Printf.printf "{\"rid\":%s,\"error\":\"judge: out of memory\"}\n" (jstr rid)
  | Judge_timeout -> Printf.printf "{\"rid\":%s,\"error\":\"judge: time limit\"}\n" (jstr rid)

let time_limit = ref 30
let () =
  if Array.length Sys.argv > 1 then time_limit := int_of_string Sys.argv.(1);
  Sys.set_signal Sys.sigalrm (Sys.Signal_handle (fun _ -> raise Judge_timeout));
  try while true do
      let line = input_line stdin in
      if String.trim line <> "" then begin
        ignore (Unix.alarm !time_limit);
        (try judge_record line with Judge_timeout ->
           Printf.printf "{\"rid\":%s,\"error\":\"judge: time limit\"}\n" (jstr (List.hd (String.split_on_char ' ' line))));
        ignore (Unix.alarm 0);
        flush stdout end
    done with End_of_file -> ()
