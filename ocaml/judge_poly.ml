(* Judge for the polyhedron case language: replays a case file on the verified reference model
   (extracted from Coq: the Base module) and compares, step by step, with what the real library printed.
   Untrusted glue: parsing, dispatch, bookkeeping. Every verdict is a call to a verified function.

   usage: judge_poly <casefile> <obsfile>
   output: one line per finding
     FAIL <case> <step> <kind> | <case line> | <detail>
     UNDECIDED <case> <step> <kind>
     STAT steps <n> checks <n> undecided <n> cases <n>
     COV <what> <count>                                                                       *)
open Base
open Zutil

let split s = List.filter (fun x -> x <> "") (String.split_on_char ' ' s)

type obj = { topo : string; dim : int; s : sys; gens : gen list option }

exception Syntax of string
exception Skip of string      (* operation not modelled: state of the receiver is re-synchronised from the implementation *)
exception Relational of sys * sys   (* refinement: any result R with  lower <= R <= upper  (as point sets) is correct *)

(* ---- token cursor ---- *)
type cur = { mutable t : string list }
let next c = match c.t with x :: r -> c.t <- r; x | [] -> raise (Syntax "missing token")
let nexti c = int_of_string (next c)
let nextz c = z_of_string (next c)
let more c = c.t <> []
let rec take_z c n = if n = 0 then [] else let x = nextz c in x :: take_z c (n - 1)

let kind_of = function "=" -> EQ | ">=" -> GE | ">" -> GT | k -> raise (Syntax ("kind " ^ k))
let read_con c dim = let k = kind_of (next c) in let b = nextz c in let a = take_z c dim in { ccoefs = a; ccst = b; ckd = k }
let read_cons c dim = let k = nexti c in List.init k (fun _ -> read_con c dim)
let gkind_of = function "l" -> GLine | "r" -> GRay | "p" -> GPoint | "c" -> GClosure | k -> raise (Syntax ("gkind " ^ k))
let read_gen c dim = let k = gkind_of (next c) in let d = nextz c in let a = take_z c dim in { gk = k; gcoefs = a; gdiv = d }
let read_gens c dim = let k = nexti c in List.init k (fun _ -> read_gen c dim)
let read_expr_n c = let n = nexti c in let b = nextz c in let a = take_z c n in { lcoefs = a; lcst = b }
let read_rel c = match next c with "<" -> Some RLT | "<=" -> Some RLE | "==" -> Some REQ | ">=" -> Some RGE | ">" -> Some RGT | "!=" -> None | r -> raise (Syntax ("rel " ^ r))

let nat = nat_of_int
let is_point g = (match g.gk with GPoint -> true | _ -> false)
let has_point gs = List.exists is_point gs

(* slack above the dimension so that systems mentioning the fresh coordinate are handled *)
let dimn o = nat (o.dim + 1)

let stats_steps = ref 0 and stats_checks = ref 0 and stats_undecided = ref 0 and stats_cases = ref 0
let cov : (string, int) Hashtbl.t = Hashtbl.create 64
let bump k = Hashtbl.replace cov k (1 + try Hashtbl.find cov k with Not_found -> 0)

let sys_of_gens dim gs = if has_point gs then cons_of_gens (nat dim) gs else false_sys

(* ---- parsing of a state line:  st X topo dim flags cons K ... gens K ... ok b ---- *)
type st = { sid : int; stopo : string; sdim : int; flags : string; scons : con list; sgens : gen list; sok : int }
let parse_st line =
  let c = { t = split line } in
  if next c <> "st" then raise (Syntax ("expected st: " ^ line));
  let sid = nexti c in let stopo = next c in let sdim = nexti c in let flags = next c in
  if next c <> "cons" then raise (Syntax "expected cons");
  let scons = read_cons c sdim in
  if next c <> "gens" then raise (Syntax "expected gens");
  let sgens = read_gens c sdim in
  if next c <> "ok" then raise (Syntax "expected ok");
  let sok = nexti c in
  { sid; stopo; sdim; flags; scons; sgens; sok }

(* every call into the verified (but worst-case exponential) procedures runs under a time budget;
   exhausting it makes the check UNDECIDED, never a verdict *)
exception Timeout
let budget = ref (try float_of_string (Sys.getenv "VERIF_JUDGE_BUDGET") with _ -> 4.0)
let timeouts = ref 0
let armed = ref false
let () = Sys.set_signal Sys.sigalrm (Sys.Signal_handle (fun _ -> if !armed then begin armed := false; raise Timeout end))
let depth = ref 0
let timed (f : unit -> 'a) (dflt : 'a) : 'a =
  (* re-entrant: a nested call runs under the budget of the outermost one (it must not disarm it) *)
  if !depth > 0 then f () else begin
    let stop () = armed := false; depth := 0; ignore (Unix.setitimer Unix.ITIMER_REAL { Unix.it_interval = 0.0; it_value = 0.0 }) in
    try
      depth := 1; armed := true;
      ignore (Unix.setitimer Unix.ITIMER_REAL { Unix.it_interval = 0.0; it_value = !budget });
      let r = f () in stop (); r
    with Timeout -> stop (); incr timeouts; Gc.compact (); dflt
       | Stack_overflow | Out_of_memory -> stop (); incr timeouts; Gc.compact (); dflt
       | e -> stop (); raise e
  end


(* ---- the reference semantics of one operation ---- *)
let pool : (int, obj) Hashtbl.t = Hashtbl.create 16
let get id = try Hashtbl.find pool id with Not_found -> raise (Syntax "unknown object")

(* untrusted generator hints printed by the harness for the current operation (validated before use) *)
let cur_hints : gen list list ref = ref []

let gens_hint o = match o.gens with Some g -> g | None -> raise (Skip "no validated generator hint")

let single c = sys_of_cons [c]

(* topological closure: the relaxed system when the set is non-empty (theorems C02_topological_closure_contains and _least), empty otherwise *)
let closure_of (o : obj) : sys =
  match nonempty_sys (dimn o) o.s with
  | Some true -> relax o.s
  | Some false -> false_sys
  | None -> raise (Skip "undecided emptiness")

let ref_new c =
  let id = nexti c in let topo = next c in let dim = nexti c in let how = next c in
  let s = match how with
    | "universe" -> empty_sys
    | "empty" -> false_sys
    | "cons" -> sys_of_cons (read_cons c dim)
    | "gens" -> sys_of_gens dim (read_gens c dim)
    | "box" ->
        (* conversion from a rational box: the box itself for NNC, its topological closure for C *)
        let cons = List.concat (List.init dim (fun i ->
          let lk = next c in let ln = nextz c in let ld = nextz c in let uk = next c in let un = nextz c in let ud = nextz c in
          let unit z = List.init dim (fun j -> if j = i then z else Z0) in
          (match lk with "[" -> [ { ccoefs = unit ld; ccst = Z.opp ln; ckd = GE } ] | "(" -> [ { ccoefs = unit ld; ccst = Z.opp ln; ckd = GT } ] | _ -> []) @
          (match uk with "]" -> [ { ccoefs = unit (Z.opp ud); ccst = un; ckd = GE } ] | ")" -> [ { ccoefs = unit (Z.opp ud); ccst = un; ckd = GT } ] | _ -> []))) in
        let s = sys_of_cons cons in
        if topo = "C" then closure_of { topo = "NNC"; dim; s; gens = None } else s
    | "from" -> let y = get (nexti c) in if topo = "C" && y.topo = "NNC" then closure_of y else y.s
    | _ -> raise (Skip ("new " ^ how)) in
  id, { topo; dim; s; gens = None }

let check_den d = if d = Z0 then raise (Skip "zero denominator")

(* returns the new reference object for the receiver, and an optional expected return flag *)
let rec ref_op c : int * obj * (unit -> bool option) option =
  match timed (fun () -> Some (ref_op_raw c)) None with
  | Some r -> r
  | None -> raise (Skip "reference computation exceeded its time budget")
and ref_op_raw c : int * obj * (unit -> bool option) option =
  let id = nexti c in let x = get id in let op = next c in let n = x.dim in
  let upd s = { x with s = s; gens = None } in
  let none = None in
  match op with
  | "add_constraint" | "refine_with_constraint" ->
      let k = read_con c n in
      if op = "add_constraint" && x.topo = "C" && k.ckd = GT then raise (Skip "strict constraint into a C polyhedron");
      if op = "refine_with_constraint" && x.topo = "C" && k.ckd = GT then raise (Relational (union_sys x.s (single k), x.s));
      id, upd (union_sys x.s (single k)), none
  | "add_constraints" | "refine_with_constraints" | "add_recycled_constraints" ->
      let ks = read_cons c n in
      if op = "refine_with_constraints" && x.topo = "C" && List.exists (fun k -> k.ckd = GT) ks then
        raise (Relational (union_sys x.s (sys_of_cons ks), x.s));
      id, upd (union_sys x.s (sys_of_cons ks)), none
  | "add_generator" ->
      let g = read_gen c n in
      let gs = gens_hint x in
      if not (has_point gs) && not (is_point g) then raise (Skip "non-point into an empty polyhedron");
      id, upd (sys_of_gens n (gs @ [g])), none
  | "add_generators" | "add_recycled_generators" ->
      let g = read_gens c n in
      let gs = gens_hint x in
      if not (has_point gs) && not (has_point g) then raise (Skip "no point into an empty polyhedron");
      id, upd (sys_of_gens n (gs @ g)), none
  | "add_generators_from" ->
      (* the generators of another object (of either topology), as the library hands them out, added one by one:
         points first; closure points are skipped when the receiver is closed *)
      let y = get (nexti c) in
      if y.dim <> n then raise (Skip "dimension-incompatible");
      let g1 = gens_hint x and g2 = gens_hint y in
      let g2 = List.filter (fun g -> match g.gk with GClosure -> x.topo = "NNC" | _ -> true) g2 in
      if not (has_point g1) && not (has_point g2) then raise (Skip "no point into an empty polyhedron");
      id, upd (sys_of_gens n (g1 @ g2)), none
  | "intersection_assign" -> let y = get (nexti c) in id, upd (union_sys x.s y.s), none
  | "poly_hull_assign" | "upper_bound_assign" ->
      let y = get (nexti c) in
      let g1 = gens_hint x and g2 = gens_hint y in
      let g = if not (has_point g1) then g2 else if not (has_point g2) then g1 else g1 @ g2 in
      id, upd (sys_of_gens n g), none
  | "time_elapse_assign" ->
      let y = get (nexti c) in
      let g1 = gens_hint x and g2 = gens_hint y in
      if not (has_point g1) || not (has_point g2) then id, upd false_sys, none
      else id, upd (sys_of_gens n (te_gens g1 g2)), none
  | "positive_time_elapse_assign" ->
      let y = get (nexti c) in
      let r = pos_time_elapse (nat n) x.s y.s in
      if x.topo = "C" then
        (match nonempty_sys (nat (n + 1)) r with
         | Some true -> id, upd (relax r), none
         | Some false -> id, upd false_sys, none
         | None -> raise (Skip "undecided emptiness"))
      else id, upd r, none
  | "fold_space_dimensions" ->
      let k = nexti c in let vs = List.init k (fun _ -> nexti c) in let dest = nexti c in
      if dest >= n || List.exists (fun v -> v >= n || v = dest) vs then raise (Skip "ill-formed fold");
      let g = gens_hint x in
      let folded = fold_gens (List.map nat vs) (nat dest) g in
      (* remove the folded dimensions *)
      let cnt = ref 0 in
      let pf = List.init n (fun i -> if List.mem i vs then None else (let j = !cnt in incr cnt; Some (nat j))) in
      id, { x with dim = !cnt; s = map_dims pf (nat (n + 1)) (sys_of_gens n folded); gens = None }, none
  | "poly_hull_assign_if_exact" | "upper_bound_assign_if_exact" ->
      let y = get (nexti c) in
      let g1 = gens_hint x and g2 = gens_hint y in
      let g = if not (has_point g1) then g2 else if not (has_point g2) then g1 else g1 @ g2 in
      let h = sys_of_gens n g in
      (match covered_by_union (nat (n + List.length g + 1)) h x.s y.s with
       | None -> raise (Skip "undecided exactness")
       | Some true -> id, upd h, Some (fun () -> Some true)
       | Some false -> id, x, Some (fun () -> Some false))
  | "add_congruence" | "refine_with_congruence" | "add_congruences" | "refine_with_congruences" ->
      let cgs = if op = "add_congruence" || op = "refine_with_congruence" then [ (let m = nextz c in let b = nextz c in let a = take_z c n in (m, b, a)) ]
                else (let k = nexti c in List.init k (fun _ -> let m = nextz c in let b = nextz c in let a = take_z c n in (m, b, a))) in
      let is_add = (op = "add_congruence" || op = "add_congruences") in
      let proper = ref false in
      let s' = List.fold_left (fun s (m, b, a) ->
        if m = Z0 then union_sys s (single { ccoefs = a; ccst = b; ckd = EQ })
        else if List.for_all (fun z -> z = Z0) a then
          (if Z.modulo b (Z.abs m) = Z0 then s
           else if is_add then false_sys
           else (proper := true; s))
        else if is_add then raise (Skip "proper congruence into a polyhedron (invalid_argument expected)")
        else (proper := true; s)) x.s cgs in
      (* refinement with congruences a polyhedron cannot express: any result between the exact meet and the
         receiver is a correct refinement; the lower fence used here is the meet with the expressible part only
         when every inexpressible congruence is a contradiction the implementation is free to ignore, hence: *)
      if !proper then raise (Relational (false_sys, x.s));
      id, upd s', none
  | "poly_difference_assign" | "difference_assign" ->
      (* theorems C02_difference_*: the pieces x /\ not c cover the difference exactly; a hint is used for a
         non-empty piece only after it has been shown (equiv_sys) to generate exactly that piece *)
      let y = get (nexti c) in
      if y.dim <> n || y.topo <> x.topo then raise (Skip "incompatible operands");
      let dn = nat (n + 1) in
      let wf g = List.length g.gcoefs = n && (match g.gk with GPoint | GClosure -> (match g.gdiv with Zpos _ -> true | _ -> false) | _ -> true) in
      let hints = List.filter (fun g -> has_point g && List.for_all wf g) !cur_hints in
      let used = List.filter_map (fun piece ->
        match nonempty_sys dn piece with
        | None -> raise (Skip "undecided emptiness of a piece")
        | Some false -> None
        | Some true ->
          (match List.find_opt (fun g -> equiv_sys (nat (n + List.length g + 1)) (cons_of_gens (nat n) g) piece = Some true) hints with
           | Some g -> Some g
           | None -> raise (Skip "no validated generator hint for a piece"))) (diff_pieces x.s y.s) in
      if used = [] then id, upd false_sys, none
      else
        let h = cons_of_gens (nat n) (List.concat used) in
        id, upd (if x.topo = "C" then relax h else h), none
  | "concatenate_assign" -> let y = get (nexti c) in id, { x with s = concatenate (nat n) x.s y.s; dim = n + y.dim; gens = None }, none
  | "topological_closure_assign" -> id, upd (closure_of x), none
  | "affine_image" | "affine_preimage" ->
      let v = nexti c in let d = nextz c in let e = read_expr_n c in check_den d;
      if v >= n || List.length e.lcoefs > n then raise (Skip "dimension-incompatible");
      id, upd ((if op = "affine_image" then affine_image else affine_preimage) (nat v) (nat n) e d x.s), none
  | "generalized_affine_image" | "generalized_affine_preimage" ->
      let v = nexti c in let r = read_rel c in let d = nextz c in let e = read_expr_n c in check_den d;
      if v >= n || List.length e.lcoefs > n then raise (Skip "dimension-incompatible");
      (match r with None -> raise (Skip "NOT_EQUAL") | Some r ->
        if x.topo = "C" && (r = RLT || r = RGT) then raise (Skip "strict relation on C");
        id, upd ((if op = "generalized_affine_image" then generalized_affine_image else generalized_affine_preimage) (nat v) (nat n) r e d x.s), none)
  | "generalized_affine_image_lhs" | "generalized_affine_preimage_lhs" ->
      let lhs = read_expr_n c in let r = read_rel c in let rhs = read_expr_n c in
      if List.length lhs.lcoefs > n || List.length rhs.lcoefs > n then raise (Skip "dimension-incompatible");
      (match r with None -> raise (Skip "NOT_EQUAL") | Some r ->
        if x.topo = "C" && (r = RLT || r = RGT) then raise (Skip "strict relation on C");
        id, upd ((if op = "generalized_affine_image_lhs" then generalized_affine_image_lhs else generalized_affine_preimage_lhs) (nat n) lhs r rhs x.s), none)
  | "bounded_affine_image" | "bounded_affine_preimage" ->
      let v = nexti c in let d = nextz c in let lb = read_expr_n c in let ub = read_expr_n c in check_den d;
      if v >= n || List.length lb.lcoefs > n || List.length ub.lcoefs > n then raise (Skip "dimension-incompatible");
      id, upd ((if op = "bounded_affine_image" then bounded_affine_image else bounded_affine_preimage) (nat v) (nat n) lb ub d x.s), none
  | "unconstrain" -> let v = nexti c in if v >= n then raise (Skip "dimension-incompatible"); id, upd (unconstrain (nat v) x.s), none
  | "unconstrain_set" -> let k = nexti c in let vs = List.init k (fun _ -> nexti c) in
      if List.exists (fun v -> v >= n) vs then raise (Skip "dimension-incompatible");
      id, upd (unconstrain_set (List.map nat vs) x.s), none
  | "add_space_dimensions_and_embed" -> let m = nexti c in id, { x with dim = n + m; gens = None }, none
  | "add_space_dimensions_and_project" -> let m = nexti c in id, { x with dim = n + m; s = project_dims (nat n) (nat m) x.s; gens = None }, none
  | "remove_higher_space_dimensions" -> let k = nexti c in if k > n then raise (Skip "dimension-incompatible");
      id, { x with dim = k; s = remove_higher (nat k) (nat n) x.s; gens = None }, none
  | "remove_space_dimensions" ->
      let k = nexti c in let vs = List.init k (fun _ -> nexti c) in
      if List.exists (fun v -> v >= n) vs then raise (Skip "dimension-incompatible");
      let cnt = ref 0 in
      let pf = List.init n (fun i -> if List.mem i vs then None else (let j = !cnt in incr cnt; Some (nat j))) in
      id, { x with dim = !cnt; s = map_dims pf (nat (n + 1)) x.s; gens = None }, none
  | "map_space_dimensions" ->
      let k = nexti c in let m = List.init k (fun _ -> nexti c) in
      if k <> n then raise (Skip "partial function arity");
      let pf = List.map (fun j -> if j < 0 then None else Some (nat j)) m in
      let newdim = List.fold_left (fun a j -> if j >= 0 then max a (j + 1) else a) 0 m in
      id, { x with dim = newdim; s = map_dims pf (nat (max n newdim + 1)) x.s; gens = None }, none
  | "expand_space_dimension" -> let v = nexti c in let m = nexti c in
      if v >= n then raise (Skip "dimension-incompatible");
      id, { x with dim = n + m; s = expand (nat v) (nat n) (nat m) x.s; gens = None }, none
  | "assign" -> let y = get (nexti c) in id, { y with topo = x.topo }, none
  | _ -> raise (Skip ("op " ^ op))

(* ---- checks ---- *)
type verdict = Ok | Fail of string | Undecided
let of_ob expected = function Some b -> if b = expected then Ok else Fail (Printf.sprintf "verified oracle says %b" b) | None -> Undecided

let check_state (o : obj) (st : st) : (string * verdict) list =
  let n = nat (st.sdim + 1) in
  let dd = timed (fun () -> dd_pair (nat st.sdim) st.scons st.sgens) None in
  let eq = timed (fun () -> equiv_sys n (sys_of_cons st.scons) o.s) None in
  [ "dd", of_ob true dd;
    "value", of_ob true eq;
    "dim", (if st.sdim = o.dim && st.stopo = o.topo then Ok else Fail "dimension/topology differs from the reference");
    "OK", (if st.sok = 1 then Ok else Fail "OK() returned false") ]

let qeq (q : q) (nz : z) (dz : z) =
  (* q == nz/dz *)
  Z.eqb (Z.mul q.qnum dz) (Z.mul nz (Zpos q.qden))

let bool_of_string01 s = (s = "1")

(* affine_dimension answers seen in the current case: (space dimension, reference system, answer) *)
let affdim_seen : (int * sys * int) list ref = ref []

(* queries: returns verdict list *)
let ref_query c (ans : string list) : (string * verdict) list =
  let id = nexti c in let x = get id in let q = next c in let n = x.dim in let dn = dimn x in
  let ansb () = match ans with ["ans"; "b"; v] -> bool_of_string01 v | _ -> raise (Syntax "expected ans b") in
  let cmpb name r = [ name, (match timed (fun () -> Lazy.force r) None with Some b -> if b = ansb () then Ok else Fail (Printf.sprintf "implementation %b, verified reference %b" (ansb ()) b) | None -> Undecided) ] in
  match q with
  | "is_empty" -> cmpb q (lazy (q_is_empty dn x.s))
  | "is_universe" -> cmpb q (lazy (q_is_universe dn x.s))
  | "is_bounded" -> cmpb q (lazy (q_is_bounded (nat n) x.s))
  | "is_topologically_closed" -> cmpb q (lazy (q_is_closed dn x.s))
  | "contains" -> let y = get (nexti c) in cmpb q (lazy (q_contains dn x.s y.s))
  | "strictly_contains" -> let y = get (nexti c) in cmpb q (lazy (q_strictly_contains dn x.s y.s))
  | "is_disjoint_from" -> let y = get (nexti c) in cmpb q (lazy (q_is_disjoint dn x.s y.s))
  | "equals" -> let y = get (nexti c) in cmpb q (lazy (q_equals dn x.s y.s))
  | "affine_dimension" ->
      (* no reference value (the model has no rank theory).  What C01 states is judged: the answer is a function of the
         point set -- it must coincide with every earlier answer given, in this case, for an object that the verified
         equivalence decides to denote the same set; plus the exact values that follow from decided facts:
         0 on the empty set, the space dimension on the universe, at most the space dimension always *)
      (match ans with
       | ["ans"; "n"; v] ->
           let v = int_of_string v in
           let same = List.filter_map (fun (d, s, a) ->
             if d <> n then None else
             match timed (fun () -> equiv_sys dn s x.s) None with Some true -> Some a | _ -> None) !affdim_seen in
           affdim_seen := (n, x.s, v) :: !affdim_seen;
           let r1 = [ "affine_dimension/same-set", (if List.for_all (fun a -> a = v) same then Ok
                       else Fail (Printf.sprintf "answer %d, but %d was answered for an object denoting the same set" v (List.find (fun a -> a <> v) same))) ] in
           let r2 = [ "affine_dimension/range", (if v < 0 || v > n then Fail "outside 0..space dimension" else Ok) ] in
           let r3 = (match timed (fun () -> q_is_empty dn x.s) None with
                     | Some true -> [ "affine_dimension/empty", (if v = 0 then Ok else Fail "non-zero on the empty set") ]
                     | Some false -> (match timed (fun () -> q_is_universe dn x.s) None with
                                      | Some true -> [ "affine_dimension/universe", (if v = n then Ok else Fail "universe must have full dimension") ]
                                      | _ -> [])
                     | None -> []) in
           (* exact at 0: affine dimension 0 iff the set has at most one point (theorem C01_is_discrete) *)
           let r4 = (match timed (fun () -> q_is_discrete (nat n) x.s) None with
                     | Some d -> [ "affine_dimension/zero", (if d = (v = 0) then Ok else Fail (Printf.sprintf "answer %d, but the set %s" v (if d then "has at most one point" else "has two distinct points"))) ]
                     | None -> []) in
           r1 @ r2 @ r3 @ r4
       | _ -> raise (Syntax "expected ans n"))
  | "is_discrete" -> cmpb q (lazy (q_is_discrete (nat n) x.s))
  | "constrains" -> let v = nexti c in cmpb q (lazy (q_constrains dn (nat v) x.s))
  | "bounds_from_above" -> let e = read_expr_n c in cmpb q (lazy (q_bounds_above (nat n) e x.s))
  | "bounds_from_below" -> let e = read_expr_n c in cmpb q (lazy (q_bounds_below (nat n) e x.s))
  | "relation_with_con" ->
      let k = read_con c n in
      (match ans with
       | ["ans"; "rel"; d; i; s; si] ->
           (* the implementation reports a conjunction of relations it can establish; each reported
              relation must be true; and the four relations the reference finds true must be reported
              (the documentation defines them exactly) *)
           let one name r v = (match timed (fun () -> Lazy.force r) None with
             | Some b -> if b = bool_of_string01 v then Ok else Fail (Printf.sprintf "%s: implementation %s, verified reference %b" name v b)
             | None -> Undecided) in
           [ "rel_disjoint", one "is_disjoint" (lazy (rel_is_disjoint dn x.s k)) d;
             "rel_included", one "is_included" (lazy (rel_is_included dn x.s k)) i;
             "rel_saturates", one "saturates" (lazy (rel_saturates dn x.s k)) s;
             "rel_strictly", one "strictly_intersects" (lazy (rel_strictly_intersects dn x.s k)) si ]
       | _ -> raise (Syntax "expected ans rel"))
  | "relation_with_gen" ->
      (* subsumes: adding the generator to a generator system of P does not change P *)
      let g = read_gen c n in
      let gs = gens_hint x in
      if not (has_point gs) then cmpb q (lazy (Some false))
      else cmpb q (lazy (equiv_sys (nat (n + List.length gs + 2)) (sys_of_gens n (gs @ [g])) x.s))
  | "relation_with_cg" ->
      let m = nextz c in let b = nextz c in let a = take_z c n in
      if m = Z0 then raise (Skip "equality congruence") else
      let m = Z.abs m in
      let e = { lcoefs = a; lcst = b } in
      (match ans with
       | ["ans"; "rel"; d; i; _s; si] ->
           let inter = timed (fun () -> cg_intersects (nat n) e m x.s) None in
           let incl = timed (fun () -> cg_included (nat n) e m x.s) None in
           let one name r v = (match r with
             | Some b -> if b = bool_of_string01 v then Ok else Fail (Printf.sprintf "%s: implementation %s, verified reference %b" name v b)
             | None -> Undecided) in
           [ "relcg_disjoint", one "is_disjoint" (Option.map not inter) d;
             "relcg_included", one "is_included" incl i;
             "relcg_strictly", one "strictly_intersects" (match inter, incl with Some a, Some b -> Some (a && not b) | _ -> None) si ]
       | _ -> raise (Syntax "expected ans rel"))
  | "frequency" ->
      (* on polyhedra: true iff the set is non-empty and the expression is constant on it (theorem C01_frequency);
         then the frequency is 0/1 and the value is that constant *)
      let e = read_expr_n c in
      (match timed (fun () -> q_constant (nat n) e x.s) None, ans with
       | None, _ -> [ q, Undecided ]
       | Some None, "ans" :: "freq" :: "0" :: _ -> [ q, Ok ]
       | Some None, _ -> [ q, Fail "returned true, but the expression is not constant on a non-empty set" ]
       | Some (Some v), "ans" :: "freq" :: "1" :: fn :: fd :: vn :: vd :: _ ->
           let fn = z_of_string fn and vn = z_of_string vn and vd = z_of_string vd in
           ignore fd;
           [ q, (if fn <> Z0 then Fail "frequency is not 0"
                 else if vd = Z0 then Fail "zero value denominator"
                 else if qeq v vn vd then Ok else Fail "value differs from the verified constant") ]
       | Some (Some _), _ -> [ q, Fail "returned false, but the expression is constant on a non-empty set" ])
  | "maximize" | "minimize" ->
      let e = read_expr_n c in
      let r = timed (fun () -> if q = "maximize" then q_maximize (nat n) e x.s else q_minimize (nat n) e x.s) None in
      (match r, ans with
       | None, _ -> [ q, Undecided ]
       | Some (SupVal (m, att)), ("ans" :: "opt" :: "1" :: nz :: dz :: mx :: grest) ->
           let nz = z_of_string nz and dz = z_of_string dz in
           let v1 = if qeq m nz dz then Ok else Fail "optimal value differs from the verified supremum/infimum" in
           let v2 = if att = bool_of_string01 mx then Ok else Fail (Printf.sprintf "attained flag %s, verified %b" mx att) in
           (* witness: when attained, a point of the set at which the expression takes the value *)
           let v3 =
             if not att then Ok else begin
               let gc = { t = grest } in let g = read_gen gc n in
               if not (is_point g) then Fail "witness is not a point" else begin
                 (* x_i * div = coord_i ; e(x) * d == n *)
                 let eqs = List.mapi (fun i ci -> { ccoefs = List.init n (fun j -> if i = j then g.gdiv else Z0); ccst = Z.opp ci; ckd = EQ }) g.gcoefs in
                 let inside = timed (fun () -> nonempty_sys (dimn x) (union_sys x.s (sys_of_cons eqs))) None in
                 let valc = { ccoefs = List.map (fun a -> Z.mul a dz) e.lcoefs; ccst = Z.sub (Z.mul e.lcst dz) nz; ckd = EQ } in
                 let valok = nonempty_sys (dimn x) (sys_of_cons (valc :: eqs)) in
                 match inside, valok with
                 | Some true, Some true -> Ok
                 | Some false, _ -> Fail "witness point is not in the polyhedron"
                 | _, Some false -> Fail "expression at the witness differs from the reported optimum"
                 | _ -> Undecided end end in
           [ q ^ "_value", v1; q ^ "_attained", v2; q ^ "_witness", v3 ]
       | Some (SupVal _), _ -> [ q, Fail "implementation reports unbounded/empty, verified reference finds a finite optimum" ]
       | Some _, ("ans" :: "opt" :: "0" :: _) -> [ q, Ok ]
       | Some SupUnbounded, _ -> [ q, Fail "implementation reports a finite optimum, verified reference: unbounded" ]
       | Some SupEmpty, _ -> [ q, Fail "implementation reports an optimum on an empty polyhedron" ])
  | _ -> raise (Skip ("query " ^ q))

(* ---- main loop ---- *)
let () =
  let casefile = Sys.argv.(1) and obsfile = Sys.argv.(2) in
  let ic = open_in casefile and io = open_in obsfile in
  let rdo () = try Some (input_line io) with End_of_file -> None in
  let case = ref "?" and step = ref 0 and dead = ref false in
  let report kind line v =
    incr stats_checks;
    match v with
    | Ok -> ()
    | Fail d -> Printf.printf "FAIL %s %d %s | %s | %s\n" !case !step kind line d
    | Undecided -> incr stats_undecided; Printf.printf "UNDECIDED %s %d %s | %s\n" !case !step kind line in
  let expect_res () = match rdo () with
    | Some l -> (match split l with ["res"; "ok"] -> `Ok | ["res"; "exn"; cls] -> `Exn cls
                 | "HARNESS-ERROR" :: _ -> Printf.printf "HARNESS %s\n" l; exit 3
                 | _ -> raise (Syntax ("expected res: " ^ l)))
    | None -> raise (Syntax "observation file ended early") in
  let resync id (st : st) =
    (* take over the implementation's description as the new reference (it has just been verified equal,
       or the operation is not modelled) *)
    Hashtbl.replace pool id { topo = st.stopo; dim = st.sdim; s = sys_of_cons st.scons; gens = Some st.sgens } in
  (try
    while true do
      let line = input_line ic in
      let toks = split line in
      (match toks with
       | [] -> ()
       | t :: _ when t.[0] = '#' -> ()
       | "case" :: id :: _ -> case := id; step := 0; dead := false; Hashtbl.reset pool; affdim_seen := []; incr stats_cases; ignore (rdo ())
       | "end" :: _ -> ignore (rdo ())
       | _ when !dead ->
           (* after a failure the case is abandoned; consume the matching observation lines *)
           (match toks with
            | ("new" | "copy" | "twin") :: _ -> (match expect_res () with `Ok -> ignore (rdo ()) | `Exn _ -> ())
            | "op" :: _ :: name :: _ ->
                ignore (expect_res ());
                let rec eat () = match rdo () with Some l when (match split l with ("ret" | "tok" | "hint") :: _ -> true | _ -> false) -> eat () | _ -> () in eat ()
            | "stall" :: _ -> let rec eat () = match rdo () with Some "endst" | None -> () | _ -> eat () in eat ()
            | _ -> ignore (rdo ()))
       | "new" :: rest ->
           incr step; incr stats_steps;
           let r = expect_res () in
           (match r with
            | `Exn cls -> report "ctor-exception" line (Fail ("unexpected exception " ^ cls)); dead := true
            | `Ok ->
              let stl = (match rdo () with Some l -> l | None -> raise (Syntax "eof")) in
              let st = parse_st stl in
              (try
                let id, o = ref_new { t = rest } in
                bump ("new:" ^ (List.nth rest 3));
                let vs = check_state o st in
                List.iter (fun (k, v) -> report ("new/" ^ k) line v) vs;
                if List.exists (fun (_, v) -> match v with Fail _ -> true | _ -> false) vs then dead := true
                else resync id st
              with Skip _ -> resync (int_of_string (List.hd rest)) st))
       | "copy" :: a :: b :: _ ->
           incr step; incr stats_steps;
           ignore (expect_res ());
           let st = parse_st (match rdo () with Some l -> l | None -> raise (Syntax "eof")) in
           let y = get (int_of_string b) in
           let vs = check_state y st in
           List.iter (fun (k, v) -> report ("copy/" ^ k) line v) vs;
           if List.exists (fun (_, v) -> match v with Fail _ -> true | _ -> false) vs then dead := true
           else resync (int_of_string a) st
       | "twin" :: a :: b :: how :: _ ->
           incr step; incr stats_steps;
           ignore (expect_res ());
           let st = parse_st (match rdo () with Some l -> l | None -> raise (Syntax "eof")) in
           let y = get (int_of_string b) in
           bump ("twin:" ^ how);
           let vs = check_state y st in
           List.iter (fun (k, v) -> report ("twin/" ^ k) line v) vs;
           if List.exists (fun (_, v) -> match v with Fail _ -> true | _ -> false) vs then dead := true
           else resync (int_of_string a) st
       | "op" :: rest ->
           incr step; incr stats_steps;
           let name = List.nth rest 1 in
           let r = expect_res () in
           (* optional ret/tok line *)
           let stl = ref (match rdo () with Some l -> l | None -> raise (Syntax "eof")) in
           cur_hints := [];
           let rec hints () = match split !stl with
             | "hint" :: "gens" :: rest' ->
                 (try let cc = { t = rest' } in
                      let k = nexti cc in
                      let toks = Array.of_list cc.t in
                      let w = if k = 0 then 0 else Array.length toks / k in
                      let dim = w - 2 in
                      cur_hints := !cur_hints @ [ read_gens { t = rest' } dim ]
                  with _ -> ());
                 stl := (match rdo () with Some l -> l | None -> raise (Syntax "eof")); hints ()
             | _ -> () in
           hints ();
           let ret = ref None in
           (match split !stl with
            | ("ret" | "tok") :: v :: _ -> ret := Some v; stl := (match rdo () with Some l -> l | None -> raise (Syntax "eof"))
            | _ -> ());
           let st = parse_st !stl in
           let id0 = int_of_string (List.hd rest) in
           (try
             let x0 = get id0 in
             bump ("op:" ^ name); bump ("flags:" ^ st.flags);
             (match r with
              | `Exn cls ->
                  (* an exception on a call the generator believes well-formed: the receiver must be unchanged;
                     whether the exception itself is legitimate is property C14's business, except that a
                     modelled well-formed call must not throw *)
                  let vs = check_state x0 st in
                  List.iter (fun (k, v) -> report ("op-exn-unchanged/" ^ k) line v) vs;
                  (try let _ = ref_op { t = rest } in report ("op:" ^ name) line (Fail ("well-formed call threw " ^ cls)); dead := true
                   with Skip _ -> () | Relational _ -> report ("op:" ^ name) line (Fail ("well-formed call threw " ^ cls)); dead := true);
                  if not !dead then resync id0 st
              | `Ok ->
                  let id, o, expret = ref_op { t = rest } in
                  (match expret, !ret with
                   | Some f, Some v -> (match f () with
                       | Some b -> report ("op:" ^ name ^ "/ret") line (if b = (v = "1") then Ok else Fail (Printf.sprintf "returned %s, verified reference %b" v b))
                       | None -> ())
                   | _ -> ());
                  let vs = check_state o st in
                  List.iter (fun (k, v) -> report ("op:" ^ name ^ "/" ^ k) line v) vs;
                  if List.exists (fun (_, v) -> match v with Fail _ -> true | _ -> false) vs then dead := true
                  else resync id st)
           with Relational (lo, hi) when r = `Ok ->
             bump ("op:" ^ name);
             let x0 = get id0 in
             let rs = sys_of_cons st.scons in
             let dn = nat (x0.dim + 1) in
             report ("op:" ^ name ^ "/dd") line (of_ob true (timed (fun () -> dd_pair (nat st.sdim) st.scons st.sgens) None));
             report ("op:" ^ name ^ "/OK") line (if st.sok = 1 then Ok else Fail "OK() returned false");
             report ("op:" ^ name ^ "/value") line (of_ob true (timed (fun () -> incl_sys dn lo rs) None));
             report ("op:" ^ name ^ "/value") line (of_ob true (timed (fun () -> incl_sys dn rs hi) None));
             resync id0 st
           | Skip why when name = "simplify_using_context_assign" && r = `Ok ->
             (* relational specification: the result contains the receiver, has the same meet with the
                context, and the flag says whether that meet is non-empty *)
             bump ("op:" ^ name);
             let x0 = get id0 in
             let y = get (int_of_string (List.nth rest 2)) in
             let rs = sys_of_cons st.scons in
             let dn = nat (x0.dim + 1) in
             report ("op:" ^ name ^ "/dd") line (of_ob true (timed (fun () -> dd_pair (nat st.sdim) st.scons st.sgens) None));
             report ("op:" ^ name ^ "/OK") line (if st.sok = 1 then Ok else Fail "OK() returned false");
             let meet_ne = timed (fun () -> suc_flag dn x0.s y.s) None in
             (match !ret, meet_ne with
              | Some v, Some b -> report ("op:" ^ name ^ "/ret") line (if b = (v = "1") then Ok else Fail (Printf.sprintf "returned %s but the meet with the context is %s" v (if b then "non-empty" else "empty")))
              | _, None -> report ("op:" ^ name ^ "/ret") line Undecided
              | _ -> ());
             (* theorem C02_simplify_using_context: true iff the result is a meet-preserving enlargement of the receiver
                (when the meet is empty this says: the result is still disjoint from the context) *)
             report ("op:" ^ name ^ "/value") line (of_ob true (timed (fun () -> suc_check dn x0.s y.s rs) None));
             resync id0 st
           | Skip why ->
             bump ("unmodelled:" ^ name);
             (* not modelled: still check C01 on the result (both descriptions agree, OK()) and resynchronise *)
             report ("op:" ^ name ^ "/dd") line (of_ob true (timed (fun () -> dd_pair (nat st.sdim) st.scons st.sgens) None));
             report ("op:" ^ name ^ "/OK") line (if st.sok = 1 then Ok else Fail "OK() returned false");
             resync id0 st)
       | "stall" :: _ ->
           incr step;
           let rec loop () = match rdo () with
             | Some "endst" | None -> ()
             | Some l ->
                 let st = parse_st l in
                 (try
                   let o = get st.sid in
                   let vs = check_state o st in
                   List.iter (fun (k, v) -> report ("unchanged/" ^ k) (Printf.sprintf "object %d" st.sid) v) vs;
                   if List.exists (fun (_, v) -> match v with Fail _ -> true | _ -> false) vs then dead := true
                 with Syntax _ -> ());
                 loop () in
           loop ()
       | "qry" :: rest ->
           incr step; incr stats_steps;
           let ans = (match rdo () with Some l -> split l | None -> raise (Syntax "eof")) in
           (match ans with
            | "ans" :: "exn" :: cls :: _ -> bump ("qry-exn:" ^ cls)
            | _ ->
              (try
                bump ("qry:" ^ List.nth rest 1);
                let vs = ref_query { t = rest } ans in
                List.iter (fun (k, v) -> report ("qry:" ^ k) line v) vs
              with Skip _ -> bump ("unmodelled:" ^ List.nth rest 1)
                 | Syntax m -> raise (Syntax (m ^ " at: " ^ line ^ " / " ^ String.concat " " ans))))
       | "obs" :: rest ->
           incr step; incr stats_steps;
           let ol = (match rdo () with Some l -> l | None -> raise (Syntax "eof")) in
           let id = int_of_string (List.hd rest) in
           let what = List.nth rest 1 in
           let x = get id in
           bump ("obs:" ^ what);
           let c = { t = split ol } in
           ignore (next c);
           (match what with
            | "constraints" | "minimized_constraints" ->
                ignore (next c); let cs = read_cons c x.dim in
                report ("obs:" ^ what) line (of_ob true (timed (fun () -> equiv_sys (dimn x) (sys_of_cons cs) x.s) None))
            | "generators" | "minimized_generators" ->
                ignore (next c); let gs = read_gens c x.dim in
                report ("obs:" ^ what) line (of_ob true (timed (fun () -> equiv_sys (nat (x.dim + List.length gs + 1)) (sys_of_gens x.dim gs) x.s) None))
            | "OK" -> ignore (next c); report "obs:OK" line (if next c = "1" then Ok else Fail "OK() false")
            | _ -> ())
       | _ -> raise (Syntax ("unknown case line: " ^ line)))
    done
  with End_of_file -> ());
  Printf.printf "STAT steps %d checks %d undecided %d cases %d timeouts %d\n" !stats_steps !stats_checks !stats_undecided !stats_cases !timeouts;
  Hashtbl.iter (fun k v -> Printf.printf "COV %s %d\n" k v) cov
