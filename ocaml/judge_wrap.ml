(* Judge for property C17 (wrap_assign / contains_integer_point / drop_some_non_integer_points).
   Untrusted glue (parsing, enumeration of candidate points, bookkeeping) around verified functions extracted
   from Coq into module Wrap: membership tests (sat_cons_b, sat_cg_b), the wrapping function and target values
   (targets_b), the generic wrap_assign model on finite unions of reference polyhedra (ref_wrap), exact
   inclusion (incl_sys), the exact integer search (contains_integer_point, no_int_point_violating).

   usage: judge_wrap <casefile> <obsfile>
   output:  FAIL <id> <kind> <tag> | <detail>
            BROKEN <id> <kind> | <detail>          (model / library correspondence, no lost required point)
            UNDECIDED <id> <kind>
            STAT k v k v ...
            COV <key> <count>                                                                    *)
open Wrap
open Zutil_wrap

let split s = List.filter (fun x -> x <> "") (String.split_on_char ' ' s)
exception Syntax of string
type cur = { mutable t : string list }
let next c = match c.t with x :: r -> c.t <- r; x | [] -> raise (Syntax "missing token")
let peek c = match c.t with x :: _ -> Some x | [] -> None
let nexti c = int_of_string (next c)
let nextz c = z_of_string (next c)
let expect c w = let x = next c in if x <> w then raise (Syntax ("expected " ^ w ^ " got " ^ x))
let rec take_z c n = if n = 0 then [] else let x = nextz c in x :: take_z c (n - 1)
let nat = nat_of_int

let kind_of = function "=" -> EQ | ">=" -> GE | ">" -> GT | k -> raise (Syntax ("kind " ^ k))
let read_con c dim = let k = kind_of (next c) in let b = nextz c in let a = take_z c dim in { ccoefs = a; ccst = b; ckd = k }
let read_cons c dim = expect c "cons"; let k = nexti c in List.init k (fun _ -> read_con c dim)
let read_cg c dim = let m = nextz c in let b = nextz c in let a = take_z c dim in { gcoefs_ = a; gcst_ = b; gmod_ = m }
let read_cgs c dim = expect c "cgs"; let k = nexti c in List.init k (fun _ -> read_cg c dim)

type disj = { dc : con list; dg : cgr list }
let read_descr c dim = expect c "disj"; let k = nexti c in
  List.init k (fun _ -> let dc = read_cons c dim in let dg = read_cgs c dim in { dc; dg })

let pos_of_z = function Zpos p -> p | _ -> XH
let q_of_string s =
  match String.index_opt s '/' with
  | None -> { qnum = z_of_string s; qden = XH }
  | Some i -> { qnum = z_of_string (String.sub s 0 i); qden = pos_of_z (z_of_string (String.sub s (i + 1) (String.length s - i - 1))) }
let string_of_q q = if q.qden = XH then string_of_z q.qnum else string_of_z q.qnum ^ "/" ^ string_of_z (Zpos q.qden)
let qz z = { qnum = z; qden = XH }

let in_disj d p = sat_cons_b d.dc p && List.for_all (fun g -> sat_cg_b g p) d.dg
let in_descr ds p = List.exists (fun d -> in_disj d p) ds

(* ---- time budget: exceeding it makes a check UNDECIDED, never a verdict ---- *)
exception Timeout
let budget = ref (try float_of_string (Sys.getenv "VERIF_JUDGE_BUDGET") with _ -> 5.0)
let armed = ref false
let () = Sys.set_signal Sys.sigalrm (Sys.Signal_handle (fun _ -> if !armed then begin armed := false; raise Timeout end))
let timed (f : unit -> 'a) : 'a option =
  let stop () = armed := false; ignore (Unix.setitimer Unix.ITIMER_REAL { Unix.it_interval = 0.0; it_value = 0.0 }) in
  try
    armed := true;
    ignore (Unix.setitimer Unix.ITIMER_REAL { Unix.it_interval = 0.0; it_value = !budget });
    let r = f () in stop (); Some r
  with Timeout -> stop (); Gc.compact (); None
     | Stack_overflow | Out_of_memory -> stop (); Gc.compact (); None

let stats : (string, int) Hashtbl.t = Hashtbl.create 16
let cov : (string, int) Hashtbl.t = Hashtbl.create 64
let bumpn h k n = Hashtbl.replace h k (n + try Hashtbl.find h k with Not_found -> 0)
let bump h k = bumpn h k 1

let rec product (ls : 'a list list) : 'a list list =
  match ls with
  | [] -> [[]]
  | l :: r -> let pr = product r in List.concat_map (fun x -> List.map (fun t -> x :: t) pr) l

let str_pt l = "(" ^ String.concat "," (List.map string_of_q l) ^ ")"

(* ---- wrap ---- *)
type wcase = { dim : int; vars : int list; w : int; sg : bool; ov : overflow; guard : con list option; thr : int; ind : bool;
               cand : q list list; ucand : z list; dom : string }

let parse_wrap_case dom dim c =
  (* skip the argument: cons K .. [cgs K ..] [alt cons K ..] *)
  ignore (read_cons c dim);
  let rec skip () = match peek c with
    | Some "cgs" -> ignore (read_cgs c dim); skip ()
    | Some "alt" -> ignore (next c); ignore (read_cons c dim); skip ()
    | _ -> () in
  skip ();
  expect c "vars"; let k = nexti c in let vars = List.init k (fun _ -> nexti c) in
  expect c "w"; let w = nexti c in
  expect c "sg"; let sg = nexti c <> 0 in
  expect c "ov"; let ov = (match nexti c with 0 -> OWraps | 1 -> OUndefined | _ -> OImpossible) in
  expect c "guard"; let hg = nexti c in let guard = if hg <> 0 then Some (read_cons c dim) else None in
  expect c "thr"; let thr = nexti c in
  expect c "ind"; let ind = nexti c <> 0 in
  (match peek c with Some "st" -> ignore (next c); ignore (nexti c) | _ -> ());
  expect c "cand";
  let cand = List.init dim (fun _ -> let k = nexti c in List.init k (fun _ -> q_of_string (next c))) in
  expect c "ucand"; let k = nexti c in let ucand = List.init k (fun _ -> nextz c) in
  { dim; vars; w; sg; ov; guard; thr; ind; cand; ucand; dom }

let ov_name = function OWraps -> "wraps" | OUndefined -> "undefined" | OImpossible -> "impossible"

let model wc (argc : con list) patched =
  ref_wrap (nat wc.dim) (z_of_int wc.w) wc.sg wc.ov wc.guard (z_of_int wc.thr) wc.ind patched
    (List.map nat wc.vars) [sys_of_cons argc]

let judge_wrap id wc (arg : disj list) (out : disj list) =
  bump stats "cases";
  let zw = z_of_int wc.w in
  let guard = match wc.guard with Some g -> g | None -> [] in
  let failed = ref false in
  let npts = ref 0 and nreq = ref 0 and nmoved = ref 0 in
  let pts = product wc.cand in
  let single_poly = (match arg with [d] -> d.dg = [] | _ -> false) in
  let all_poly = List.for_all (fun d -> d.dg = []) arg in
  (* classification of a lost point: is it lost by the faithful generic model (and kept by the patched one) on every
     disjunct of the argument containing its source point?  (a powerset wraps each disjunct separately) *)
  let classify pl q =
    if not all_poly then "no-model" else
    match timed (fun () ->
      List.for_all (fun d ->
        if in_disj d (pt_of pl) then (not (rden_b (model wc d.dc false) q)) && rden_b (model wc d.dc true) q else true) arg) with
    | Some true -> "pre-fix-model-loses-it"     (* the behaviour of wrap_assign.hh before the fix of the collective path *)
    | Some false -> "model-keeps-it"
    | None -> "no-model" in
  List.iter (fun pl ->
    if not !failed then begin
      let p = pt_of pl in
      if in_descr arg p then begin
        (* integral on the wrapped variables ? *)
        let ok_int = List.for_all (fun v -> (List.nth pl v).qden = XH) wc.vars in
        if ok_int then begin
          incr npts;
          let tg = List.mapi (fun i x ->
                     if List.mem i wc.vars then List.map qz (targets_b zw wc.sg wc.ov wc.ucand x.qnum) else [x]) pl in
          List.iter (fun ql ->
            if not !failed then begin
              let q = pt_of ql in
              if sat_cons_b guard q then begin
                incr nreq;
                if ql <> pl then incr nmoved;
                if not (in_descr out q) then begin
                  failed := true;
                  let tag = classify pl q in
                  Printf.printf "FAIL %s lost-point %s | p=%s q=%s\n" id tag (str_pt pl) (str_pt ql)
                end
              end
            end) (product tg)
        end
      end
    end) pts;
  bumpn stats "points" !npts; bumpn stats "required" !nreq; bumpn stats "moved" !nmoved;
  if !npts > 0 then bump cov (Printf.sprintf "wrap:%s:%s:%s" wc.dom (ov_name wc.ov) (if wc.ind then "ind" else "col"));
  if !nmoved > 0 then bump stats "nontrivial";
  Printf.printf "INFO %s points %d required %d moved %d\n" id !npts !nreq !nmoved;
  (* the generic model on reference polyhedra must be included in the library's polyhedron *)
  if (wc.dom = "C" || wc.dom = "NNC") && single_poly && not !failed then begin
    match out with
    | [o] ->
        let relax_guard = wc.dom = "C" in
        let wc' = if relax_guard then { wc with guard = (match wc.guard with
                     | Some g -> Some (List.map (fun k -> if k.ckd = GT then { k with ckd = GE } else k) g) | None -> None) } else wc in
        let included patched =
          let u = model wc' (List.hd arg).dc patched in
          let os = sys_of_cons o.dc in
          List.for_all (fun s -> incl_sys (nat (wc.dim + 1)) s os = Some true) u, List.length u in
        (* the code as it is is the model with [patched = true] *)
        (match timed (fun () -> included true) with
         | Some (true, n) -> bump stats "model_included"; bumpn stats "model_disjuncts" n
         | Some (false, _) ->
             Printf.printf "BROKEN %s model-not-included | the generic model's result is not included in the library's result\n" id
         | None -> bump stats "undecided"; Printf.printf "UNDECIDED %s model-inclusion\n" id)
    | _ -> ()
  end

(* ---- contains_integer_point ---- *)
let lim = z_of_int 4096
let judge_cip id dom dim (arg : disj list) (v : int) =
  bump stats "cases";
  match arg with
  | [d] when d.dg = [] ->
      (match timed (fun () -> contains_integer_point lim (nat dim) d.dc) with
       | Some (IFound _) -> bump stats "cip_checked"; bump cov ("cip:" ^ dom ^ ":yes");
           if v <> 1 then Printf.printf "FAIL %s cip-mismatch none | library says no integer point, verified search found one\n" id
       | Some INone -> bump stats "cip_checked"; bump cov ("cip:" ^ dom ^ ":no");
           if v <> 0 then Printf.printf "FAIL %s cip-mismatch none | library says an integer point exists, verified search proves there is none\n" id
       | _ -> bump stats "undecided"; Printf.printf "UNDECIDED %s cip\n" id)
  | _ -> bump stats "undecided"; Printf.printf "UNDECIDED %s cip-shape\n" id

(* ---- drop_some_non_integer_points ---- *)
let judge_drop id dom dim (vars : int list option) (cand : q list list) (arg : disj list) (out : disj list) =
  bump stats "cases";
  let dims = match vars with Some l -> l | None -> List.init dim (fun i -> i) in
  (* window check (all domains): integer points of the argument stay; points of the result are in the argument *)
  let bad = ref false in
  List.iter (fun pl ->
    if not !bad then begin
      let p = pt_of pl in
      let ia = in_descr arg p and io = in_descr out p in
      let ok_int = List.for_all (fun v -> (List.nth pl v).qden = XH) dims in
      if ia && ok_int then bump stats "drop_points";
      if ia && ok_int && not io then begin bad := true;
        Printf.printf "FAIL %s drop-lost-integer none | p=%s\n" id (str_pt pl) end
      else if io && not ia then begin bad := true;
        Printf.printf "FAIL %s drop-not-subset none | p=%s\n" id (str_pt pl) end
    end) (product cand);
  if not !bad then
    match arg, out with
    | [a], [o] when a.dg = [] && o.dg = [] ->
        (match timed (fun () -> incl_cons (nat (dim + 1)) o.dc a.dc) with
         | Some (Some true) -> bump stats "drop_subset_checked"
         | Some (Some false) -> Printf.printf "FAIL %s drop-not-subset none | result not included in the argument (exact)\n" id
         | _ -> bump stats "undecided"; Printf.printf "UNDECIDED %s drop-subset\n" id);
        let changed = (match timed (fun () -> incl_cons (nat (dim + 1)) a.dc o.dc) with Some (Some false) -> true | _ -> false) in
        if changed then begin bump stats "nontrivial"; bump cov ("drop:" ^ dom ^ ":tightened") end else bump cov ("drop:" ^ dom ^ ":same");
        List.iter (fun c ->
          match timed (fun () -> no_int_point_violating lim (nat dim) (List.map nat dims) a.dc c) with
          | Some (Some true) -> bump stats "drop_constraints_validated"
          | Some (Some false) ->
              Printf.printf "FAIL %s drop-lost-integer none | a constraint of the result cuts off a point of the argument integral on the designated dimensions (verified search)\n" id
          | _ -> bump stats "undecided"; Printf.printf "UNDECIDED %s drop-constraint\n" id) o.dc
    | _ -> ()

let read_lines f = let ic = open_in f in let rec go acc = match input_line ic with l -> go (l :: acc) | exception End_of_file -> close_in ic; List.rev acc in go []

let () =
  let cases = read_lines Sys.argv.(1) and obs = read_lines Sys.argv.(2) in
  let ob : (string, string) Hashtbl.t = Hashtbl.create 1024 in
  List.iter (fun l -> match split l with
    | ("res" | "ans" | "exc") :: id :: _ -> Hashtbl.replace ob id l
    | _ -> ()) obs;
  List.iter (fun l ->
    match split l with
    | cmd :: id :: dom :: dims :: rest when cmd = "wrap" || cmd = "cip" || cmd = "drop" ->
        let dim = int_of_string dims in
        (match Hashtbl.find_opt ob id with
         | None -> ()
         | Some o ->
           (try
             let oc = { t = split o } in
             let kind = next oc in ignore (next oc);
             if kind = "exc" then begin
               Printf.printf "FAIL %s exception none | %s\n" id (String.concat " " oc.t)
             end else begin
               expect oc "arg"; let arg = read_descr oc dim in
               let c = { t = rest } in
               match cmd with
               | "wrap" ->
                   let wc = parse_wrap_case dom dim c in
                   expect oc "out"; let out = read_descr oc dim in
                   judge_wrap id wc arg out
               | "cip" -> expect oc "val"; judge_cip id dom dim arg (nexti oc)
               | _ ->
                   ignore (read_cons c dim);
                   (match peek c with Some "cgs" -> ignore (read_cgs c dim) | _ -> ());
                   expect c "vars"; let k = nexti c in
                   let vars = if k < 0 then None else Some (List.init k (fun _ -> nexti c)) in
                   expect c "cx"; ignore (nexti c);
                   (match peek c with Some "st" -> ignore (next c); ignore (nexti c) | _ -> ());
                   expect c "cand";
                   let cand = List.init dim (fun _ -> let k = nexti c in List.init k (fun _ -> q_of_string (next c))) in
                   expect oc "out"; let out = read_descr oc dim in
                   judge_drop id dom dim vars cand arg out
             end
           with Syntax m -> Printf.printf "SYNTAX %s %s\n" id m; exit 3))
    | _ -> ()) cases;
  print_string "STAT";
  Hashtbl.iter (fun k v -> Printf.printf " %s %d" k v) stats;
  print_newline ();
  Hashtbl.iter (fun k v -> Printf.printf "COV %s %d\n" k v) cov
