#!/usr/bin/env python3
"""Run the registered check(s) of a property against a seeded change.
usage: tools/seeded_run.py <seeded-dir-name> [--tier quick|thorough] [--checks C01,C02]
Applies seeded/<name>/patch.diff to /repo (git apply), runs ./check <property> (and any extra checks),
restores /repo (git checkout -- .), and appends the outcome to seeded/<name>/meta.json under "detection"."""
import json, os, subprocess, sys, time
V = os.path.dirname(os.path.dirname(os.path.abspath(__file__)))
name = sys.argv[1]
tier = "quick"
checks = None
a = sys.argv[2:]
while a:
    if a[0] == "--tier": tier = a[1]; a = a[2:]
    elif a[0] == "--checks": checks = a[1].split(","); a = a[2:]
    else: a = a[1:]
d = os.path.join(V, "seeded", name)
meta = json.load(open(os.path.join(d, "meta.json")))
checks = checks or [meta["property"]]
inplace = "--in-place" in sys.argv
env = dict(os.environ)
if inplace:
    st = subprocess.run(["git", "-C", "/repo", "status", "--porcelain", "--untracked-files=no"], capture_output=True, text=True).stdout.strip()
    if st:
        print("refusing: /repo has uncommitted changes to tracked files:\n" + st); sys.exit(2)
    subprocess.check_call(["git", "-C", "/repo", "apply", os.path.join(d, "patch.diff")])
else:
    # scratch copy of /repo HEAD (+ the generated, untracked headers a build needs), patch applied there
    scratch = "/tmp/seed-" + name
    subprocess.call(["rm", "-rf", scratch]); os.makedirs(scratch)
    subprocess.check_call("git -C /repo archive HEAD | tar -x -C %s" % scratch, shell=True)
    subprocess.check_call("cp /repo/ppl-config.h /repo/config.h %s/ && cp -n /repo/src/*.hh %s/src/ && cp -n /repo/interfaces/C/*.h /repo/interfaces/C/*.hh %s/interfaces/C/ 2>/dev/null; cp -n /repo/interfaces/*.m4 %s/interfaces/ 2>/dev/null; true" % (scratch, scratch, scratch, scratch), shell=True)
    subprocess.check_call(["git", "apply", "--directory=" + scratch.lstrip("/"), "--unsafe-paths", os.path.join(d, "patch.diff")], cwd="/") if False else \
        subprocess.check_call(["patch", "-p1", "-s", "-d", scratch, "-i", os.path.join(d, "patch.diff")])
    env["VERIF_REPO"] = scratch
res = {}
try:
    for c in checks:
        t0 = time.time()
        # the evidence file describes runs against /repo itself: keep it across a run against a seeded tree
        evf = os.path.join(V, "evidence", c + ".json")
        saved = open(evf).read() if os.path.exists(evf) else None
        p = subprocess.run([os.path.join(V, "check"), c, "--tier", tier], cwd=V, capture_output=True, text=True, env=env)
        if saved is not None: open(evf, "w").write(saved)
        viol = [l for l in p.stdout.split("\n") if l.startswith("VIOLATION")]
        res[c] = {"exit": p.returncode, "violation_lines": viol[:5], "n_violation_lines": len(viol), "wall_s": round(time.time() - t0, 1), "tier": tier}
        # keep the first replay as evidence of what caught it
        if viol:
            rp = viol[0].split("replay=")[1].split(" ")[0]
            try:
                r = json.load(open(os.path.join(V, rp)))
                res[c]["first_replay"] = {k: r[k] for k in r if k in ("info", "line", "judge", "no_longer_checks", "step")}
            except Exception as e:
                res[c]["first_replay"] = str(e)
        print(c, res[c]["exit"], len(viol), "violation lines", res[c]["wall_s"], "s")
finally:
    if inplace:
        subprocess.check_call(["git", "-C", "/repo", "checkout", "--", "."])
    else:
        subprocess.call(["rm", "-rf", scratch])
meta.setdefault("detection", {})
meta["detection"].update(res)
json.dump(meta, open(os.path.join(d, "meta.json"), "w"), indent=1)
