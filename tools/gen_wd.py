"""C19: schedule generators for the Watchdog tie (deterministic for a given seed).

A schedule is a list of tokens:  c<cs> (construct, delay in centiseconds)  d<id> (destroy)  s (run to next yield)
t<us> (time passes)  f (timer expires, handler runs).  A call is followed by SLOTS `s` tokens (more than any path
needs: an `s` with no call under way is simply not enabled), and an *action* (a tick or a fire) may sit in front of
each of them, i.e. at each statement boundary of the call, and between calls."""
import itertools, random

DELAYS = [1, 2, 3, 5, 8, 100, 101, 199]       # centiseconds: same second, and across a second boundary
SLOTS = 12                                     # >= number of yields on the longest path of a call (11)
TICKS = [1, 4999, 5000, 9999, 10000, 10001, 15000, 20000, 50000, 990000, 999999, 1000000, 1005000]


def call_tokens(op, actions=None):
    """op = ('c', cs) | ('d', id); actions: dict slot -> list of tokens placed before the slot's `s`."""
    out = ["%s%d" % op]
    for k in range(SLOTS):
        if actions and k in actions:
            out += actions[k]
        out.append("s")
    return out


def all_histories(n):
    """Sequences over c_i / d_i where every c_i precedes d_i, ids created in order; d_i optional."""
    res = set()

    def rec(seq, created, destroyed):
        if created == n:
            res.add(tuple(seq))
        if created < n:
            rec(seq + [("c", created)], created + 1, destroyed)
        for i in range(created):
            if i not in destroyed:
                rec(seq + [("d", i)], created, destroyed | {i})
    rec([], 0, frozenset())
    return sorted(res)


def render(history, delays, idle_actions=None, call_actions=None, drain=4):
    """history: tuple of ('c', i) / ('d', i); delays[i] in cs; idle_actions[k]: tokens before op k;
    call_actions[k]: dict slot -> tokens inside op k."""
    toks = []
    for k, (op, i) in enumerate(history):
        if idle_actions and k in idle_actions:
            toks += idle_actions[k]
        toks += call_tokens(("c", delays[i]) if op == "c" else ("d", i), call_actions.get(k) if call_actions else None)
    if idle_actions and len(history) in idle_actions:
        toks += idle_actions[len(history)]
    toks += ["f"] * drain
    return " ".join(toks)


def exhaustive_small(max_n, delays_sets, idle_menu):
    """Every history of <= max_n watchdogs x delay assignment x one idle action (from idle_menu) between
    consecutive operations."""
    for n in range(1, max_n + 1):
        for h in all_histories(n):
            for ds in itertools.product(delays_sets, repeat=n):
                for acts in itertools.product(idle_menu, repeat=len(h) - 1):
                    idle = {k + 1: list(a) for k, a in enumerate(acts) if a}
                    yield render(h, ds, idle_actions=idle, drain=n + 1)


def single_placements(history, delays, idle, menu):
    """One action placed at every slot of every call of a base schedule (the yields of the call, one at a time)."""
    for k in range(len(history)):
        for slot in range(SLOTS):
            for a in menu:
                yield render(history, delays, idle_actions=idle, call_actions={k: {slot: list(a)}}, drain=len(delays) + 2)


def double_placements(history, delays, idle, menu):
    pos = [(k, s) for k in range(len(history)) for s in range(SLOTS)]
    for (p, q) in itertools.combinations(pos, 2):
        for a in menu:
            for b in menu:
                ca = {}
                ca.setdefault(p[0], {})[p[1]] = list(a)
                ca.setdefault(q[0], {})[q[1]] = list(b)
                yield render(history, delays, idle_actions=idle, call_actions=ca, drain=len(delays) + 2)


def random_schedule(rng, max_w=6):
    n = rng.randint(1, max_w)
    delays = [rng.choice(DELAYS) for _ in range(n)]
    # random history
    hist, created, destroyed = [], 0, set()
    p_destroy = rng.choice([0.0, 0.2, 0.5])
    while created < n or (rng.random() < p_destroy and len(destroyed) < created):
        cand = [i for i in range(created) if i not in destroyed]
        if created < n and (not cand or rng.random() > p_destroy):
            hist.append(("c", created)); created += 1
        elif cand:
            i = rng.choice(cand); hist.append(("d", i)); destroyed.add(i)
        else:
            break
    p_in = rng.choice([0.0, 0.03, 0.1, 0.3])
    p_idle = rng.choice([0.2, 0.6, 0.9])

    def action():
        r = rng.random()
        if r < 0.4:
            return ["f"]
        if r < 0.9:
            return ["t%d" % rng.choice(TICKS)]
        return ["t%d" % rng.choice(TICKS), "f"]
    idle, calls = {}, {}
    for k in range(len(hist) + 1):
        if rng.random() < p_idle:
            idle[k] = action()
    for k in range(len(hist)):
        for s in range(SLOTS):
            if rng.random() < p_in:
                calls.setdefault(k, {})[s] = action()
    tail = []
    # drain: fire what is left, sometimes destroying in between
    rest = [i for i in range(created) if i not in destroyed]
    rng.shuffle(rest)
    toks = render(tuple(hist), delays, idle, calls, drain=0).split()
    for _ in range(n + 1):
        toks.append("f")
        if rest and rng.random() < 0.3:
            toks += call_tokens(("d", rest.pop()))
    return " ".join(toks)


def random_batch(seed, count, max_w=6):
    rng = random.Random(seed)
    return [random_schedule(rng, max_w) for _ in range(count)]
