"""C20 helper: build and run the repository's own C-interface tests (interfaces/C/tests: formatted_output,
pip_test, watchdog1, weightwatch1) against the C interface REGENERATED from the tree ($VERIF_REPO or /repo)
and the library built from that tree -- without the autotools build:  python3 tools/cif_repo_tests.py
Each test is compiled as C (gcc -c, -I <regenerated ppl_c.h>), ppl_c_test.cc as C++, linked with g++ against
all regenerated ppl_c_*.o + libppl_verif.a, and run in interfaces/C/tests' conventions (exit status 0 = PASS)."""
import os, sys, shutil
sys.path.insert(0, os.path.dirname(os.path.abspath(__file__)))
import common, translate_cif as T

def main():
    lib = common.build_lib("mpz")
    top, gen, doms, facts = T.collect(print, lib)
    objs, _ = T.build_objects(top, gen, lib, ["implementation_common"] + doms, print)
    tdir = os.path.join(common.REPO, "interfaces", "C", "tests")
    wd = os.path.join(top, "repo-tests")
    shutil.rmtree(wd, ignore_errors=True); os.makedirs(wd)
    inc = ["-I" + gen, "-I" + os.path.join(lib, "cfg"), "-I" + common.REPO, "-I" + tdir]
    def cc(src, cxx=False):
        o = os.path.join(wd, os.path.basename(src) + ".o")
        rc, out = common.sh((["g++", "-std=c++11"] if cxx else ["gcc"]) + ["-DHAVE_CONFIG_H", "-w", "-O1"] + inc + ["-c", os.path.join(tdir, src), "-o", o])
        if rc: raise SystemExit("compile %s failed:\n%s" % (src, out[-2000:]))
        return o
    helper = cc("ppl_c_test.cc", True)
    ptb = cc("print_to_buffer.c")
    res = {}
    for t, extra in (("formatted_output", [ptb]), ("pip_test", []), ("watchdog1", []), ("weightwatch1", [])):
        exe = os.path.join(wd, t)
        rc, out = common.sh(["g++", cc(t + ".c")] + extra + [helper] + objs + [os.path.join(lib, "libppl_verif.a"), "-lgmpxx", "-lgmp", "-o", exe])
        if rc: raise SystemExit("link %s failed:\n%s" % (t, out[-2000:]))
        rc, out = common.sh([exe], timeout=600, cwd=wd)
        res[t] = rc
        print("%s: %s (exit %d)" % (t, "PASS" if rc == 0 else "FAIL", rc))
        if rc: print(out[-1500:])
    shutil.rmtree(wd, ignore_errors=True)
    return 0 if all(v == 0 for v in res.values()) else 1

if __name__ == "__main__":
    sys.exit(main())
