"""Seeded generator of loop relations for C18 (termination analysis).

A case is one line of the run_term language:
    case <id> <dom> one <n> cons K <con>..                     (one 2n-dimensional pointset)
    case <id> <dom> two <n> cons K <con>.. cons K <con>..      (before: n dims / after: 2n dims)
a constraint is  <kind> b a_0 .. a_{dim-1}  meaning  sum a_i v_i + b  (= | >= | >)  0, with the PRIMED
variables first (v_0..v_{n-1} = x') and the unprimed after (v_n..v_{2n-1} = x), as in termination_defs.hh.

Families (aimed at the case splits of the code and of the proofs): guarded affine updates that terminate,
the same with the decrement removed / reversed (no ranking function), equalities (deterministic updates) vs
inequalities, strict guards (NNC, boxes), unbounded directions, inconsistent systems and the EMPTY element,
universe, random small systems; for weakly relational domains only constraints of the domain's shape.
"""
import random

DOMS = ["C", "NNC", "BDS", "OCT", "BOX"]


def con(kind, b, coefs):
    return "%s %d %s" % (kind, b, " ".join(str(c) for c in coefs))


def cons(lst):
    return "cons %d %s" % (len(lst), " ".join(lst)) if lst else "cons 0"


def vec(dim, pairs):
    v = [0] * dim
    for i, a in pairs:
        v[i] += a
    return v


class Gen:
    def __init__(self, seed):
        self.r = random.Random(seed)

    # ---- building blocks over (x', x) with dim = 2n ----
    def guard_rows(self, n, dom, strict_ok):
        """constraints on x only (as rows over 2n variables, unprimed block)"""
        r = self.r
        rows = []
        k = r.choice([1, 1, 2, 2, 3])
        for _ in range(k):
            kind = ">" if (strict_ok and r.random() < 0.3) else ">="
            if dom == "BOX" or n == 1 or r.random() < 0.5:
                i = r.randrange(n); s = r.choice([1, 1, -1])
                rows.append((kind, r.randint(3, 9) if s < 0 else r.randint(-4, 2), [(n + i, s)]))
            elif dom == "BDS":
                i, j = r.sample(range(n), 2)
                rows.append((kind, r.randint(-3, 4), [(n + i, 1), (n + j, -1)]))
            elif dom == "OCT":
                i, j = r.sample(range(n), 2)
                rows.append((kind, r.randint(-3, 4), [(n + i, r.choice([1, -1])), (n + j, r.choice([1, -1]))]))
            else:
                rows.append((kind, r.randint(-4, 4), [(n + i, r.randint(-2, 3)) for i in range(n)]))
        return rows

    def update_rows(self, n, dom, flavour):
        """constraints linking x' and x.  flavour: 'dec' | 'inc' | 'id' | 'rand'"""
        r = self.r
        rows = []
        for i in range(n):
            if dom == "BOX":
                # a box cannot relate x' to x: bound x' instead
                lo = r.randint(-6, 0)
                rows.append((">=", -lo, [(i, 1)]))
                if flavour != "inc" or r.random() < 0.5:
                    rows.append((">=", lo + r.randint(0, 2), [(i, -1)]))
                continue
            step = {"dec": -r.randint(1, 3), "inc": r.randint(1, 2), "id": 0, "rand": r.randint(-2, 2)}[flavour]
            if flavour == "dec" and i > 0 and r.random() < 0.5:
                step = r.randint(-1, 1)
            how = r.choice(["eq", "le", "ge", "band"]) if dom in ("C", "NNC") or True else "eq"
            # x'_i - x_i - step (=|<=|>=) 0
            if dom in ("C", "NNC") and n > 1 and r.random() < 0.25:
                j = r.randrange(n)
                base = [(i, 1), (n + i, -1), (n + j, -r.choice([0, 1]))]
            else:
                base = [(i, 1), (n + i, -1)]
            neg = [(v, -a) for v, a in base]
            if how == "eq":
                rows.append(("=", -step, base))
            elif how == "le":
                rows.append((">=", step, neg))            # x' <= x + step
            elif how == "ge":
                rows.append((">=", -step, base))          # x' >= x + step
            else:
                rows.append((">=", step + r.randint(0, 1), neg)); rows.append((">=", -step + r.randint(0, 1), base))
        return rows

    def soup(self, dim, dom, n, strict_ok):
        r = self.r
        rows = []
        for _ in range(r.randint(1, 5)):
            kind = r.choice(["=", ">=", ">=", ">=", ">"]) if strict_ok else r.choice(["=", ">=", ">=", ">="])
            if dom == "BOX":
                rows.append((kind, r.randint(-4, 4), [(r.randrange(dim), r.choice([1, -1]))]))
            elif dom == "BDS":
                if dim > 1 and r.random() < 0.7:
                    i, j = r.sample(range(dim), 2); rows.append((kind, r.randint(-4, 4), [(i, 1), (j, -1)]))
                else:
                    rows.append((kind, r.randint(-4, 4), [(r.randrange(dim), r.choice([1, -1]))]))
            elif dom == "OCT":
                if dim > 1 and r.random() < 0.7:
                    i, j = r.sample(range(dim), 2); rows.append((kind, r.randint(-4, 4), [(i, r.choice([1, -1])), (j, r.choice([1, -1]))]))
                else:
                    rows.append((kind, r.randint(-4, 4), [(r.randrange(dim), r.choice([1, -1]))]))
            else:
                rows.append((kind, r.randint(-4, 4), [(i, r.randint(-2, 2)) for i in range(dim)]))
        return rows

    def fmt(self, rows, dim):
        return cons([con(k, b, vec(dim, ps)) for (k, b, ps) in rows])

    def one_case(self, cid, dom=None, mode=None, n=None, family=None):
        r = self.r
        dom = dom or r.choice(DOMS)
        mode = mode or r.choice(["one", "one", "two"])
        n = n or r.choice([1, 1, 2])
        strict_ok = dom in ("NNC", "BOX")
        family = family or r.choice(["dec"] * 8 + ["loose"] * 3 + ["inc", "id", "rand", "rand", "soup", "soup", "soup", "unbounded", "empty", "emptyobj", "universe"])
        dim = 2 * n
        if family == "emptyobj":
            if mode == "one":
                return "case %s %s one %d empty" % (cid, dom, n)
            which = r.choice([0, 1, 2])
            # guard rows are expressed over 2n variables: re-express over n for "before"
            b = "empty" if which in (0, 2) else \
                self.fmt([(k, c, [(v - n, a_) for v, a_ in ps]) for (k, c, ps) in self.guard_rows(n, dom, strict_ok)], n)
            a = "empty" if which in (1, 2) else self.fmt(self.update_rows(n, dom, "dec"), dim)
            return "case %s %s two %d %s %s" % (cid, dom, n, b, a)
        if family == "universe":
            g, u = [], []
        elif family == "soup":
            g, u = [], self.soup(dim, dom, n, strict_ok)
        elif family == "empty":
            g = self.guard_rows(n, dom, strict_ok)
            i = r.randrange(n)
            g += [(">=", -3, [(n + i, 1)]), (">=", 1, [(n + i, -1)])]       # x_i >= 3 and x_i <= 1
            u = self.update_rows(n, dom, "dec")
        elif family == "unbounded":
            g = []
            u = self.update_rows(n, dom, r.choice(["dec", "rand"]))
        else:
            g = self.guard_rows(n, dom, strict_ok)
            u = self.update_rows(n, dom, "dec" if family == "loose" else family)
        if mode == "one":
            return "case %s %s one %d %s" % (cid, dom, n, self.fmt(g + u, dim))
        # two: before over n variables; after over 2n
        gb = [(k, c, [(v - n, a_) for v, a_ in ps]) for (k, c, ps) in g]
        if family == "soup":
            gb = self.soup(n, dom, n, strict_ok) if r.random() < 0.6 else []
            return "case %s %s two %d %s %s" % (cid, dom, n, self.fmt(gb, n), self.fmt(u, dim))
        if family == "loose":
            # part (or all) of the guard is given only in "after"
            keep = [x for x in gb if r.random() < 0.4]
            return "case %s %s two %d %s %s" % (cid, dom, n, self.fmt(keep, n), self.fmt(g + u, dim))
        after = u + (g if r.random() < 0.4 else [])
        return "case %s %s two %d %s %s" % (cid, dom, n, self.fmt(gb, n), self.fmt(after, dim))


def make_cases(seed, count, start=0):
    g = Gen(seed)
    out = []
    # a deterministic sweep over domain x mode first, then random
    k = 0
    for dom in DOMS:
        for mode in ("one", "two"):
            for fam in ("dec", "inc", "soup", "emptyobj"):
                if k < count:
                    out.append(g.one_case("g%d" % (start + k), dom=dom, mode=mode, family=fam)); k += 1
    while k < count:
        out.append(g.one_case("g%d" % (start + k))); k += 1
    return out


if __name__ == "__main__":
    import sys
    for l in make_cases(int(sys.argv[1]) if len(sys.argv) > 1 else 1, int(sys.argv[2]) if len(sys.argv) > 2 else 20):
        print(l)
