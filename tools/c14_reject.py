"""C14(a): run the generated ill-formed calls on the real library (harness/run_reject.cc), ask the extracted model
(ocaml/judge_except.ml) for the expected outcome of every call, and let the verified polyhedron judge (ocaml/judge_poly.ml)
decide that every object is unchanged after every rejected call and that the follow-up operation gives the exact result."""
import os, shutil
import common, polyrun, gen_reject


def run(chk, exe, judge_poly, judge_except, seed, ncases, per_case):
    if ncases <= 0:
        return {"calls": 0, "rejected": 0, "accepted": 0, "mismatch": [], "crashes": [], "by_op": {}, "by_class": {}, "judge_fails": [], "undecided": 0,
                "generator_emptiness_mismatch": 0, "followups": 0, "stat": {}, "variants": set()}
    work = os.path.join(common.BUILD, "work-C14-rej-%d" % os.getpid())
    shutil.rmtree(work, ignore_errors=True); os.makedirs(work)
    rc, out = common.sh([exe, "maxdim"])
    maxdim = int(out.split()[0])
    lines, meta = gen_reject.make_cases(seed, ncases, per_case)
    cases = polyrun.split_cases(lines)
    kept, obs, crashes = polyrun.run_harness(exe, cases, work, "rej")
    res = {"calls": 0, "rejected": 0, "accepted": 0, "mismatch": [], "crashes": crashes, "by_op": {}, "by_class": {}, "judge_fails": [], "undecided": 0,
           "generator_emptiness_mismatch": 0, "followups": 0, "stat": {}, "variants": set()}
    # ---- walk case lines and observation lines together ----
    obs_lines = obs.split("\n"); oi = 0
    reqs = []          # model requests
    actual = {}        # tag -> actual outcome
    info = {}          # tag -> description
    jcase, jobs = [], []   # the view given to the polyhedron judge
    def take():
        nonlocal oi
        l = obs_lines[oi]; oi += 1
        return l
    for c in kept:
        shown = {}        # object id -> state line last shown to the judge (textually identical lines need no second verification)
        cid = c[0].split(" ")[1]
        m = meta[cid]; mi = 0
        empty = m["empty"]
        first_empty_obs = True
        for l in c:
            t = l.split(" ")
            if t[0] == "case" or t[0] == "end":
                jcase.append(l); jobs.append(take())
            elif t[0] in ("new", "copy", "op"):
                jcase.append(l)
                r = take(); jobs.append(r)
                if r.startswith("res ok") or t[0] == "op":
                    nxt = take(); jobs.append(nxt)
                    if nxt.startswith("ret ") or nxt.startswith("tok "): jobs.append(take())
                if t[0] == "op": res["followups"] += 1
            elif t[0] == "obs":
                o = take()
                if t[2] == "is_empty":
                    v = o.split(" ")
                    if len(v) >= 3 and v[1] == "b":
                        lib_empty = (v[2] == "1")
                        if first_empty_obs and lib_empty != empty: res["generator_emptiness_mismatch"] += 1
                        first_empty_obs = False
                        empty = lib_empty
                    # not shown to the polyhedron judge (is_empty forces minimisation but the value is what matters)
                else:
                    jcase.append(l); jobs.append(o)
            elif t[0] == "stall":
                jcase.append(l)
                while True:
                    o = take(); jobs.append(o)
                    if o == "endst": break
            elif t[0] == "xop":
                d = m["calls"][mi]; mi += 1
                xr = take()
                sts = []
                while True:
                    o = take()
                    if o == "endst": break
                    sts.append(o)
                tag = "%s.%d" % (cid, mi)
                shape = d["shape"]
                while "@MAXM" in shape:
                    a = shape.index("@MAXM"); b = a + 5
                    while b < len(shape) and (shape[b].isdigit() or shape[b] == "-"): b += 1
                    shape = shape[:a] + str(maxdim - int(shape[a + 5:b])) + shape[b:]
                reqs.append("shape %s %d %s %d %d %s" % (tag, maxdim, d["topo"], d["dim"], 1 if empty else 0, shape))
                act = "none" if xr.startswith("xres ok") else xr.split(" ")[2]
                actual[tag] = act
                info[tag] = dict(d); info[tag]["case"] = c; info[tag]["empty"] = empty
                if act == "none":
                    # accepted: the receiver may have changed; the judge takes over the implementation's description
                    if d["name"].startswith("ctor_"):
                        st9 = [s for s in sts if s.startswith("st 9 ")]
                        if st9:
                            jcase.append("new 9 C 0 xaccept"); jobs.append("res ok"); jobs.append(st9[0])
                    else:
                        st0 = [s for s in sts if s.startswith("st 0 ")]
                        jcase.append("op 0 xaccept"); jobs.append("res ok"); jobs.append(st0[0])
                        if d["name"] == "binary:swap":
                            pass
                else:
                    # rejected: every object of the pool must be unchanged (verified equivalence + OK())
                    fresh = [x for x in sts if shown.get(x.split(" ")[1]) != x]
                    res.setdefault("unchanged_textually", 0); res["unchanged_textually"] += len(sts) - len(fresh)
                    for x in fresh: shown[x.split(" ")[1]] = x
                    jcase.append("stall"); jobs += fresh + ["endst"]
    # ---- the model's expectations ----
    rf = os.path.join(work, "shapes.req")
    with open(rf, "w") as f: f.write("\n".join(reqs) + "\n")
    rc, mout = common.sh([judge_except, rf], timeout=600)
    expected = {}
    for l in mout.split("\n"):
        t = l.split(" ")
        if len(t) >= 2: expected[t[0]] = " ".join(t[1:])
    for tag, act in actual.items():
        exp = expected.get(tag, "MISSING")
        d = info[tag]
        res["calls"] += 1
        res["by_op"][d["name"]] = res["by_op"].get(d["name"], 0) + 1
        res["by_class"][exp] = res["by_class"].get(exp, 0) + 1
        res["variants"].add((d["name"], exp, d["kind"], d["lazy"]))
        if act == "none": res["accepted"] += 1
        else: res["rejected"] += 1
        if exp != act:
            res["mismatch"].append({"tag": tag, "op": d["name"], "line": d["line"], "expected": exp, "actual": act, "receiver": "%s %d empty=%s %s/%s" % (d["topo"], d["dim"], d["empty"], d["kind"], d["lazy"]),
                                    "shape": d["shape"], "case": d["case"]})
    # ---- the verified judge on the transformed view ----
    kept_view = polyrun.split_cases(jcase)
    fails, stat, cov = polyrun.run_judge(judge_poly, kept_view, "\n".join(jobs) + "\n", work, "rejview")
    res["stat"] = stat
    for f in fails:
        if f.verdict == "UNDECIDED": res["undecided"] += 1
        else: res["judge_fails"].append(f)
    shutil.rmtree(work, ignore_errors=True)
    return res
