#!/bin/sh
# usage: coqshow.sh File.v LINE  -- replaces line LINE by "Show. admit." and compiles a scratch copy
f=$1; n=$2
sed "${n}s/.*/  Show. admit./" $f > /tmp/D_$$.v
coqc -Q /verif/coq PPLV /tmp/D_$$.v 2>&1 | head -${3:-60}
rm -f /tmp/D_$$.* /tmp/.D_$$.aux
