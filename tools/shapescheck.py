"""Shared driver of C03 / C04: builds the Coq development, the extracted judge and the C++ harness, runs generated
cases through both and turns the judge's verdicts into evidence / failures."""
import os, re, json, shutil, collections
import common, polyrun, gen_shapes

SHAPES_COQ = ["Base/FM.v", "Base/Sys.v", "Base/Gens.v", "Poly/PolyOps.v", "Base/Sup.v", "Poly/PolyQuery.v",
              "Shapes/ExtNum.v", "Shapes/DBM.v", "Shapes/DBMSound.v", "Shapes/DBMExact.v", "Shapes/DBMClosed.v", "Shapes/DBMDisjoint.v",
              "Shapes/Templ.v", "Shapes/ToSys.v", "Shapes/Oct.v", "Shapes/OctBridge.v"]

TRUSTED = [
    "Coq 8.16.1 kernel (coqc); vm_compute in the refutation witnesses and the non-vacuity Examples; no native_compute",
    "axioms: none (every property theorem prints 'Closed under the global context')",
    "extraction: Require Extraction + ExtrOcamlBasic only; Z, positive, nat, Q stay the extracted inductive types; OCaml 4.13.1 ocamlopt",
    "hand-written, unverified glue: harness/run_shapes.cc + vh_common.hh (case interpreter, exact printing of the private matrices / intervals), "
    "ocaml/judge_shapes.ml + zutil_shapes.ml (parsing, dispatch, choice of the reference operator, expressibility criterion, affine-dimension and "
    "time-elapse / fold / lhs-image reference assembled from verified elimination steps), tools/gen_shapes.py, tools/polyrun.py; g++ 12.2, GMP",
    "the hand-written Gallina model of the BD_Shape / Octagonal_Shape loops (Shapes/DBM.v, Shapes/Oct.v) is tied to the C++ by comparing, entry by entry, "
    "the model's closure with the implementation's private matrix on every 'closure' step; the C++ itself is not translated",
]


def build(chk):
    common.coq_extract("Extract_shapes.v", ["shapes.ml", "shapes.mli"], deps=SHAPES_COQ + ["Extract/Extract_shapes.v"])
    zs = os.path.join(common.VERIF, "ocaml", "zutil_shapes.ml")
    want = open(os.path.join(common.VERIF, "ocaml", "zutil.ml")).read().replace("open Base", "open Shapes")
    if not os.path.exists(zs) or open(zs).read() != want:
        with open(zs, "w") as f: f.write(want)
    judge = common.ocaml_build("judge_shapes", ["gen/shapes.mli", "gen/shapes.ml", "zutil_shapes.ml", "judge_shapes.ml"])
    # the harness executable is kept under build/shapes-bin keyed by the content of the library tree and of the
    # three harness sources it includes (common.compile_harness keys on every harness/*.hh, and other checks running
    # on scratch trees may evict the library cache while this check runs)
    import hashlib
    h = hashlib.sha256()
    for f in ("run_shapes.cc", "vh_common.hh", "vh_ppl.hh"):
        h.update(open(os.path.join(common.VERIF, "harness", f), "rb").read())
    key = h.hexdigest()[:12] + "-" + common.tree_hash("mpzH")
    keep = os.path.join(common.BUILD, "shapes-bin")
    os.makedirs(keep, exist_ok=True)
    dst = os.path.join(keep, "run_shapes-" + key)
    if not os.path.exists(dst):
        exe = common.compile_harness("run_shapes.cc")
        shutil.copy(exe, dst + ".tmp%d" % os.getpid()); os.rename(dst + ".tmp%d" % os.getpid(), dst)
        olds = sorted((o for o in os.listdir(keep) if o != os.path.basename(dst)), key=lambda o: os.path.getmtime(os.path.join(keep, o)), reverse=True)
        for o in olds[4:]:
            try: os.remove(os.path.join(keep, o))
            except OSError: pass
    return dst, judge


def run_judge(judge, kept, obs_text, workdir, tag, prop, timeout=3000):
    cf = os.path.join(workdir, tag + ".kept.case")
    of = os.path.join(workdir, tag + ".obs")
    with open(cf, "w") as f:
        for c in kept: f.write("\n".join(c) + "\n")
    with open(of, "w") as f: f.write(obs_text)
    rc, out = common.sh([judge, cf, of, prop], timeout=timeout)
    res, stat, cov = [], {}, {}
    for l in out.split("\n"):
        if l.startswith("FAIL ") or l.startswith("UNDECIDED "):
            head, *rest = l.split(" | ")
            h = head.split(" ")
            res.append(polyrun.Finding(h[0], h[1], int(h[2]), h[3], rest[0] if rest else "", rest[1] if len(rest) > 1 else ""))
        elif l.startswith("STAT "):
            t = l.split(" ")
            stat = {t[i]: int(t[i + 1]) for i in range(1, len(t) - 1, 2)}
        elif l.startswith("COV "):
            t = l.split(" ")
            cov[t[1]] = int(t[2])
    if rc != 0 or not stat:
        raise RuntimeError("judge failed (rc=%s): %s" % (rc, out[-1500:]))
    return res, stat, cov


def kind_of_object(case, oid):
    for l in case:
        t = l.split(" ")
        if t[0] == "new" and t[1] == oid: return t[2]
    for l in case:
        t = l.split(" ")
        if t[0] == "copy" and t[1] == oid: return kind_of_object(case, t[2])
    return "?"


def describe(f, case):
    """structured description of a failure: site (operation), object kind / family / carrier, which check failed, and the
    structural condition tags used by the known-finding predicates"""
    t = f.line.split(" ")
    detail, _, tg = f.detail.partition(" tags:")
    info = {"check": f.kind, "detail": detail}
    for kv in tg.split():
        if "=" in kv:
            k, v = kv.split("=", 1); info[k] = v
    if t[0] in ("op", "qry"):
        info["site"] = t[2]; k = kind_of_object(case, t[1])
    elif t[0] == "new":
        info["site"] = "new:" + t[4]; k = t[2]
        if t[4] == "from":
            info["source"] = kind_of_object(case, t[5]); info["complexity"] = t[6]
    elif t[0] == "copy":
        info["site"] = "copy"; k = kind_of_object(case, t[2])
    else:
        info["site"] = t[0]; k = "?"
    info["kind"] = k
    info["family"] = k[:3]
    info["carrier"] = k.split("_")[1] if "_" in k else ""
    # condition tags
    if t[0] == "op" and t[2] in ("generalized_affine_preimage", "generalized_affine_image", "affine_image", "affine_preimage"):
        try:
            if t[2].startswith("generalized"):
                v = int(t[3]); rel = t[4]; den = int(t[5]); n = int(t[6]); co = list(map(int, t[8:8 + n]))
                info["relsym"] = rel
            else:
                v = int(t[3]); den = int(t[4]); n = int(t[5]); co = list(map(int, t[7:7 + n]))
            b = int(t[7] if t[2].startswith("generalized") else t[6])
            info["var_in_expr"] = (v < len(co) and co[v] != 0)
            info["expr_inhomogeneous_nonzero"] = (b != 0)
            info["expr_vars"] = sum(1 for a in co if a != 0)
            info["den_negative"] = den < 0
        except Exception:
            pass
    return info


def run_cases(chk, prop, cases_lines, tag, owner):
    exe, judge = build(chk)
    chk.log("built harness and judge")
    work = os.path.join(common.BUILD, "work-%s-%d" % (chk.pid, os.getpid()))
    shutil.rmtree(work, ignore_errors=True)
    cases = polyrun.split_cases(cases_lines)
    import time
    t0 = time.time()
    kept, obs, crashes = polyrun.run_harness(exe, cases, work, tag)
    t1 = time.time()
    res, stat, cov = run_judge(judge, kept, obs, work, tag, prop)
    chk.log("harness %.1fs (%d cases, %d crashes), judge %.1fs" % (t1 - t0, len(cases), len(crashes), time.time() - t1))
    byid = polyrun.case_by_id(cases)
    out = {"stat": stat, "cov": cov, "fails": [], "undecided": 0, "crashes": crashes, "other": 0}
    for f in res:
        if f.verdict == "UNDECIDED":
            if owner(f.kind): out["undecided"] += 1
            continue
        if not owner(f.kind):
            out["other"] += 1
            continue
        out["fails"].append(f)
    shutil.rmtree(work, ignore_errors=True)
    return out, byid


def corpus_cases(pid):
    cdir = os.path.join(common.VERIF, "corpus", pid)
    lines = []
    if os.path.isdir(cdir):
        for f in sorted(os.listdir(cdir)):
            if f.endswith(".case"):
                lines += [l for l in open(os.path.join(cdir, f)).read().split("\n") if l.strip()]
    return lines


def account(chk, out, byid, theorem):
    stat, cov = out["stat"], out["cov"]
    chk.evaluations += stat.get("steps", 0)
    chk.undecided += out["undecided"]
    chk.extra["operation_histogram"] = {k[3:]: v for k, v in sorted(cov.items()) if k.startswith("op:")}
    chk.extra["query_histogram"] = {k[4:]: v for k, v in sorted(cov.items()) if k.startswith("qry:")}
    chk.extra["constructor_histogram"] = {k[4:]: v for k, v in sorted(cov.items()) if k.startswith("new:")}
    chk.extra["unmodelled"] = {k[11:]: v for k, v in sorted(cov.items()) if k.startswith("unmodelled:")}
    chk.extra["exceptions_on_calls"] = {k: v for k, v in sorted(cov.items()) if "-exn:" in k}
    kinds = collections.Counter()
    for k, v in cov.items():
        if k.startswith("opk:"): kinds[k.split(":")[1]] += v
    chk.extra["operations_per_kind"] = dict(sorted(kinds.items()))
    chk.extra["status_vectors_reached"] = len([k for k in cov if k.startswith("flags:")])
    chk.extra["closure_model_comparisons"] = {k: v for k, v in cov.items() if k.startswith("closure-model:")}
    chk.extra["cases"] = stat.get("cases", 0)
    chk.extra["verified_checks"] = stat.get("checks", 0)
    chk.extra["judge_timeouts"] = stat.get("timeouts", 0)
    seen = set()
    for c in byid.values():
        kinds_in = {}
        for l in c:
            t = l.split(" ")
            if t[0] == "new": kinds_in[t[1]] = t[2]
            if t[0] == "copy": kinds_in[t[1]] = kinds_in.get(t[2], "?")
            if t[0] in ("op", "qry"): seen.add(kinds_in.get(t[1], "?") + " " + l.split(" ", 2)[2])
    for s in seen: chk.nontrivial.add(s)
    for c in list(byid.values())[:3]:
        chk.samples.append(" ; ".join(c[:7]))
    census = collections.Counter()
    for f in out["fails"]:
        case = byid.get(f.case, [])
        info = describe(f, case)
        census[(info.get("site"), info.get("kind"), info.get("check"))] += 1
        chk.failure(info, {"case": case, "step": f.step, "line": f.line, "judge": f.detail, "theorem": theorem,
                           "replay_cmd": "./check %s --replay <this file>" % chk.pid})
    for (case, line, how) in out["crashes"]:
        t = line.split(" ")
        info = {"site": t[2] if len(t) > 2 else "?", "check": "crash", "detail": how, "kind": kind_of_object(case, t[1]) if len(t) > 1 else "?"}
        info["family"] = info["kind"][:3]
        chk.failure(info, {"case": case, "line": line, "how": how})
    if os.environ.get("VERIF_CENSUS"):
        for k, v in census.most_common():
            print("CENSUS %4d  %s" % (v, k))
    if stat.get("checks", 0) and chk.undecided * 50 > stat["checks"]:
        chk.broken.append(("too-many-undecided", "%d of %d checks undecided" % (chk.undecided, stat["checks"])))
