"""Generator of histories in the shapes case language (harness/run_shapes.cc, ocaml/judge_shapes.ml).
Every random choice derives from one random.Random(seed).  The generator tracks only kind and dimension
of each object (to keep calls well-formed); values are the library's and the reference's business.

Constants are drawn per carrier so that bounds sit at the limits of the type:
  q : small integers with denominators 1,2,3;   z : integers (rounding of halves / thirds);
  i8: the finite range of Checked int8 is about +-126: constants 120..127, sums that overflow;
  d : thirds / tenths (inexact in binary), 2^53 +- 1, 1e300 (sums overflow to +inf), 2^-1074 (denormal)."""
import random

MAIN = {"bds": ["bds_q", "bds_z", "bds_i8", "bds_d"], "oct": ["oct_q", "oct_z", "oct_i8", "oct_d"],
        "box": ["box_q", "box_z", "box_i8", "box_d"]}
ALL_MAIN = MAIN["bds"] + MAIN["oct"] + MAIN["box"]

MUTATORS = ["add_constraint", "add_constraints", "refine_with_constraint", "refine_with_constraints",
            "intersection_assign", "upper_bound_assign", "difference_assign", "concatenate_assign", "time_elapse_assign",
            "affine_image", "affine_preimage", "generalized_affine_image", "generalized_affine_preimage",
            "generalized_affine_image_lhs", "generalized_affine_preimage_lhs",
            "bounded_affine_image", "bounded_affine_preimage", "unconstrain", "unconstrain_set",
            "add_space_dimensions_and_embed", "add_space_dimensions_and_project", "remove_space_dimensions",
            "remove_higher_space_dimensions", "map_space_dimensions", "expand_space_dimension", "fold_space_dimensions",
            "topological_closure_assign", "upper_bound_assign_if_exact", "add_congruence", "refine_with_congruence",
            "simplify_using_context_assign",
            "closure", "reduction", "incremental_closure", "obs_constraints", "obs_minimized_constraints", "obs_is_empty", "assign"]
QUERIES = ["is_empty", "is_universe", "is_bounded", "contains", "strictly_contains", "is_disjoint_from", "equals",
           "relation_with_con", "relation_with_gen", "bounds_from_above", "bounds_from_below", "maximize", "minimize",
           "maximize_nw", "affine_dimension", "constrains", "is_topologically_closed", "is_discrete"]


def fam(kind): return kind[:3]
def car(kind): return kind.split("_")[1] if "_" in kind else ""


class G:
    def __init__(self, seed, maxdim=3):
        self.r = random.Random(seed)
        self.maxdim = maxdim

    # ---- numbers: (numerator b, positive denominator a) meaning the bound b/a ----
    def bound(self, c):
        r = self.r
        u = r.random()
        if c == "i8":
            if u < 0.45: return (r.choice([-1, 1]) * r.choice([120, 124, 125, 126, 127, 128, 130, 63, 64, 100]), 1)
            if u < 0.6: return (r.choice([-1, 1]) * r.choice([251, 253, 255, 3, 1, 7]), 2)
            return (r.randint(-6, 6), r.choice([1, 1, 2, 3]))
        if c == "d":
            if u < 0.15: return (r.choice([-1, 1]) * (2 ** 53 + r.choice([-1, 1, 3])), 1)
            if u < 0.25: return (r.choice([-1, 1]) * 10 ** 300 * r.randint(1, 17), 1)
            if u < 0.32: return (r.choice([-1, 1]) * r.randint(1, 5), 2 ** 1074)
            if u < 0.40: return (r.choice([-1, 1]) * (2 ** 1024 - 2 ** 970), r.choice([1, 3]))
            if u < 0.75: return (r.randint(-9, 9), r.choice([3, 7, 10, 3, 5]))
            return (r.randint(-6, 6), 1)
        if c == "z":
            return (r.randint(-9, 9), r.choice([1, 1, 2, 3, 2]))
        return (r.randint(-6, 6), r.choice([1, 1, 1, 2, 3]))

    def small(self, lo=-3, hi=3):
        return self.r.randint(lo, hi)

    # constraint  sum coef_i x_i <= b/a   printed as  ">= b  -a*coef_0 ..."  (kind may become = or >)
    def con_from(self, n, terms, c, allow_eq=True, allow_strict=False):
        r = self.r
        b, a = self.bound(c)
        v = [0] * n
        for (i, s) in terms: v[i] += s
        u = r.random()
        kind = "=" if (u < 0.12 and allow_eq) else (">" if (u < 0.22 and allow_strict) else ">=")
        return "%s %d %s" % (kind, b, " ".join(str(-a * x) for x in v)) if n else "%s %d" % (kind, b)

    def shaped_terms(self, f, n):
        """terms of a constraint expressible in family f"""
        r = self.r
        if n == 0: return []
        i = r.randrange(n)
        if f == "box" or n == 1 or r.random() < 0.4:
            return [(i, r.choice([-1, 1]))]
        j = r.choice([k for k in range(n) if k != i])
        if f == "bds":
            return [(i, 1), (j, -1)]
        return [(i, r.choice([-1, 1])), (j, r.choice([-1, 1]))]

    def con(self, kind, n, shaped=True):
        f, c = fam(kind), car(kind)
        if shaped:
            return self.con_from(n, self.shaped_terms(f, n), c, allow_strict=(kind == "box_q" or kind == "box_d"))
        # arbitrary constraint (refine / relation / sources)
        terms = [(i, self.small()) for i in range(n) if self.r.random() < 0.7]
        return self.con_from(n, terms, c if self.r.random() < 0.5 else "q", allow_strict=True)

    def cons(self, kind, n, lo=1, hi=4, shaped=True):
        k = self.r.randint(lo, hi)
        return "%d %s" % (k, " ".join(self.con(kind, n, shaped) for _ in range(k)))

    def gen(self, n, kind=None):
        r = self.r
        if kind is None: kind = r.choice("pppprrl")
        if kind == "p":
            return "p %d %s" % (r.choice([1, 1, 2, 3]), " ".join(str(self.small(-5, 5)) for _ in range(n))) if n else "p 1"
        if n == 0: return "p 1"
        while True:
            v = [0 if r.random() < 0.4 else self.small() for _ in range(n)]
            if any(v): break
        return "%s 1 %s" % (kind, " ".join(map(str, v)))

    def gens(self, n, lo=1, hi=4):
        k = self.r.randint(lo, hi)
        gs = [self.gen(n, "p")] + [self.gen(n) for _ in range(k - 1)]
        self.r.shuffle(gs)
        return "%d %s" % (k, " ".join(gs))

    def expr(self, n, kind=None, v=None):
        """linear expression; for an expressible transfer relation in the family: unit coefficient on one variable"""
        r = self.r
        co = [0] * n
        den = r.choice([1, 1, 1, 2, 3, -1, -2])
        u = r.random()
        if n and u < 0.45 and kind:
            f = fam(kind)
            w = v if (f == "box" and v is not None) else r.randrange(n)
            co[w] = den if f != "oct" else den * r.choice([1, -1])
        elif n and u < 0.60:
            pass  # constant
        elif n:
            co = [0 if r.random() < 0.35 else self.small() for _ in range(n)]
        b = self.small(-4, 4) * r.choice([1, 1, 1, 1, 40])
        return den, "%d %d %s" % (n, b, " ".join(map(str, co))) if n else "0 %d" % b

    def cg(self, n):
        r = self.r
        m = 0 if r.random() < 0.8 else r.choice([1, 2, 3])
        v = [0 if r.random() < 0.5 else self.small() for _ in range(n)]
        return "%d %d %s" % (m, self.small(-4, 4), " ".join(map(str, v))) if n else "%d %d" % (m, self.small(-4, 4))

    # ---- objects ----
    def new_main(self, oid, kind, n, objs, how=None):
        r = self.r
        u = r.random()
        if how is None:
            how = "universe" if u < 0.06 else "empty" if u < 0.10 else "gens" if u < 0.22 else "cons"
        if how in ("universe", "empty"): s = "new %d %s %d %s" % (oid, kind, n, how)
        elif how == "gens": s = "new %d %s %d gens %s" % (oid, kind, n, self.gens(n))
        else: s = "new %d %s %d cons %s" % (oid, kind, n, self.cons(kind, n))
        objs[oid] = (kind, n)
        return s

    def new_source(self, oid, n, objs):
        """an object of another kind to convert from"""
        r = self.r
        sk = r.choice(["cpoly", "cpoly", "nncpoly", "nncpoly", "grid", "gens"] + ALL_MAIN)
        if sk in ("cpoly", "nncpoly"):
            if r.random() < 0.7:
                k = r.randint(1, 4)
                cs = []
                for _ in range(k):
                    terms = [(i, self.small()) for i in range(n) if r.random() < 0.7]
                    cs.append(self.con_from(n, terms, r.choice(["q", "z", "i8"]), allow_strict=(sk == "nncpoly")))
                s = "new %d %s %d cons %d %s" % (oid, sk, n, k, " ".join(cs))
            else:
                s = "new %d %s %d gens %s" % (oid, sk, n, self.gens(n))
        elif sk == "grid":
            k = r.randint(1, 3)
            s = "new %d grid %d cgs %d %s" % (oid, n, k, " ".join(self.cg(n) for _ in range(k)))
        elif sk == "gens":
            s = "new %d gens %d gens %s" % (oid, n, self.gens(n))
        else:
            s = "new %d %s %d cons %s" % (oid, sk, n, self.cons(sk, n))
        objs[oid] = (sk, n)
        return s

    def mutator(self, x, objs, ops=None):
        r = self.r
        kind, n = objs[x]
        f = fam(kind)
        same = [y for y in objs if objs[y] == (kind, n)]
        cands = list(ops or MUTATORS)
        if n == 0:
            cands = [c for c in cands if c in ("add_constraint", "intersection_assign", "upper_bound_assign", "difference_assign",
                                                "add_space_dimensions_and_embed", "add_space_dimensions_and_project", "concatenate_assign",
                                                "closure", "obs_constraints", "upper_bound_assign_if_exact", "time_elapse_assign")] or ["obs_constraints"]
        op = r.choice(cands)
        p = "op %d %s" % (x, op)
        if op == "add_constraint": return "%s %s" % (p, self.con(kind, n, shaped=(r.random() < 0.9)))
        if op == "refine_with_constraint": return "%s %s" % (p, self.con(kind, n, shaped=(r.random() < 0.5)))
        if op == "add_constraints": return "%s %s" % (p, self.cons(kind, n, 1, 3))
        if op == "refine_with_constraints": return "%s %s" % (p, self.cons(kind, n, 1, 3, shaped=(r.random() < 0.5)))
        if op in ("add_congruence", "refine_with_congruence"): return "%s %s" % (p, self.cg(n))
        if op in ("intersection_assign", "upper_bound_assign", "difference_assign", "time_elapse_assign", "upper_bound_assign_if_exact", "assign", "simplify_using_context_assign"):
            return "%s %d" % (p, r.choice(same))
        if op == "concatenate_assign":
            ys = [y for y in objs if objs[y][0] == kind and objs[y][1] + n <= self.maxdim + 1]
            if not ys: return "op %d obs_constraints" % x
            y = r.choice(ys); objs[x] = (kind, n + objs[y][1])
            return "%s %d" % (p, y)
        if op in ("topological_closure_assign", "closure", "reduction", "obs_constraints", "obs_minimized_constraints", "obs_is_empty"): return p
        if op == "incremental_closure":
            # closure, then one constraint involving variable v, then the incremental closure on v
            v = r.randrange(n)
            terms = [(v, r.choice([-1, 1]))]
            if f != "box" and n > 1 and r.random() < 0.7:
                w = r.choice([k for k in range(n) if k != v])
                terms = [(v, 1), (w, -1)] if f == "bds" else terms + [(w, r.choice([-1, 1]))]
                if f == "bds" and r.random() < 0.5: terms = [(v, -1), (w, 1)]
            return "%s %d %s" % (p, v, self.con_from(n, terms, car(kind), allow_eq=False))
        if op in ("affine_image", "affine_preimage"):
            v = r.randrange(n); den, e = self.expr(n, kind, v)
            return "%s %d %d %s" % (p, v, den, e)
        if op in ("generalized_affine_image", "generalized_affine_preimage"):
            v = r.randrange(n); den, e = self.expr(n, kind, v)
            rel = r.choice(["<=", ">=", "==", "<=", ">="] + (["<", ">"] if kind in ("box_q", "box_d") else []))
            return "%s %d %s %d %s" % (p, v, rel, den, e)
        if op in ("generalized_affine_image_lhs", "generalized_affine_preimage_lhs"):
            rel = r.choice(["<=", ">=", "=="])
            _, l = self.expr(n, kind if r.random() < 0.6 else None); _, e = self.expr(n, kind if r.random() < 0.5 else None)
            return "%s %s %s %s" % (p, l, rel, e)
        if op in ("bounded_affine_image", "bounded_affine_preimage"):
            v = r.randrange(n); den, lb = self.expr(n, kind, v); _, ub = self.expr(n, kind, v)
            return "%s %d %d %s %s" % (p, v, den, lb, ub)
        if op == "unconstrain": return "%s %d" % (p, r.randrange(n))
        if op == "unconstrain_set":
            vs = sorted(r.sample(range(n), r.randint(1, n)))
            return "%s %d %s" % (p, len(vs), " ".join(map(str, vs)))
        if op in ("add_space_dimensions_and_embed", "add_space_dimensions_and_project"):
            if n >= self.maxdim + 1: return "op %d obs_constraints" % x
            m = r.randint(1, min(2, self.maxdim + 1 - n)); objs[x] = (kind, n + m)
            return "%s %d" % (p, m)
        if op == "remove_space_dimensions":
            vs = sorted(r.sample(range(n), r.randint(1, n))); objs[x] = (kind, n - len(vs))
            return "%s %d %s" % (p, len(vs), " ".join(map(str, vs)))
        if op == "remove_higher_space_dimensions":
            k = r.randint(0, n); objs[x] = (kind, k)
            return "%s %d" % (p, k)
        if op == "map_space_dimensions":
            keep = [i for i in range(n) if r.random() < 0.75]
            tgt = list(range(len(keep))); r.shuffle(tgt)
            m = [-1] * n
            for i, j in zip(keep, tgt): m[i] = j
            objs[x] = (kind, len(keep))
            return "%s %d %s" % (p, n, " ".join(map(str, m)))
        if op == "expand_space_dimension":
            if n >= self.maxdim + 1: return "op %d unconstrain %d" % (x, r.randrange(n))
            objs[x] = (kind, n + 1)
            return "%s %d %d" % (p, r.randrange(n), 1)
        if op == "fold_space_dimensions":
            if n < 2: return "op %d unconstrain %d" % (x, r.randrange(n))
            d = r.randrange(n)
            vs = sorted(r.sample([i for i in range(n) if i != d], r.randint(1, min(2, n - 1)))); objs[x] = (kind, n - len(vs))
            return "%s %d %s %d" % (p, len(vs), " ".join(map(str, vs)), d)
        raise AssertionError(op)

    def query(self, x, objs, qs=None):
        r = self.r
        kind, n = objs[x]
        same = [y for y in objs if objs[y] == (kind, n)]
        q = r.choice(qs or QUERIES)
        if n == 0 and q in ("constrains",): q = "is_empty"
        p = "qry %d %s" % (x, q)
        if q in ("contains", "strictly_contains", "is_disjoint_from", "equals"): return "%s %d" % (p, r.choice(same))
        if q == "relation_with_con": return "%s %s" % (p, self.con(kind, n, shaped=(r.random() < 0.5)))
        if q == "relation_with_gen": return "%s %s" % (p, self.gen(n, "p"))
        if q in ("bounds_from_above", "bounds_from_below", "maximize", "minimize", "maximize_nw"):
            _, e = self.expr(n, kind if r.random() < 0.4 else None)
            return "%s %s" % (p, e)
        if q == "constrains": return "%s %d" % (p, r.randrange(n))
        return p

    # ---- histories ----
    def history(self, cid, kind, steps=6, ops=None, pq=0.3, nobj=2):
        r = self.r
        objs = {}
        n = r.randint(1, self.maxdim) if r.random() < 0.93 else 0
        lines = ["case %s" % cid]
        for o in range(nobj):
            lines.append(self.new_main(o, kind, n, objs))
        for _ in range(steps):
            mains = [o for o in objs if objs[o][0] == kind]
            x = r.choice(mains)
            u = r.random()
            if u < pq: lines.append(self.query(x, objs))
            elif u < pq + 0.05:
                o = len(objs); lines.append("copy %d %d" % (o, x)); objs[o] = objs[x]
            else: lines.append(self.mutator(x, objs, ops))
        lines += ["stall", "end"]
        return lines

    def ctor_case(self, cid, kind):
        """constructors from other domains at each complexity class"""
        r = self.r
        objs = {}
        n = r.randint(1, self.maxdim) if r.random() < 0.9 else 0
        lines = ["case %s" % cid, self.new_source(0, n, objs)]
        for i, cx in enumerate(["poly", "simplex", "any"]):
            lines.append("new %d %s %d from 0 %s" % (i + 1, kind, n, cx)); objs[i + 1] = (kind, n)
        x = r.choice([1, 2, 3])
        lines.append(self.query(x, objs, ["is_empty", "is_bounded", "maximize", "is_universe"]))
        lines += ["stall", "end"]
        return lines

    def edge_con(self, n, i, j, w):
        """V_j - V_i <= w over signed literals (var, sign)"""
        v = [0] * n
        v[j[0]] += j[1]; v[i[0]] -= i[1]
        if not any(v): return None
        return ">= %d %s" % (w, " ".join(str(-a) for a in v))

    def cycle_pair(self, cid, kind):
        """two shapes whose intersection is empty only through a cycle alternating between them (or just not: weight >= 0)"""
        r = self.r
        f = fam(kind)
        n = 3
        objs = {}
        if f == "bds":
            # nodes 0 (zero variable) .. 3; an edge i->j of weight w is  x_j - x_i <= w
            nodes = [0, 1, 2, 3]; r.shuffle(nodes)
            def con(i, j, w):
                v = [0] * n
                if j > 0: v[j - 1] += 1
                if i > 0: v[i - 1] -= 1
                return ">= %d %s" % (w, " ".join(str(-a) for a in v))
            k = 4
            es = [(nodes[t], nodes[(t + 1) % k]) for t in range(k)]
        else:
            lits = [(v, s) for v in range(n) for s in (1, -1)]
            while True:
                k = r.choice([3, 4, 4, 5, 6])
                ns = [r.choice(lits) for _ in range(k)]
                es = [(ns[t], ns[(t + 1) % k]) for t in range(k)]
                if all(self.edge_con(n, a, b, 0) for a, b in es): break
            def con(i, j, w): return self.edge_con(n, i, j, w)
        total = r.choice([-2, -1, -1, 0, 1])
        ws = [r.randint(-3, 3) for _ in es[:-1]]; ws.append(total - sum(ws))
        xs, ys = [], []
        for t, ((i, j), w) in enumerate(zip(es, ws)):
            (xs if t % 2 == 0 else ys).append(con(i, j, w))
        lines = ["case %s" % cid,
                 "new 0 %s %d cons %d %s" % (kind, n, len(xs), " ".join(xs)),
                 "new 1 %s %d cons %d %s" % (kind, n, len(ys), " ".join(ys)) if ys else "new 1 %s %d universe" % (kind, n)]
        objs[0] = objs[1] = (kind, n)
        lines += ["qry 0 is_disjoint_from 1", "qry 1 is_disjoint_from 0", "copy 2 0", "op 2 intersection_assign 1", "qry 2 is_empty",
                  "qry 0 contains 1", "op 0 upper_bound_assign_if_exact 1", "stall", "end"]
        return lines

    def chain_case(self, cid, kind):
        """x holds a bound only implicitly (through a chain of two constraints, matrix not closed); y bounds the same
        difference directly: upper bound / difference / comparisons must use the implied bound of x"""
        r = self.r
        f = fam(kind)
        n = 3
        a, b = r.randint(-3, 3), r.randint(-3, 3)
        c = a + b + r.choice([-2, -1, 0, 1, 2])
        if f == "box":
            xs = [">= %d -1 0 0" % a, ">= %d 0 -1 0" % b]; ys = [">= %d -1 0 0" % c]
        else:
            # x: A <= a, B - A <= b   (implies B <= a+b);   y: B <= c
            xs = [">= %d -1 0 0" % a, ">= %d 1 -1 0" % b]; ys = [">= %d 0 -1 0" % c]
            if r.random() < 0.5:
                # x: B - A <= a, C - B <= b (implies C - A <= a+b); y: C - A <= c
                xs = [">= %d 1 -1 0" % a, ">= %d 0 1 -1" % b]; ys = [">= %d 1 0 -1" % c]
        if r.random() < 0.5: ys.append(self.con(kind, n))
        lines = ["case %s" % cid,
                 "new 0 %s %d cons %d %s" % (kind, n, len(xs), " ".join(xs)),
                 "new 1 %s %d cons %d %s" % (kind, n, len(ys), " ".join(ys)),
                 "copy 2 0", "copy 3 1"]
        lines.append(r.choice(["op 0 upper_bound_assign 1", "op 1 upper_bound_assign 0", "op 0 difference_assign 1", "op 1 difference_assign 0",
                               "op 0 upper_bound_assign_if_exact 1", "op 0 intersection_assign 1"]))
        lines += ["qry 2 contains 3", "qry 3 contains 2", "qry 2 is_disjoint_from 3", "qry 2 equals 3", "qry 2 maximize 3 0 0 1 0",
                  "op 2 unconstrain 0", "op 3 remove_space_dimensions 1 0", "stall", "end"]
        return lines

    # ---- targeted cases (gaps found by seeded changes) ----
    def grid_con(self, n, terms, b, kind=">="):
        """sum coef_i x_i + b kind 0 with the given integer terms"""
        v = [0] * n
        for (i, c) in terms: v[i] += c
        return "%s %d %s" % (kind, b, " ".join(map(str, v)))

    def open_box_case(self, cid, kind):
        """boxes with independently open / closed ends on a small integer grid; constraints (interval and not) whose
        bounds touch the ends exactly: relation_with, refine / propagate with non-interval (in)equalities, difference,
        intersection, upper bound, Box(NNC polyhedron)"""
        r = self.r
        n = r.choice([1, 2, 2, 3])
        strict_ok = kind in ("box_q", "box_d")
        ends = []   # (variable, numerator, denominator) of every finite end used
        def box_cons():
            cs = []
            for i in range(n):
                if r.random() < 0.15: continue
                lo = r.randint(0, 2); hi = lo + r.randint(0, 2)
                a = r.choice([1, 1, 2])
                ends.extend([(i, lo, 1), (i, hi, 1), (i, 2 * lo + 1, 2), (i, 2 * hi - 1, 2)])
                if r.random() < 0.85: cs.append(self.grid_con(n, [(i, a)], -a * lo if a == 1 or r.random() < 0.5 else -a * lo - 1, ">" if strict_ok and r.random() < 0.5 else ">="))
                if r.random() < 0.85: cs.append(self.grid_con(n, [(i, -a)], a * hi if a == 1 or r.random() < 0.5 else a * hi + 1, ">" if strict_ok and r.random() < 0.5 else ">="))
            return cs or [self.grid_con(n, [(0, 1)], 0)]
        def touching_con(allow_multi=True):
            k = r.choice(["=", ">=", ">=", ">"] if strict_ok else ["=", ">=", ">="])
            if ends and r.random() < (0.5 if allow_multi else 0.9):
                # an interval constraint whose bound is exactly an end of the box:  s*d*x - s*num  k  0
                (v, num, d) = r.choice(ends); sg = r.choice([1, -1]); m = r.choice([1, 1, 2])
                return self.grid_con(n, [(v, sg * d * m)], -sg * num * m, k)
            if n > 1 and allow_multi and r.random() < 0.55:
                vs = r.sample(range(n), r.randint(2, n))
                terms = [(v, r.choice([-2, -1, 1, 1, 2, 3])) for v in vs]
            else:
                terms = [(r.randrange(n), r.choice([-2, -1, 1, 2]))]
            return self.grid_con(n, terms, r.randint(-4, 4), k)
        x = box_cons(); y = box_cons()
        lines = ["case %s" % cid,
                 "new 0 %s %d cons %d %s" % (kind, n, len(x), " ".join(x)),
                 "new 1 %s %d cons %d %s" % (kind, n, len(y), " ".join(y)),
                 "new 2 nncpoly %d cons %d %s" % (n, len(x) + 1, " ".join(x + [touching_con()])),
                 "new 3 %s %d from 2 poly" % (kind, n), "new 4 %s %d from 2 any" % (kind, n), "copy 5 0", "copy 6 0", "copy 7 0"]
        for _ in range(3): lines.append("qry 0 relation_with_con %s" % touching_con())
        lines.append("qry 0 relation_with_con %s" % touching_con(False))
        lines.append("op 5 %s %s" % (r.choice(["refine_with_constraint", "refine_with_constraint", "add_constraint"]), touching_con()))
        lines.append("op 6 propagate_constraints 1 %s" % touching_con())
        lines.append("op 7 refine_with_constraints 2 %s %s" % (touching_con(), touching_con()))
        if n > 1:
            # non-interval equalities, each sign pattern, constant chosen so that an end of the box is met exactly
            for k in (8, 9):
                vs = r.sample(range(n), 2)
                lines.append("copy %d 0" % k)
                lines.append("op %d %s 1 %s" % (k, r.choice(["refine_with_constraints", "propagate_constraints"]),
                                               self.grid_con(n, [(vs[0], r.choice([1, -1, 2])), (vs[1], r.choice([-1, 1, -2]))], r.choice([0, 0, 1, -1, 2]), "=")))
        lines += ["qry 0 contains 1", "qry 0 is_disjoint_from 1", "qry 0 strictly_contains 5", "qry 0 equals 5",
                  "qry 0 maximize %d 0 %s" % (n, " ".join(str(r.choice([-1, 0, 1, 2])) for _ in range(n))),
                  r.choice(["op 0 difference_assign 1", "op 1 difference_assign 0"]),
                  r.choice(["op 5 upper_bound_assign 6", "op 5 intersection_assign 6", "op 5 upper_bound_assign_if_exact 6", "op 6 difference_assign 5"]),
                  "stall", "end"]
        return lines

    def eq_refine_case(self, cid, kind):
        """equalities a*e == b with a not dividing b, through refine_* and through the converting constructors"""
        r = self.r
        f = fam(kind)
        n = r.choice([2, 2, 3])
        a = r.choice([2, 3, 3, 4, 5])
        b = r.choice([k for k in range(-9, 10) if k % a != 0])
        if car(kind) == "i8" and r.random() < 0.3: b = r.choice([-1, 1]) * r.choice([251, 253, 127, 125])
        i = r.randrange(n)
        if f == "box" or r.random() < 0.3: terms = [(i, r.choice([-a, a]))]
        else:
            j = r.choice([k for k in range(n) if k != i])
            terms = [(i, a), (j, -a)] if f == "bds" or r.random() < 0.5 else [(i, r.choice([-a, a])), (j, r.choice([-a, a]))]
        eq = self.grid_con(n, terms, b, "=")
        other = self.con(kind, n)
        lines = ["case %s" % cid,
                 "new 0 %s %d %s" % (kind, n, r.choice(["universe", "cons 1 " + other])),
                 "new 1 cpoly %d cons 1 %s" % (n, eq),
                 "new 2 grid %d cgs 1 0 %s" % (n, eq.split(" ", 1)[1]),
                 "new 3 %s %d from 1 poly" % (kind, n), "new 4 %s %d from 1 simplex" % (kind, n), "new 5 %s %d from 1 any" % (kind, n),
                 "new 6 %s %d from 2 any" % (kind, n),
                 "copy 7 0", "copy 8 0",
                 "op 0 refine_with_constraint %s" % eq,
                 "op 7 refine_with_constraints 2 %s %s" % (other, eq),
                 "op 8 refine_with_congruence 0 %s" % eq.split(" ", 1)[1],
                 "qry 0 is_empty", "qry 3 contains 5", "stall", "end"]
        return lines

    def affine_general_case(self, cid, kind):
        """general-form and one-variable expressions, negative denominators, on shapes where every variable is bounded
        or exactly one variable is unbounded (on one or both sides); every relation symbol; image and preimage"""
        r = self.r
        n = 3
        cs = []
        unb = r.randrange(n) if r.random() < 0.45 else -1      # the unbounded variable, if any
        unb_side = r.choice(["both", "upper", "lower"])
        for i in range(n):
            lo = r.randint(-3, 2); hi = lo + r.randint(0, 4)
            if not (i == unb and unb_side in ("both", "lower")): cs.append(self.grid_con(n, [(i, 1)], -lo))
            if not (i == unb and unb_side in ("both", "upper")): cs.append(self.grid_con(n, [(i, -1)], hi))
        for _ in range(r.randint(0, 2)):
            c = self.con(kind, n)
            if not c.startswith(">"): cs.append(c)
        den = lambda: r.choice([1, 1, 2, 3, -1, -1, -2, -3])
        def gexpr(v, d):
            """expression for variable v and denominator d"""
            u = r.random()
            co = [0] * n
            if u < 0.3:
                # one variable w != v (or v itself) with coefficient +-d, +-1 or other; constant of either sign
                w = r.randrange(n) if r.random() < 0.2 else r.choice([k for k in range(n) if k != v])
                co[w] = r.choice([d, -d, d, -d, 1, -1, 2 * d])
            else:
                while True:
                    co = [r.choice([-3, -2, -1, -1, 0, 1, 2]) for _ in range(n)]
                    if sum(1 for x in co if x) >= 2: break
                if unb >= 0 and r.random() < 0.7:
                    co[unb] = r.choice([d, -d, d, -d, 1, -1, 2])          # the unbounded variable with coefficient +-d / other
            return "%d %d %s" % (n, r.randint(-4, 4) * r.choice([1, 1, 2]), " ".join(map(str, co)))
        rels = ["<=", ">=", "==", "<=", ">="] + (["<", ">"] if kind in ("box_q", "box_d") or r.random() < 0.05 else [])
        lines = ["case %s" % cid, "new 0 %s %d cons %d %s" % (kind, n, len(cs), " ".join(cs))]
        for k in range(1, 8): lines.append("copy %d 0" % k)
        def one(k, op):
            v = r.randrange(n); d = den()
            if op in ("affine_image", "affine_preimage"): return "op %d %s %d %d %s" % (k, op, v, d, gexpr(v, d))
            if op.startswith("generalized"): return "op %d %s %d %s %d %s" % (k, op, v, r.choice(rels), d, gexpr(v, d))
            return "op %d %s %d %d %s %s" % (k, op, v, d, gexpr(v, d), gexpr(v, d))
        lines += [one(1, "affine_image"), one(2, "generalized_affine_image"), one(3, "generalized_affine_image"),
                  one(4, "bounded_affine_image"), one(5, "bounded_affine_image"),
                  one(6, "generalized_affine_preimage"), one(7, r.choice(["bounded_affine_preimage", "affine_preimage", "generalized_affine_preimage"])),
                  one(0, r.choice(["generalized_affine_image", "generalized_affine_preimage", "bounded_affine_image"])),
                  "stall", "end"]
        return lines

    def lazy_dim_case(self, cid, kind):
        """queries on an object left in the closed / reduced lazy state by an observer, after a dimension-changing
        operation, compared with a twin rebuilt from its constraints"""
        r = self.r
        f = fam(kind)
        n = r.choice([2, 3])
        # a cycle of finite bounds through variable 0
        cs = [self.grid_con(n, [(0, 1)], r.randint(0, 2)), self.grid_con(n, [(0, -1)], r.randint(1, 4))]
        for i in range(1, n):
            if f == "box":
                cs += [self.grid_con(n, [(i, 1)], r.randint(0, 2)), self.grid_con(n, [(i, -1)], r.randint(1, 4))]
            else:
                cs += [self.grid_con(n, [(i, 1), (i - 1, -1)], r.randint(0, 3)), self.grid_con(n, [(i, -1), (i - 1, 1)], r.randint(0, 3))]
        objs = {0: (kind, n)}
        lines = ["case %s" % cid, "new 0 %s %d cons %d %s" % (kind, n, len(cs), " ".join(cs)),
                 r.choice(["qry 0 is_empty", "op 0 closure", "op 0 reduction", "op 0 obs_minimized_constraints", "qry 0 maximize %d 0 %s" % (n, " ".join(["1"] * n)), "qry 0 is_bounded"])]
        dimop = r.choice(["expand_space_dimension", "expand_space_dimension", "fold_space_dimensions", "map_space_dimensions", "remove_space_dimensions", "concatenate_assign", "add_space_dimensions_and_project"])
        if r.random() < 0.3:
            # instead of a dimension change: turn one of the inequalities into an equality (or add a new constraint)
            # on the object left closed / reduced by the observer
            dimop = "add"
            c0 = r.choice(cs)
            lines.append("op 0 %s %s" % (r.choice(["add_constraint", "add_constraints 1", "refine_with_constraint"]),
                                         ("= " + c0.split(" ", 1)[1]) if r.random() < 0.7 else self.con(kind, n)))
        elif dimop == "concatenate_assign":
            lines.append("copy 3 0"); objs[3] = (kind, n)
            lines.append("op 0 concatenate_assign 3"); objs[0] = (kind, 2 * n)
        else:
            lines.append(self.mutator(0, objs, [dimop]))
        m = objs[0][1]
        lines.append("new 1 %s %d twin 0" % (kind, m))
        lines += ["qry 0 equals 1", "qry 1 equals 0", "qry 0 contains 1", "qry 1 contains 0", "qry 0 strictly_contains 1", "qry 0 is_disjoint_from 1"]
        if m >= 2:
            for _ in range(3):
                i, j = r.sample(range(m), 2)
                if dimop == "expand_space_dimension" and r.random() < 0.7: i = m - 1
                co = [0] * m; co[i] = 1
                if f != "box": co[j] = r.choice([-1, -1, 1]) if f == "oct" else -1
                e = "%d 0 %s" % (m, " ".join(map(str, co)))
                lines += ["qry 0 %s %s" % (r.choice(["maximize", "minimize", "bounds_from_above", "bounds_from_below"]), e)]
                lines += ["qry 0 relation_with_con >= %d %s" % (r.randint(-2, 4), " ".join(str(-x) for x in co))]
        lines += ["qry 0 is_bounded", "qry 0 affine_dimension", "stall", "end"]
        return lines

    def diff_eq_case(self, cid, kind):
        """difference with a subtrahend holding an equality that the minuend straddles"""
        r = self.r
        f = fam(kind)
        n = r.choice([1, 2, 2, 3])
        cs = []
        for i in range(n):
            lo = r.randint(-1, 1); hi = lo + r.randint(1, 3)
            cs += [self.grid_con(n, [(i, 1)], -lo), self.grid_con(n, [(i, -1)], hi)]
        if f != "box" and n > 1 and r.random() < 0.5:
            cs.append(self.grid_con(n, [(1, 1), (0, -1)] if f == "bds" else [(1, 1), (0, r.choice([1, -1]))], r.randint(0, 2)))
        a = r.choice([1, 1, 2])
        i = r.randrange(n)
        if f != "box" and n > 1 and r.random() < 0.35:
            j = r.choice([k for k in range(n) if k != i])
            terms = [(i, a), (j, -a)] if f == "bds" else [(i, a), (j, r.choice([a, -a]))]
        else:
            terms = [(i, a)]
        b = -r.randint(0, 2) * a - (1 if a == 2 and r.random() < 0.5 else 0)
        if r.random() < 0.7: ys = [self.grid_con(n, terms, b, "=")]
        else: ys = [self.grid_con(n, terms, b, ">="), self.grid_con(n, [(v, -c) for v, c in terms], -b, ">=")]
        if r.random() < 0.3: ys.append(self.con(kind, n))
        lines = ["case %s" % cid,
                 "new 0 %s %d cons %d %s" % (kind, n, len(cs), " ".join(cs)),
                 "new 1 %s %d cons %d %s" % (kind, n, len(ys), " ".join(ys)),
                 "copy 2 0", "copy 3 1"]
        if r.random() < 0.5: lines.append("op 1 %s" % r.choice(["closure", "reduction", "obs_minimized_constraints"]))
        if r.random() < 0.3: lines.append("op 0 %s" % r.choice(["closure", "reduction"]))
        lines += ["op 0 difference_assign 1", "qry 0 contains 2", "qry 2 contains 0", "op 3 difference_assign 2", "stall", "end"]
        return lines

    def redundant_cons(self, kind, n):
        """constraints with implied (redundant) members so that a reduction has something to mark"""
        r = self.r
        f = fam(kind)
        cs = []
        for i in range(n):
            lo = r.randint(-1, 1); hi = lo + r.randint(0, 3)
            if r.random() < 0.85: cs.append(self.grid_con(n, [(i, 1)], -lo))
            if r.random() < 0.85: cs.append(self.grid_con(n, [(i, -1)], hi))
        if f != "box" and n > 1:
            for _ in range(r.randint(1, 3)):
                i, j = r.sample(range(n), 2)
                si = 1; sj = -1
                if f == "oct": si, sj = r.choice([1, -1]), r.choice([1, -1])
                cs.append(self.grid_con(n, [(i, -si), (j, -sj)], r.randint(0, 4)))     # si*x_i + sj*x_j <= c
        return cs or [self.grid_con(n, [(0, 1)], 0)]

    def lazy_prefix(self, oid, kind, n, state):
        """leave object oid in a given lazy state"""
        r = self.r
        if state == "fresh": return []
        if state == "closed": return ["op %d closure" % oid]
        if state == "reduced": return ["op %d %s" % (oid, r.choice(["reduction", "obs_minimized_constraints"]))]
        # stale redundancy data: reduced, then modified (flags reset), possibly closed again
        ls = ["op %d reduction" % oid, "op %d %s %s" % (oid, r.choice(["add_constraint", "refine_with_constraint"]), self.redundant_cons(kind, n)[0])]
        if state == "stale-closed": ls.append("op %d closure" % oid)
        return ls

    def swap_case(self, cid, kind):
        """swap / assignment / copy between shapes in every pair of lazy states, then observers, comparisons and
        upper_bound_assign_if_exact against twins rebuilt from constraints()"""
        r = self.r
        n = r.choice([2, 2, 3])
        states = ["fresh", "closed", "reduced", "stale", "stale-closed"]
        sx, sy = r.choice(states), r.choice(states)
        x = self.redundant_cons(kind, n); y = self.redundant_cons(kind, n)
        lines = ["case %s" % cid,
                 "new 0 %s %d cons %d %s" % (kind, n, len(x), " ".join(x)),
                 "new 1 %s %d cons %d %s" % (kind, n, len(y), " ".join(y))]
        lines += self.lazy_prefix(0, kind, n, sx) + self.lazy_prefix(1, kind, n, sy)
        act = r.choice(["swap", "swap", "swap_std", "assign", "copy"])
        if act == "copy": lines.append("copy 1 0")
        else: lines.append("op 0 %s 1" % act)
        for o in (0, 1):
            lines += ["op %d obs_minimized_constraints" % o, "new %d %s %d twin %d" % (2 + o, kind, n, o),
                      "qry %d equals %d" % (o, 2 + o), "qry %d contains %d" % (o, 2 + o), "qry %d contains %d" % (2 + o, o)]
        lines += ["qry 0 equals 1", "qry 0 contains 1", "copy 4 0", "copy 5 2",
                  "op 4 upper_bound_assign_if_exact 1", "op 5 upper_bound_assign_if_exact 3",
                  "op 0 %s" % r.choice(["reduction", "closure", "obs_constraints"]), "op 1 difference_assign 0", "stall", "end"]
        return lines

    def ubie_case(self, cid, kind):
        """upper_bound_assign_if_exact (and the integer variant on integer carriers) on pairs of small shapes whose end
        points come from a tiny grid: sharing / adjacent / crossing faces, both argument orders"""
        r = self.r
        f, c = fam(kind), car(kind)
        n = r.choice([2, 2, 2, 3])
        def shape():
            cs = []
            for i in range(n):
                lo = r.randint(0, 2); hi = lo + r.randint(0, 3)
                if r.random() < 0.9: cs.append(self.grid_con(n, [(i, 1)], -lo))
                if r.random() < 0.9: cs.append(self.grid_con(n, [(i, -1)], hi))
            if f != "box":
                for _ in range(r.randint(0, 3)):
                    i, j = r.sample(range(n), 2)
                    si, sj = (1, -1) if f == "bds" else (r.choice([1, -1]), r.choice([1, -1]))
                    cs.append(self.grid_con(n, [(i, -si), (j, -sj)], r.randint(-1, 5)))
            return cs or [self.grid_con(n, [(0, 1)], 0)]
        x = shape()
        if r.random() < 0.5:
            # y = x with one bound moved / one constraint replaced: adjacent or overlapping pieces
            y = list(x); k = r.randrange(len(y)); t = y[k].split(" ")
            t[1] = str(int(t[1]) + r.choice([-2, -1, 1, 2])); y[k] = " ".join(t)
            if r.random() < 0.5: y.append(shape()[0])
        else:
            y = shape()
        op = "integer_upper_bound_assign_if_exact" if (c in ("z", "i8") and f != "box" and r.random() < 0.5) else "upper_bound_assign_if_exact"
        lines = ["case %s" % cid,
                 "new 0 %s %d cons %d %s" % (kind, n, len(x), " ".join(x)),
                 "new 1 %s %d cons %d %s" % (kind, n, len(y), " ".join(y)),
                 "copy 2 0", "copy 3 1"]
        if r.random() < 0.3: lines.append("op %d %s" % (r.choice([0, 1]), r.choice(["closure", "reduction"])))
        lines += ["op 0 %s 1" % op, "op 3 %s 2" % op, "stall", "end"]
        return lines

    def affine_div_case(self, cid, kind):
        """affine transformers with a non-unit divisor that does not divide the constant: translation / reflection
        (expr = +-d*var + b), +-d*w + b, and general expressions; every carrier (the inexact ones must round outward)"""
        r = self.r
        n = 3
        cs = []
        for i in range(n):
            lo = r.randint(-3, 2); hi = lo + r.randint(0, 4)
            cs += [self.grid_con(n, [(i, 1)], -lo), self.grid_con(n, [(i, -1)], hi)]
        for _ in range(r.randint(0, 2)):
            c = self.con(kind, n)
            if not c.startswith(">"): cs.append(c)
        lines = ["case %s" % cid, "new 0 %s %d cons %d %s" % (kind, n, len(cs), " ".join(cs))]
        for k in range(1, 7): lines.append("copy %d 0" % k)
        def ex(v):
            d = r.choice([2, 3, -2, -3, 4, 5, -5])
            b = r.choice([x for x in range(-9, 10) if x % abs(d) != 0])
            co = [0] * n
            u = r.random()
            if u < 0.5: co[v] = r.choice([d, -d])                      # translation / reflection of var itself
            elif u < 0.75: co[r.choice([k for k in range(n) if k != v])] = r.choice([d, -d])
            else:
                while sum(1 for x in co if x) < 2: co = [r.choice([-2, -1, 0, 1, 2, d]) for _ in range(n)]
            return d, "%d %d %s" % (n, b, " ".join(map(str, co)))
        v = r.randrange(n); d, e = ex(v); lines.append("op 1 affine_image %d %d %s" % (v, d, e))
        v = r.randrange(n); d, e = ex(v); lines.append("op 2 affine_image %d %d %s" % (v, d, e))
        v = r.randrange(n); d, e = ex(v); lines.append("op 3 affine_preimage %d %d %s" % (v, d, e))
        v = r.randrange(n); d, e = ex(v); lines.append("op 4 generalized_affine_image %d %s %d %s" % (v, r.choice(["<=", ">=", "=="]), d, e))
        v = r.randrange(n); d, e = ex(v); _, e2 = ex(v); lines.append("op 5 bounded_affine_image %d %d %s %s" % (v, d, e, e2))
        v = r.randrange(n); d, e = ex(v); lines.append("op 6 generalized_affine_preimage %d %s %d %s" % (v, r.choice(["<=", ">=", "=="]), d, e))
        lines += ["stall", "end"]
        return lines

    def fold_case(self, cid, kind):
        """fold / expand / map / remove with both index orders of source and destination, surviving variables in
        between, relational (sum / difference) constraints not implied by the interval bounds"""
        r = self.r
        f = fam(kind)
        n = r.choice([3, 3, 4])
        cs = []
        for i in range(n):
            if r.random() < 0.6:
                lo = r.randint(-2, 2); hi = lo + r.randint(0, 5)
                if r.random() < 0.8: cs.append(self.grid_con(n, [(i, 1)], -lo))
                if r.random() < 0.8: cs.append(self.grid_con(n, [(i, -1)], hi))
        if f != "box":
            for _ in range(r.randint(2, 4)):
                i, j = r.sample(range(n), 2)
                si, sj = (1, -1) if f == "bds" else (r.choice([1, -1]), r.choice([1, -1]))
                cs.append(self.grid_con(n, [(i, si), (j, sj)], r.randint(-3, 3), r.choice(["=", ">=", ">="])))
        chain = (f != "box" and r.random() < 0.5)
        if chain:
            # a chain of sum / difference relations between consecutive variables, bounds on one middle variable only:
            # the relation between the two ends is implied only through the surviving variable in between
            cs = []
            for i in range(n - 1):
                sj = -1 if f == "bds" else r.choice([1, 1, -1])
                cs.append(self.grid_con(n, [(i, 1), (i + 1, sj)], r.randint(-2, 2), r.choice(["=", "=", ">="])))
            mid = r.randrange(1, n - 1)
            lo = r.randint(-2, 1); cs += [self.grid_con(n, [(mid, 1)], -lo), self.grid_con(n, [(mid, -1)], lo + r.randint(1, 5))]
        if not cs: cs = [self.grid_con(n, [(0, 1)], 0)]
        objs = {0: (kind, n)}
        lines = ["case %s" % cid, "new 0 %s %d cons %d %s" % (kind, n, len(cs), " ".join(cs))]
        for k in range(1, 5): lines.append("copy %d 0" % k); objs[k] = (kind, n)
        if r.random() < 0.4: lines.append("op 1 %s" % r.choice(["closure", "reduction"]))
        # fold: destination above / below the folded variables, a surviving variable in between when possible
        d = r.choice([0, n - 1, r.randrange(n)])
        cand = [i for i in range(n) if i != d]
        vs = sorted(r.sample(cand, r.randint(1, min(2, len(cand) - 1)) if len(cand) > 1 else 1))
        if chain:
            d = r.choice([0, n - 1]); vs = [n - 1 - d] if r.random() < 0.7 else sorted(r.sample([i for i in range(n) if i != d], 1))
        lines.append("op 1 fold_space_dimensions %d %s %d" % (len(vs), " ".join(map(str, vs)), d))
        lines.append("op 2 expand_space_dimension %d 1" % r.randrange(n))
        lines.append(self.mutator(3, objs, ["map_space_dimensions"]))
        lines.append(self.mutator(4, objs, ["remove_space_dimensions"]))
        lines += ["stall", "end"]
        return lines

    def relarg_case(self, cid, kind):
        """relation_with a generator / constraint / congruence of SMALLER space dimension than the shape, and the same
        argument padded to the full dimension"""
        r = self.r
        f = fam(kind)
        n = r.choice([2, 3, 3])
        cs = []
        for i in range(n):
            if r.random() < 0.6: cs.append(self.grid_con(n, [(i, r.choice([1, -1]))], r.randint(0, 5)))
        if f != "box":
            for _ in range(r.randint(1, 2)):
                i, j = r.sample(range(n), 2)
                si, sj = (1, -1) if f == "bds" else (r.choice([1, -1]), r.choice([1, -1]))
                cs.append(self.grid_con(n, [(i, si), (j, sj)], r.randint(-2, 3)))
        if not cs: cs = [self.grid_con(n, [(n - 1, 1)], 0)]
        lines = ["case %s" % cid, "new 0 %s %d cons %d %s" % (kind, n, len(cs), " ".join(cs))]
        if r.random() < 0.4: lines.append("op 0 %s" % r.choice(["closure", "reduction"]))
        for _ in range(6):
            k = r.randint(1, n - 1) if r.random() < 0.8 else n
            co = [r.choice([-2, -1, 0, 1, 1, 5]) for _ in range(k)]
            kindg = r.choice(["p", "p", "r", "l"])
            if kindg != "p" and not any(co): co[-1] = r.choice([1, -1])
            g = "%s %d %s" % (kindg, r.choice([1, 1, 2]) if kindg == "p" else 1, " ".join(map(str, co)))
            lines.append("qry 0 relation_with_gen_n %d %s" % (k, g))
            lines.append("qry 0 relation_with_gen %s %s" % (g, " ".join(["0"] * (n - k))) if k < n else "qry 0 relation_with_gen %s" % g)
        for _ in range(3):
            k = r.randint(1, n - 1)
            i = r.randrange(k); co = [0] * k; co[i] = r.choice([1, -1, 2])
            if f != "box" and k > 1 and r.random() < 0.5:
                j = r.choice([x for x in range(k) if x != i]); co[j] = -co[i] if f == "bds" else r.choice([co[i], -co[i]])
            c = "%s %d %s" % (r.choice(["=", ">=", ">="]), r.randint(-3, 3), " ".join(map(str, co)))
            lines.append("qry 0 relation_with_con_n %d %s" % (k, c))
            lines.append("qry 0 relation_with_cg_n %d 0 %s" % (k, c.split(" ", 1)[1]))
        lines += ["stall", "end"]
        return lines

    def cg_case(self, cid, kind):
        """relation_with proper congruences (moduli 2..4, negative coefficients, non-zero residues) whose hyperplanes touch,
        cross or miss a small bounded (or half-bounded) shape with rational end points; full and smaller arity"""
        r = self.r
        f = fam(kind)
        n = r.choice([1, 2, 2, 3])
        cs = []
        for i in range(n):
            a = r.choice([1, 1, 2, 3, 8])
            lo = r.randint(-6, 9); hi = lo + r.randint(0, 8)
            if r.random() < 0.9: cs.append(self.grid_con(n, [(i, a)], -lo))            # a*x >= lo
            if r.random() < 0.85: cs.append(self.grid_con(n, [(i, -a)], hi))           # a*x <= hi
        if f != "box" and n > 1 and r.random() < 0.5:
            i, j = r.sample(range(n), 2)
            cs.append(self.grid_con(n, [(i, 1), (j, -1 if f == "bds" else r.choice([1, -1]))], r.randint(-2, 3)))
        if not cs: cs = [self.grid_con(n, [(0, 1)], 0)]
        lines = ["case %s" % cid, "new 0 %s %d cons %d %s" % (kind, n, len(cs), " ".join(cs))]
        if r.random() < 0.3: lines.append("op 0 %s" % r.choice(["closure", "reduction"]))
        for _ in range(8):
            k = n if r.random() < 0.7 else r.randint(1, n)
            co = [0] * k
            i = r.randrange(k); co[i] = r.choice([-3, -2, -1, 1, 2, 3])
            if k > 1 and r.random() < 0.4:
                j = r.choice([x for x in range(k) if x != i]); co[j] = r.choice([-2, -1, 1, 2])
            m = r.choice([2, 2, 3, 3, 4, 1])
            body = "%d %d %s" % (m, r.randint(-4, 4), " ".join(map(str, co)))
            lines.append(("qry 0 relation_with_cg %s" % body) if k == n else ("qry 0 relation_with_cg_n %d %s" % (k, body)))
        lines += ["stall", "end"]
        return lines

    def simplify_case(self, cid, kind):
        """simplify_using_context_assign with empty / non-empty meet, receiver containing the context, equal operands"""
        r = self.r
        n = r.choice([1, 2, 2, 3])
        def shape():
            cs = []
            for i in range(n):
                lo = r.randint(-2, 3); hi = lo + r.randint(0, 3)
                if r.random() < 0.8: cs.append(self.grid_con(n, [(i, 1)], -lo))
                if r.random() < 0.8: cs.append(self.grid_con(n, [(i, -1)], hi))
            if fam(kind) != "box" and n > 1 and r.random() < 0.5: cs.append(self.con(kind, n))
            return [c for c in cs if not c.startswith(">") or kind in ("box_q", "box_d")] or [self.grid_con(n, [(0, 1)], 0)]
        x = shape(); y = shape()
        lines = ["case %s" % cid,
                 "new 0 %s %d cons %d %s" % (kind, n, len(x), " ".join(x)),
                 "new 1 %s %d cons %d %s" % (kind, n, len(y), " ".join(y)),
                 "copy 2 0", "copy 3 1", "copy 4 0"]
        if r.random() < 0.3: lines.append("op %d %s" % (r.choice([0, 1]), r.choice(["closure", "reduction", "obs_is_empty"])))
        lines += ["op 0 simplify_using_context_assign 1", "op 3 simplify_using_context_assign 2",
                  "op 4 intersection_assign 1", "op 4 simplify_using_context_assign 1", "stall", "end"]
        return lines

    def twin_case(self, cid, kind):
        """equal sets with different matrices, and sets one notch apart"""
        r = self.r
        objs = {}
        n = r.randint(1, self.maxdim)
        lines = ["case %s" % cid, self.new_main(0, kind, n, objs, "cons"), "copy 1 0"]
        objs[1] = objs[0]
        lines.append("op 1 %s" % r.choice(["closure", "reduction", "obs_minimized_constraints"]))
        lines += ["qry 0 equals 1", "qry 0 contains 1", "qry 1 contains 0", "qry 0 strictly_contains 1", "copy 2 1"]
        objs[2] = objs[0]
        lines.append("op 2 add_constraint %s" % self.con(kind, n))
        lines += ["qry 0 equals 2", "qry 0 contains 2", "qry 2 contains 0", "qry 0 strictly_contains 2", "qry 2 is_disjoint_from 0",
                  "op 0 difference_assign 2", "op 1 upper_bound_assign 2", "stall", "end"]
        return lines


def make_cases(seed, count, kinds, maxdim=3, steps=6, ops=None, pq=0.3, start=0, mix=(0.62, 0.18, 0.10, 0.10)):
    """mix = shares of (histories, constructor cases, cycle pairs, twin cases)"""
    g = G(seed, maxdim)
    out = []
    for i in range(count):
        kind = kinds[i % len(kinds)]
        u = g.r.random()
        cid = "%d" % (start + i)
        if ops is not None or u < mix[0]: out += g.history(cid, kind, steps, ops, pq)
        elif u < mix[0] + mix[1]: out += g.ctor_case(cid, kind)
        elif u < mix[0] + mix[1] + mix[2] and fam(kind) != "box": out += g.cycle_pair(cid, kind)
        elif g.r.random() < 0.5: out += g.twin_case(cid, kind)
        else: out += g.chain_case(cid, kind)
    return out


def make_targeted(seed, count, kinds, start=0, which=None):
    """cycles through the targeted generators (open boxes, non-dividing equalities, general-form affine
    transformers, lazy state after dimension changes, difference with straddled equalities)"""
    g = G(seed, 3)
    out = []
    names = which or ["open_box", "eq_refine", "affine_general", "lazy_dim", "diff_eq", "swap", "ubie", "affine_general", "affine_div", "fold", "relarg", "cg", "simplify"]
    i = 0; made = 0
    while made < count:
        kind = kinds[i % len(kinds)]; nm = names[(i // len(kinds)) % len(names)]; i += 1
        f, c = fam(kind), car(kind)
        if nm == "open_box" and f != "box": continue
        if nm == "affine_general" and f == "box" and g.r.random() < 0.7: continue
        cid = "t%d" % (start + made)
        out += getattr(g, nm + "_case")(cid, kind); made += 1
        if i > 50 * count + 1000: break
    return out
