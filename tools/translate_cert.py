#!/usr/bin/env python3
"""C08: regenerate coq/gen/Facts_Cert.v from /repo's working tree.

Facts: for BHRZ03_Certificate, H79_Certificate and Grid_Certificate, the ladders of field comparisons of
`compare(const Cert&)` and `compare(const PH&)` -- which field, in which ORDER, with which of the three `if`
shapes -- as data of type `list (rung * field)` (coq/Widen/Cert.v), the direction of the ray-vector loop, and the
constant `is_stabilizing` / `Compare` test the comparison result against.  coq/Widen/CertFacts.v proves that the
interpretation of these ladders IS the transcription the theorems are about, so reordering a ladder, flipping a
`<`, or changing a constant breaks that file.  Untrusted glue: a mis-translation shows up there or as a
model/code disagreement in the correspondence run (the judge compares the library's compare() values with the
model's on every certificate pair)."""
import os, re, sys

sys.path.insert(0, os.path.dirname(os.path.abspath(__file__)))
import common


class TranslateError(Exception):
    pass


FIELD = {"affine_dim": "FAffineDim", "lin_space_dim": "FLinSpaceDim", "num_constraints": "FNumConstraints",
         "num_points": "FNumPoints", "num_rays_null_coord": "FRaysNullCoord",
         "num_equalities": "FNumEqualities", "num_proper_congruences": "FNumProperCongruences"}


def strip_comments(s):
    s = re.sub(r"/\*.*?\*/", " ", s, flags=re.S)
    s = re.sub(r"//[^\n]*", " ", s)
    return s


def function_body(txt, header_re):
    m = re.search(header_re, txt)
    if not m:
        raise TranslateError("function not found: %s" % header_re)
    i = txt.index("{", m.end() - 1)
    depth, j = 0, i
    while j < len(txt):
        if txt[j] == "{": depth += 1
        elif txt[j] == "}":
            depth -= 1
            if depth == 0:
                return re.sub(r"\s+", " ", txt[i + 1:j])
        j += 1
    raise TranslateError("unbalanced braces after %s" % header_re)


def fld(name):
    if name not in FIELD:
        raise TranslateError("unknown certificate field %r" % name)
    return FIELD[name]


def ladder(body, what, vec_loop_required=True):
    """Rungs of a compare body in textual order. Every `return` of the body must belong to a recognised rung or be
    the final `return 0;`."""
    pats = [
        # compare(const Cert& y)
        ("NeGt", r"if \((\w+) != y\.\1\) \{? ?return \(\1 > y\.\1\) \? 1 : -1; ?\}?", False),
        ("NeGt", r"if \((\w+)\[i\] != y\.\1\[i\]\) \{? ?return \(\1\[i\] > y\.\1\[i\]\) \? 1 : -1; ?\}?", True),
        # compare(const PH& ph)
        ("GtOnly", r"if \(ph_(\w+) > \1\) \{? ?return 1; ?\}?", False),
        ("NeLt", r"if \(ph_(\w+) != \1\) \{? ?return \(ph_\1 < \1\) \? 1 : -1; ?\}?", False),
        ("NeLt", r"if \(ph_(\w+)\[i\] != \1\[i\]\) \{? ?return \(ph_\1\[i\] < \1\[i\]\) \? 1 : -1; ?\}?", True),
    ]
    found = []
    for rung, pat, isvec in pats:
        for m in re.finditer(pat, body):
            found.append((m.start(), rung, fld(m.group(1)), isvec))
    found.sort()
    nret = len(re.findall(r"\breturn\b", body))
    if nret != len(found) + 1 or not re.search(r"return 0; ?$", body.strip()):
        raise TranslateError("%s: %d return statements but %d recognised rungs (+ final `return 0;`): the ladder has a shape "
                             "the translator does not know" % (what, nret, len(found)))
    for pos, rung, f, isvec in found:
        if isvec != (f == "FRaysNullCoord"):
            raise TranslateError("%s: scalar/vector mismatch for %s" % (what, f))
        if isvec:
            # the enclosing loop must run upwards from 0 over the whole vector
            pre = body[:pos]
            loops = list(re.finditer(r"for \(dimension_type i = 0; i < space_dim; \+\+i\) \{? ?$", pre))
            if not loops:
                raise TranslateError("%s: the ray-vector loop is not `for (i = 0; i < space_dim; ++i)`" % what)
    return [(r, f) for _, r, f, _ in found]


def grid_ladder(body):
    m = re.fullmatch(r" ?(?:PPL_ASSERT\([^;]*\); )?if \((\w+) == y\.\1\) \{ if \((\w+) == y\.\2\) \{ return 0; \} "
                     r"else \{ return \(\2 > y\.\2\) \? 1 : -1; \} \} return \(\1 > y\.\1\) \? 1 : -1; ?", body)
    if m:
        return [("NeGt", fld(m.group(1))), ("NeGt", fld(m.group(2)))]
    return ladder(body, "Grid_Certificate::compare(cert)")


def stab_const(txt, cls, fn_re):
    body = function_body(txt, fn_re)
    m = re.fullmatch(r" ?(?:// .*?)?return (?:x\.)?compare\((?:ph|gr|y)\) == (-?\d+); ?", body)
    if not m:
        raise TranslateError("%s: unexpected body %r" % (cls, body))
    return int(m.group(1))


def coq_ladder(l):
    return "[" + "; ".join("(%s, %s)" % (r, f) for r, f in l) + "]"


def generate():
    src = os.path.join(common.REPO, "src")
    rd = lambda n: re.sub(r"\s+", " ", strip_comments(open(os.path.join(src, n)).read()))
    b, h, g = rd("BHRZ03_Certificate.cc"), rd("H79_Certificate.cc"), rd("Grid_Certificate.cc")
    bi, hi, gi = rd("BHRZ03_Certificate_inlines.hh"), rd("H79_Certificate_inlines.hh"), rd("Grid_Certificate_inlines.hh")
    facts = {}
    facts["bhrz03_cc_ladder"] = ladder(function_body(b, r"BHRZ03_Certificate::compare\(const BHRZ03_Certificate& y\) const \{"), "BHRZ03 compare(cert)")
    facts["bhrz03_ph_ladder"] = ladder(function_body(b, r"BHRZ03_Certificate::compare\(const Polyhedron& ph\) const \{"), "BHRZ03 compare(ph)")
    facts["h79_cc_ladder"] = ladder(function_body(h, r"H79_Certificate::compare\(const H79_Certificate& y\) const \{"), "H79 compare(cert)")
    facts["h79_ph_ladder"] = ladder(function_body(h, r"H79_Certificate::compare\(const Polyhedron& ph\) const \{"), "H79 compare(ph)")
    facts["grid_cc_ladder"] = grid_ladder(function_body(g, r"Grid_Certificate::compare\(const Grid_Certificate& y\) const \{"))
    gb = function_body(g, r"Grid_Certificate::compare\(const Grid& gr\) const \{")
    if not re.fullmatch(r" ?const Grid_Certificate gc\(gr\); return compare\(gc\); ?", gb):
        raise TranslateError("Grid_Certificate::compare(const Grid&) no longer delegates to compare(Grid_Certificate(gr)): %r" % gb)
    consts = {
        "bhrz03_stab_value": stab_const(bi, "BHRZ03 is_stabilizing", r"BHRZ03_Certificate::is_stabilizing\(const Polyhedron& ph\) const \{"),
        "grid_stab_value": stab_const(gi, "Grid is_stabilizing", r"Grid_Certificate::is_stabilizing\(const Grid& gr\) const \{"),
        "bhrz03_sort_value": stab_const(bi, "BHRZ03 Compare", r"BHRZ03_Certificate::Compare::operator\(\)\(const BHRZ03_Certificate& x, const BHRZ03_Certificate& y\) const \{"),
        "h79_sort_value": stab_const(hi, "H79 Compare", r"H79_Certificate::Compare::operator\(\)\(const H79_Certificate& x, const H79_Certificate& y\) const \{"),
        "grid_sort_value": stab_const(gi, "Grid Compare", r"Grid_Certificate::Compare::operator\(\)\(const Grid_Certificate& x, const Grid_Certificate& y\) const \{"),
    }
    out = ["(* GENERATED by tools/translate_cert.py from src/{BHRZ03,H79,Grid}_Certificate{.cc,_inlines.hh} -- do not edit *)",
           "From Coq Require Import List ZArith.", "Import ListNotations.", "Require Import PPLV.Widen.Cert.", ""]
    for k in ["bhrz03_cc_ladder", "bhrz03_ph_ladder", "h79_cc_ladder", "h79_ph_ladder", "grid_cc_ladder"]:
        out.append("Definition %s : list (rung * field) :=\n  %s." % (k, coq_ladder(facts[k])))
    out.append("")
    for k, v in consts.items():
        out.append("Definition %s : Z := (%d)%%Z." % (k, v))
    text = "\n".join(out) + "\n"
    path = os.path.join(common.COQ, "gen", "Facts_Cert.v")
    os.makedirs(os.path.dirname(path), exist_ok=True)
    old = open(path).read() if os.path.exists(path) else None
    if old != text:
        with open(path, "w") as f:
            f.write(text)
    return facts, consts


if __name__ == "__main__":
    f, c = generate()
    for k, v in f.items():
        print(k, v)
    print(c)
