"""C05: generator of histories over a pool of 4 Grid objects (text format read by harness/run_grid.cc).

Every random choice comes from the `random.Random` passed in.  The generator tracks only the space
dimension of each pool object (needed to produce dimension-compatible arguments); everything else
is decided by the implementation and mirrored by the judge."""
import random

MODULI = [0, 1, 2, 3, 4, 6]
DIVS = [1, 1, 2, 3]


def cg(r, n, small=False):
    a = _coeffs(r, n)
    b = r.randint(-4, 4)
    m = r.choice(MODULI)
    return "%d %d %s" % (b, m, " ".join(map(str, a)))


def gen(r, n, kind=None):
    kind = kind or r.choice("ppqql")
    a = _coeffs(r, n)
    if kind == "l":
        if n == 0:
            kind = "q"
        elif not any(a):
            a[r.randrange(n)] = r.choice([1, -1, 2])
    d = 1 if kind == "l" else r.choice(DIVS)
    return "%s %d %s" % (kind, d, " ".join(map(str, a)))


SPARSE = False      # set per history: vectors touch 1-2 coordinates only
SUPPORT = None      # sparse stream: coordinates the vectors of the object being built may touch (others stay virtual)


def _coeffs(r, n):
    if not SPARSE:
        return [r.choice([0, 0, 1, -1, 2, -2, 3, -3, 4, -4]) for _ in range(n)]
    a = [0] * n
    if n:
        pool = [i for i in SUPPORT if i < n] if SUPPORT else list(range(n))
        if not pool:
            pool = list(range(n))
        for i in r.sample(pool, min(len(pool), r.choice([1, 1, 2]))):
            a[i] = r.choice([1, -1, 2, -2, 3, 5, 4, -3])
    return a


def new_obj(r, o, n):
    global SUPPORT
    SUPPORT = None
    if SPARSE and n >= 3 and r.random() < 0.7:
        SUPPORT = sorted(r.sample(range(n), r.choice([2, 3])))
    try:
        return _new_obj(r, o, n)
    finally:
        SUPPORT = None


def gappy_gens(r, n):
    """Generator system aimed at the case split of Grid::reduce_reduced / simplify over VIRTUAL dimensions:
    a line (or parameter) with leading coordinate i that also has an entry in column j, whose own row is a
    parameter, with at least two untouched (virtual) coordinates in between; entries larger than the pivot."""
    i = r.randint(0, n - 4)
    j = r.randint(i + 3, n - 1)
    e = lambda k, c: [c if t == k else 0 for t in range(n)]
    add = lambda u, v: [x + y for x, y in zip(u, v)]
    gs = []
    top = add(e(i, r.choice([1, 1, 2, -1])), e(j, r.choice([2, 3, 4, 5, 7, -2, -5])))
    gs.append("%s %d %s" % (r.choice(["l", "l", "q"]), 1, " ".join(map(str, top))))
    gs.append("q %d %s" % (r.choice([1, 1, 2]), " ".join(map(str, e(j, r.choice([2, 3, 4]))))))
    if r.random() < 0.6:
        gs.append("q %d %s" % (r.choice([1, 2, 3]), " ".join(map(str, e(i + 1, r.choice([1, 2, 3]))))))
    if r.random() < 0.3:
        gs.append("l 1 %s" % " ".join(map(str, e(r.choice([i + 2, j - 1]), 1))))
    pt = [0] * n
    if r.random() < 0.5:
        pt[r.randrange(n)] = r.choice([1, -1, 2])
    gs.append("p %d %s" % (r.choice(DIVS), " ".join(map(str, pt))))
    r.shuffle(gs)
    return gs


def _new_obj(r, o, n):
    if SPARSE and n >= 4 and r.random() < 0.3:
        gs = gappy_gens(r, n)
        return "new %d dim %d gens %d %s" % (o, n, len(gs), " ".join(gs))
    k = r.random()
    if k < 0.08:
        return "new %d dim %d universe" % (o, n)
    if k < 0.14:
        return "new %d dim %d empty" % (o, n)
    if k < 0.57:
        cnt = r.randint(0, 3 if n else 1)
        return "new %d dim %d cgs %d %s" % (o, n, cnt, " ".join(cg(r, n) for _ in range(cnt)))
    cnt = r.randint(1, 4)
    gs = [gen(r, n, "p")] + [gen(r, n) for _ in range(cnt - 1)]
    r.shuffle(gs)
    return "new %d dim %d gens %d %s" % (o, n, cnt, " ".join(gs))


def rand_pfunc(r, n, full=None):
    """Injective partial map of the n dimensions onto 0..k-1 (k = n: a permutation, biased to contain a cycle)."""
    if full is None:
        full = r.random() < 0.55
    k = n if full else r.randint(0, n)
    kept = sorted(r.sample(range(n), k))
    img = list(range(k))
    r.shuffle(img)
    if k >= 2 and img == list(range(k)):
        img = img[1:] + img[:1]
    m = [-1] * n
    for i, j in zip(kept, img):
        m[i] = j
    return m


OPS = [("addcg", 10), ("refcg", 2), ("addcgs", 4), ("addgen", 10), ("addgens", 3), ("inters", 7), ("join", 7),
       ("image", 7), ("preimage", 7), ("embed", 2), ("project", 2), ("rmhigher", 3), ("copy", 4), ("assign", 3),
       ("swap", 1), ("closure", 1), ("new", 3),
       ("unconstrain", 2), ("telapse", 3), ("diff", 5),
       ("mapdims", 4), ("rmdims", 3), ("expand", 2), ("fold", 2), ("concat", 2), ("gimage", 4), ("gpreimage", 4),
       ("obs", 14), ("q", 10), ("q2", 12), ("rel", 10), ("freq", 9), ("relgen", 5)]


def history(r, cid, maxdim=3, nsteps=None, sparse=False):
    """sparse=True: the higher-dimensional stream (dimension 4..maxdim, every vector touches 1-2 coordinates, so
    that several dimensions are virtual in the reduced forms)."""
    global SPARSE
    SPARSE = sparse
    if sparse:
        n0 = r.randint(4, maxdim)
    else:
        n0 = r.choice([0, 1, 1, 2, 2, 2, 3, 3][: (2 + 2 * maxdim)]) if maxdim < 3 else r.choice([0, 1, 1, 2, 2, 2, 3, 3])
        n0 = min(n0, maxdim)
    dims = [0, 0, 0, 0]
    lines = ["case %s" % cid]
    for o in range(4):
        lines.append(new_obj(r, o, n0))
        dims[o] = n0
    steps = nsteps or (r.randint(3, 8) if sparse else r.randint(4, 12))
    names = [x for x, _ in OPS]
    weights = [w for _, w in OPS]
    for _ in range(steps):
        op = r.choices(names, weights)[0]
        o = r.randrange(4)
        n = dims[o]
        same = [y for y in range(4) if dims[y] == n]
        if op in ("addcg", "refcg"):
            lines.append("%s %d %s" % (op, o, cg(r, n)))
        elif op == "addcgs":
            k = r.randint(0, 3)
            lines.append("addcgs %d %d %s" % (o, k, " ".join(cg(r, n) for _ in range(k))))
        elif op == "addgen":
            lines.append("addgen %d %s" % (o, gen(r, n)))
        elif op == "addgens":
            k = r.randint(0, 3)
            lines.append("addgens %d %d %s" % (o, k, " ".join(gen(r, n) for _ in range(k))))
        elif op in ("inters", "join", "diff"):
            lines.append("%s %d %d" % (op, o, r.choice(same)))
        elif op in ("image", "preimage"):
            if n == 0:
                continue
            a = [r.choice([0, 0, 1, -1, 2, -2]) for _ in range(n)] if not sparse else [x % 3 - 1 if x else 0 for x in _coeffs(r, n)]
            lines.append("%s %d %d %d %d %s" % (op, o, r.randrange(n), r.randint(-3, 3),
                                                r.choice([1, 1, 1, -1, 2, 3, -2, 0] if r.random() < 0.3 else [1, 1, -1, 2, 3]),
                                                " ".join(map(str, a))))
        elif op in ("embed", "project"):
            if n >= maxdim:
                continue
            m = r.randint(1, maxdim - n)
            lines.append("%s %d %d" % (op, o, m))
            dims[o] = n + m
        elif op == "rmhigher":
            m = r.randint(0, n)
            lines.append("rmhigher %d %d" % (o, m))
            dims[o] = m
        elif op in ("copy", "assign"):
            s = r.randrange(4)
            lines.append("%s %d %d" % (op, o, s))
            dims[o] = dims[s]
        elif op == "swap":
            s = r.randrange(4)
            lines.append("swap %d %d" % (o, s))
            dims[o], dims[s] = dims[s], dims[o]
        elif op == "closure":
            lines.append("closure %d" % o)
        elif op == "new":
            lines.append(new_obj(r, o, n))
        elif op == "obs":
            lines.append("obs %d %s" % (o, r.choice(["cgs", "mcgs", "gens", "mgens", "ok"])))
        elif op == "q":
            lines.append("q %d %s" % (o, r.choice(["is_empty", "is_universe", "is_discrete", "is_bounded"])))
        elif op == "q2":
            lines.append("q2 %d %d %s" % (o, r.choice(same), r.choice(["contains", "strictly_contains", "disjoint", "equals"])))
        elif op == "mapdims":
            if n == 0:
                continue
            lines.append("mapdims %d %s" % (o, " ".join(map(str, rand_pfunc(r, n)))))
            dims[o] = max(0, 1 + max(int(t) for t in lines[-1].split()[2:]))
        elif op == "rmdims":
            vs = sorted(r.sample(range(n), r.randint(0, n)))
            lines.append("rmdims %d %d %s" % (o, len(vs), " ".join(map(str, vs))))
            dims[o] = n - len(vs)
        elif op == "expand":
            if n == 0 or n >= 6:
                continue
            m = r.randint(1, min(2, 6 - n))
            lines.append("expand %d %d %d" % (o, r.randrange(n), m))
            dims[o] = n + m
        elif op == "fold":
            if n < 2:
                continue
            dest = r.randrange(n)
            others = [i for i in range(n) if i != dest]
            vs = sorted(r.sample(others, r.randint(1, min(2, len(others)))))
            lines.append("fold %d %d %d %s" % (o, dest, len(vs), " ".join(map(str, vs))))
            dims[o] = n - len(vs)
        elif op == "concat":
            ys = [y for y in range(4) if n + dims[y] <= 6]
            if not ys:
                continue
            y = r.choice(ys)
            lines.append("concat %d %d" % (o, y))
            dims[o] = n + dims[y]
        elif op == "unconstrain":
            if n == 0:
                continue
            lines.append("unconstrain %d %d" % (o, r.randrange(n)))
        elif op == "telapse":
            lines.append("telapse %d %d" % (o, r.choice(same)))
        elif op in ("gimage", "gpreimage"):
            if n == 0:
                continue
            a = [r.choice([0, 0, 1, -1, 2, -2]) for _ in range(n)] if not sparse else [x % 3 - 1 if x else 0 for x in _coeffs(r, n)]
            rel = r.choice(["eq"] * 6 + ["ge", "lt"])
            m = r.choice([0, 1, 2, 3, -2, 4]) if rel == "eq" else 0
            lines.append("%s %d %d %s %d %d %d %s" % (op, o, r.randrange(n), rel, r.randint(-3, 3),
                                                      r.choice([1, 1, -1, 2, 3, 0] if r.random() < 0.2 else [1, 1, -1, 2, 3]),
                                                      m, " ".join(map(str, a))))
        elif op == "freq":
            a = _coeffs(r, n) if r.random() < 0.8 else [0] * n
            lines.append("freq %d %d %s" % (o, r.choice([0, 0, 1, -2, 3, 5]), " ".join(map(str, a))))
        elif op == "relgen":
            lines.append("relgen %d %s" % (o, gen(r, n)))
        elif op == "rel":
            lines.append("rel %d %s" % (o, cg(r, n)))
    lines.append("end")
    return "\n".join(lines) + "\n"


# ---------------------------------------------------------------------------------------------------------------
# third stream: lazy-state x operator x query matrix
# ---------------------------------------------------------------------------------------------------------------
def bundle_gens(r, n, v):
    """Generators with several parameters / lines along coordinate v (collapse together under a non-invertible image of v)."""
    e = lambda k, c: [c if t == k else 0 for t in range(n)]
    gs = []
    for _ in range(r.randint(2, 3)):
        vec = e(v, r.choice([1, 2, 3, -2, 4]))
        if r.random() < 0.25 and n > 1:
            vec[r.choice([i for i in range(n) if i != v])] = r.choice([1, -1, 2])
        kind = r.choice("qql")
        gs.append("%s %d %s" % (kind, 1 if kind == "l" else r.choice(DIVS), " ".join(map(str, vec))))
    if r.random() < 0.5 and n > 1:
        w = r.choice([i for i in range(n) if i != v])
        gs.append("q %d %s" % (r.choice(DIVS), " ".join(map(str, e(w, r.choice([1, 2, 3]))))))
    pt = [r.choice([0, 0, 1, -1, 2]) for _ in range(n)]
    gs.append("p %d %s" % (r.choice(DIVS), " ".join(map(str, pt))))
    r.shuffle(gs)
    return gs


def matrix_case(r, cid):
    """object 0 is driven into a chosen lazy state, ONE operator is applied, and queries reading each description follow
    immediately (the judge also compares all four descriptions of every object after every step)."""
    global SPARSE, SUPPORT
    SPARSE, SUPPORT = False, None
    n = r.choice([1, 2, 2, 3, 3, 3, 4])
    v = r.randrange(n)
    L = ["case %s" % cid]
    inv_img = lambda: "image 0 %d %d %d %s" % (v, r.randint(-2, 2), r.choice([1, -1]),
                                               " ".join(str(r.choice([1, -1]) if i == v else r.choice([0, 0, 1])) for i in range(n)))
    drivers = [("cgs", []), ("cgs", ["obs 0 mcgs"]), ("cgs", ["obs 0 gens"]), ("cgs", ["obs 0 mgens"]),
               ("gens", []), ("gens", ["obs 0 mgens"]), ("gens", ["obs 0 cgs"]), ("gens", ["obs 0 mcgs"]),
               ("gens", ["obs 0 cgs", inv_img()]), ("cgs", ["obs 0 gens", inv_img()]),
               ("gens", ["q 0 is_empty"]), ("cgs", ["q 0 is_empty"])]
    kind, pre = r.choice(drivers)
    if kind == "cgs":
        cnt = r.randint(0, 3)
        L.append("new 0 dim %d cgs %d %s" % (n, cnt, " ".join(cg(r, n) for _ in range(cnt))))
    else:
        gs = bundle_gens(r, n, v) if r.random() < 0.6 else [gen(r, n, "p")] + [gen(r, n) for _ in range(r.randint(0, 3))]
        r.shuffle(gs)
        L.append("new 0 dim %d gens %d %s" % (n, len(gs), " ".join(gs)))
    L.append(new_obj(r, 1, n))
    L += pre
    dim0 = n
    expr = lambda var, noninv: " ".join(str(0 if (i == var and noninv) else r.choice([0, 0, 1, -1, 2])) for i in range(n))
    op = r.choice(["image", "image", "image", "preimage", "preimage", "gimage", "gpreimage", "embed", "project", "rmhigher",
                   "rmdims", "rmdims", "mapdims", "mapdims", "mapdims", "expand", "fold", "concat", "unconstrain", "telapse",
                   "join", "inters", "diff", "addcg", "addgen", "addgens", "copy"])
    var = v if r.random() < 0.6 else r.randrange(n)
    noninv = r.random() < 0.6
    if op in ("image", "preimage"):
        L.append("%s 0 %d %d %d %s" % (op, var, r.randint(-3, 3), r.choice([1, 1, -1, 2, 3]), expr(var, noninv)))
    elif op in ("gimage", "gpreimage"):
        L.append("%s 0 %d eq %d %d %d %s" % (op, var, r.randint(-3, 3), r.choice([1, 1, -1, 2, 3]), r.choice([0, 1, 2, 3]), expr(var, noninv)))
    elif op in ("embed", "project"):
        m = r.randint(1, 2); L.append("%s 0 %d" % (op, m)); dim0 = n + m
    elif op == "rmhigher":
        dim0 = r.randint(0, n); L.append("rmhigher 0 %d" % dim0)
    elif op == "rmdims":
        vs = sorted(set([v] if r.random() < 0.6 else []) | set(r.sample(range(n), r.randint(0, n - 1))))
        L.append("rmdims 0 %d %s" % (len(vs), " ".join(map(str, vs)))); dim0 = n - len(vs)
    elif op == "mapdims":
        m = rand_pfunc(r, n, full=(r.random() < 0.7)); L.append("mapdims 0 %s" % " ".join(map(str, m))); dim0 = max(0, 1 + max(m))
    elif op == "expand":
        m = r.randint(1, 2); L.append("expand 0 %d %d" % (var, m)); dim0 = n + m
    elif op == "fold":
        if n < 2:
            L.append("closure 0")
        else:
            others = [i for i in range(n) if i != var]
            vs = sorted(r.sample(others, r.randint(1, min(2, len(others)))))
            L.append("fold 0 %d %d %s" % (var, len(vs), " ".join(map(str, vs)))); dim0 = n - len(vs)
    elif op == "concat":
        L.append("concat 0 1"); dim0 = 2 * n
    elif op == "unconstrain":
        L.append("unconstrain 0 %d" % var)
    elif op in ("telapse", "join", "inters", "diff"):
        L.append("%s 0 1" % op)
    elif op == "addcg":
        L.append("addcg 0 %s" % cg(r, n))
    elif op == "addgen":
        L.append("addgen 0 %s" % gen(r, n))
    elif op == "addgens":
        k = r.randint(1, 3); L.append("addgens 0 %d %s" % (k, " ".join(gen(r, n) for _ in range(k))))
    elif op == "copy":
        L.append("copy 2 0")
    tgt = 2 if op == "copy" else 0
    qs = ["q %d is_bounded" % tgt, "q %d is_discrete" % tgt, "q %d is_universe" % tgt, "q %d is_empty" % tgt,
          "freq %d %d %s" % (tgt, r.choice([0, 1, -2, 3]), " ".join(str(r.choice([0, 1, -1, 2])) for _ in range(dim0))),
          "rel %d %s" % (tgt, cg(r, dim0)), "relgen %d %s" % (tgt, gen(r, dim0)),
          "obs %d gens" % tgt, "obs %d cgs" % tgt, "obs %d mgens" % tgt, "obs %d mcgs" % tgt, "obs %d ok" % tgt]
    if dim0 == n and tgt == 0:
        qs += ["q2 0 1 equals", "q2 0 1 contains", "q2 1 0 contains", "q2 0 1 disjoint", "q2 0 1 strictly_contains"]
    qs += ["q2 %d %d equals" % (tgt, tgt)]
    for q in r.sample(qs, 2):
        L.append(q)
    L.append("end")
    return "\n".join(L) + "\n"


# ---------------------------------------------------------------------------------------------------------------
# fourth stream: TWINS -- the same grid built by two routes, in every pair of lazy states, compared by every
# binary query, twice and in both argument orders
# ---------------------------------------------------------------------------------------------------------------
def _cg_tuple(r, n, eq_bias=0.5):
    a = [r.choice([0, 0, 1, -1, 2, -2, 3, 4]) for _ in range(n)]
    m = 0 if r.random() < eq_bias else r.choice([1, 2, 3, 4, 6])
    return [r.randint(-4, 4), m, a]


def _cg_str(c):
    return "%d %d %s" % (c[0], c[1], " ".join(map(str, c[2])))


def equivalent_cgs(r, C):
    """Another congruence system with the same solutions: congruences scaled, multiples of equalities added to the
    other rows (the minimal form of a system with equalities is not unique), shuffled, possibly with a repeated row."""
    D = [[c[0], c[1], list(c[2])] for c in C]
    for i, c in enumerate(D):
        if c[1] == 0 and r.random() < 0.7:
            for j, d in enumerate(D):
                if j != i and r.random() < 0.6:
                    t = r.choice([1, -1, 2, -2, 3])
                    d[0] += t * c[0]
                    d[2] = [x + t * y for x, y in zip(d[2], c[2])]
    for c in D:
        k = r.choice([1, 1, 2, -1, 3, -2]) if c[1] == 0 else r.choice([1, 1, 2, -1])
        c[0] *= k; c[1] *= abs(k); c[2] = [k * x for x in c[2]]
    if D and r.random() < 0.3:
        D.append([x if not isinstance(x, list) else list(x) for x in r.choice(D)])
    r.shuffle(D)
    return D


def _gen_tuple(r, n, kind):
    a = [r.choice([0, 0, 1, -1, 2, -2, 3]) for _ in range(n)]
    if kind == "l" and not any(a):
        a[r.randrange(n)] = 1
    return [kind, 1 if kind == "l" else r.choice(DIVS), a]


def _gen_str(g):
    return "%s %d %s" % (g[0], g[1], " ".join(map(str, g[2])))


def equivalent_gens(r, G):
    """Another generator system for the same grid: lines scaled and added to any row, unimodular combinations of
    parameters, points moved by parameters, an extra point of the grid, shuffled."""
    H = [[g[0], g[1], list(g[2])] for g in G]
    lines = [g for g in H if g[0] == "l"]
    pars = [g for g in H if g[0] == "q"]
    for l in lines:
        for g in H:
            if g is not l and r.random() < 0.4:
                t = r.choice([1, -1, 2])
                new = [x + t * y for x, y in zip(g[2], l[2])]
                if g[0] != "l" or any(new):          # a null line cannot be built
                    g[2] = new
    for l in lines:
        k = r.choice([1, 2, -1, 3])
        l[2] = [k * x for x in l[2]]
    for i, q in enumerate(pars):
        for g in H:
            if g is not q and g[0] != "l" and (g[0] == "p" or pars.index(g) > i) and r.random() < 0.4:
                t = r.choice([1, -1, 2])
                g[2] = [x * q[1] + t * y * g[1] for x, y in zip(g[2], q[2])]
                g[1] = g[1] * q[1]
    pts = [g for g in H if g[0] == "p"]
    if pars and pts and r.random() < 0.4:
        p, q = r.choice(pts), r.choice(pars)
        H.append(["p", p[1] * q[1], [x * q[1] + y * p[1] for x, y in zip(p[2], q[2])]])
    r.shuffle(H)
    return H


def state_driver(r, x, n):
    """Operations that leave the grid unchanged but move its lazy state / representation."""
    v = r.randrange(n) if n else 0
    rest = [0 if i == v else r.choice([0, 0, 1, -1, 2]) for i in range(n)]
    b = r.randint(-2, 2)
    fwd = " ".join(str(1 if i == v else rest[i]) for i in range(n))
    back = " ".join(str(1 if i == v else -rest[i]) for i in range(n))
    perm = list(range(n)); r.shuffle(perm)
    inv = [perm.index(i) for i in range(n)]
    D = [[], ["obs %d mcgs"], ["obs %d mgens"], ["obs %d cgs"], ["obs %d gens"], ["obs %d mcgs", "obs %d mgens"],
         ["obs %d mgens", "obs %d mcgs"], ["join %d %d"], ["inters %d %d"], ["obs %d mcgs", "join %d %d"],
         ["obs %d mgens", "inters %d %d"], ["obs %d mcgs", "inters %d %d"], ["q %d is_empty"], ["q %d is_universe"]]
    out = [l % ((x,) * l.count("%d")) for l in r.choice(D)]
    if n and r.random() < 0.25:
        out += ["image %d %d %d 1 %s" % (x, v, b, fwd), "image %d %d %d 1 %s" % (x, v, -b, back)]
    if n >= 2 and r.random() < 0.15:
        out += ["mapdims %d %s" % (x, " ".join(map(str, perm))), "mapdims %d %s" % (x, " ".join(map(str, inv)))]
    if r.random() < 0.1:
        out += ["embed %d 1" % x, "rmhigher %d %d" % (x, n)]
    if r.random() < 0.3:
        out += [l % ((x,) * l.count("%d")) for l in r.choice(D)]
    return out


def twins_case(r, cid):
    global SPARSE, SUPPORT
    SPARSE, SUPPORT = False, None
    n = r.choice([1, 2, 2, 3, 3, 4])
    L = ["case %s" % cid]
    route = r.random()
    if route < 0.2 and n >= 2:
        # equality focus: several equalities, rescaled and combined, both congruence systems minimized, generators
        # absent or not minimized (the congruence shortcut of operator== must not take a syntactic difference for inequality)
        C = [_cg_tuple(r, n, 0.9) for _ in range(r.randint(2, min(3, n)))]
        D = equivalent_cgs(r, C)
        L.append("new 0 dim %d cgs %d %s" % (n, len(C), " ".join(map(_cg_str, C))))
        L.append("new 1 dim %d cgs %d %s" % (n, len(D), " ".join(map(_cg_str, D))))
        for x in (0, 1):
            L += [l % ((x,) * l.count("%d")) for l in r.choice([["obs %d mcgs"], ["obs %d mcgs"], ["inters %d %d", "obs %d mcgs"],
                                                                ["obs %d mcgs", "obs %d mcgs"], ["q %d is_universe", "obs %d mcgs"]])]
        qs = ["q2 0 1 equals", "q2 1 0 equals", "q2 0 1 contains", "q2 1 0 contains", "q2 0 1 strictly_contains", "q2 0 1 disjoint"]
        first = ["q2 %d %d equals" % r.choice([(0, 1), (1, 0)])] + r.sample(qs, 3)
        L += first + first[:2] + ["end"]
        return "\n".join(L) + "\n"
    if route < 0.55:
        C = [_cg_tuple(r, n, 0.55) for _ in range(r.randint(1, min(4, n + 1)))]
        L.append("new 0 dim %d cgs %d %s" % (n, len(C), " ".join(map(_cg_str, C))))
        if r.random() < 0.75:
            D = equivalent_cgs(r, C)
            L.append("new 1 dim %d cgs %d %s" % (n, len(D), " ".join(map(_cg_str, D))))
        else:
            L.append("copy 1 0")
    elif route < 0.9:
        G = [_gen_tuple(r, n, "p")] + [_gen_tuple(r, n, r.choice("pqqql")) for _ in range(r.randint(0, 3))]
        L.append("new 0 dim %d gens %d %s" % (n, len(G), " ".join(map(_gen_str, G))))
        if r.random() < 0.75:
            H = equivalent_gens(r, G)
            L.append("new 1 dim %d gens %d %s" % (n, len(H), " ".join(map(_gen_str, H))))
        else:
            L.append("assign 1 0")
    else:
        L.append(new_obj(r, 0, n))
        L.append("copy 1 0")
    L += state_driver(r, 0, n)
    L += state_driver(r, 1, n)
    qs = []
    for what in ["equals", "contains", "strictly_contains", "disjoint"]:
        qs += ["q2 0 1 %s" % what, "q2 1 0 %s" % what]
    first = r.sample(qs, r.randint(3, 6))
    L += first
    L += first[:3]                     # asked twice (the first round may have moved the lazy states)
    L.append("end")
    return "\n".join(L) + "\n"


# ---------------------------------------------------------------------------------------------------------------
# fifth stream: generalized affine image / preimage with an EXPRESSION on the left (lhs = rhs mod m), every shape of
# overlap between the variables of the two sides (none; only the highest variable of lhs; only a lower one; all),
# constant lhs, zero / non-zero modulus, receivers in every lazy state
# ---------------------------------------------------------------------------------------------------------------
def lhs_case(r, cid):
    global SPARSE, SUPPORT
    SPARSE, SUPPORT = False, None
    n = r.choice([1, 2, 2, 3, 3, 4])
    L = ["case %s" % cid, new_obj(r, 0, n)]
    if r.random() < 0.3:                         # non-empty receiver with a few generators (most shapes of interest)
        G = [_gen_tuple(r, n, "p")] + [_gen_tuple(r, n, r.choice("pqql")) for _ in range(r.randint(0, 3))]
        L[-1] = "new 0 dim %d gens %d %s" % (n, len(G), " ".join(map(_gen_str, G)))
    L += state_driver(r, 0, n)
    for _ in range(r.randint(1, 2)):
        k = r.randint(0, min(2, n)) if r.random() < 0.9 else 0
        lv = sorted(r.sample(range(n), k))
        la = [0] * n
        for v in lv:
            la[v] = r.choice([1, 1, -1, 2, 3, -2])
        ra = [0] * n
        shape = r.choice(["none", "highest", "lower", "all", "random"])
        others = [i for i in range(n) if i not in lv]
        if shape == "random":
            ra = [r.choice([0, 0, 1, -1, 2, -2]) for _ in range(n)]
        else:
            for i in others:
                if r.random() < 0.5:
                    ra[i] = r.choice([1, -1, 2, 3])
            if lv:
                if shape == "highest":
                    ra[lv[-1]] = r.choice([1, 1, -1, 2])
                elif shape == "lower":
                    ra[lv[0]] = r.choice([1, 1, -1, 2])
                    if len(lv) > 1:
                        ra[lv[-1]] = 0
                elif shape == "all":
                    for v in lv:
                        ra[v] = r.choice([1, -1, 2, 3])
        rel = r.choice(["eq"] * 8 + ["ge", "lt"])
        # (rel != eq with a non-zero modulus is a rejected call; whether it is rejected on an empty receiver too is
        #  C14's business, not generated here)
        m = r.choice([0, 0, 1, 2, 3, -2, 4]) if rel == "eq" else 0
        op = r.choice(["gimagel", "gpreimagel"])
        L.append("%s 0 %s %d %d %s %d %s" % (op, rel, m, r.randint(-3, 3), " ".join(map(str, la)),
                                             r.randint(-3, 3), " ".join(map(str, ra))))
        L.append("obs 0 %s" % r.choice(["cgs", "mcgs", "gens", "mgens"]))
    L.append("q 0 %s" % r.choice(["is_empty", "is_universe", "is_discrete", "is_bounded"]))
    L.append("end")
    return "\n".join(L) + "\n"


# ---------------------------------------------------------------------------------------------------------------
# sixth stream: assignment / copy / swap INTO A LIVE TARGET of the same dimension whose own descriptions have been
# minimized in a different shape, from a source in every lazy state; then the description that was NOT up to date in
# the source is requested from the target (stale per-dimension kinds, stale flags)
# ---------------------------------------------------------------------------------------------------------------
def assign_case(r, cid):
    global SPARSE, SUPPORT
    SPARSE, SUPPORT = False, None
    n = r.choice([1, 2, 2, 3, 3, 4])
    L = ["case %s" % cid]
    for o in (0, 1):
        if r.random() < 0.6:
            G = [_gen_tuple(r, n, "p")] + [_gen_tuple(r, n, r.choice("pqqll")) for _ in range(r.randint(0, 3))]
            L.append("new %d dim %d gens %d %s" % (o, n, len(G), " ".join(map(_gen_str, G))))
        else:
            L.append(new_obj(r, o, n))
    # the target: both descriptions minimized (or whatever the driver leaves)
    L += r.choice([["obs 1 mcgs", "obs 1 mgens"], ["obs 1 mgens", "obs 1 mcgs"], ["obs 1 mgens"], ["obs 1 mcgs"]] + [state_driver(r, 1, n)])
    # the source: one description only
    src = r.choice([["obs 0 mgens"], ["obs 0 mcgs"], ["obs 0 gens"], ["obs 0 cgs"], [],
                    ["embed 0 1", "obs 0 mgens", "rmhigher 0 %d" % n], ["embed 0 1", "obs 0 mcgs", "rmhigher 0 %d" % n],
                    ["addgen 0 %s" % gen(r, n), "obs 0 mgens"], ["addcg 0 %s" % cg(r, n), "obs 0 mcgs"]]
                   + [state_driver(r, 0, n)])
    L += src
    L.append(r.choice(["assign 1 0", "assign 1 0", "assign 1 0", "swap 1 0", "copy 1 0"]))
    after = [["obs 1 cgs"], ["obs 1 mcgs"], ["obs 1 gens"], ["obs 1 mgens"], ["q 1 is_universe"], ["q 1 is_discrete"],
             ["q2 0 1 equals"], ["q2 1 0 contains"], ["rel 1 %s" % cg(r, n)], ["relgen 1 %s" % gen(r, n)],
             ["addcg 1 %s" % cg(r, n), "obs 1 mgens"], ["addgen 1 %s" % gen(r, n), "obs 1 mcgs"], ["inters 1 0"], ["join 1 0"]]
    for _ in range(r.randint(2, 4)):
        L += r.choice(after)
    L += ["obs 1 mcgs", "obs 1 mgens", "obs 0 mcgs", "end"]
    return "\n".join(L) + "\n"
