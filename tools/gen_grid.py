"""C05: generator of histories over a pool of 4 Grid objects (text format read by harness/run_grid.cc).

Every random choice comes from the `random.Random` passed in.  The generator tracks only the space
dimension of each pool object (needed to produce dimension-compatible arguments); everything else
is decided by the implementation and mirrored by the judge."""
import random

MODULI = [0, 1, 2, 3, 4, 6]
DIVS = [1, 1, 2, 3]


def cg(r, n, small=False):
    a = [r.choice([0, 0, 1, -1, 2, -2, 3, -3, 4, -4]) for _ in range(n)]
    b = r.randint(-4, 4)
    m = r.choice(MODULI)
    return "%d %d %s" % (b, m, " ".join(map(str, a)))


def gen(r, n, kind=None):
    kind = kind or r.choice("ppqql")
    a = [r.choice([0, 0, 1, -1, 2, -2, 3, -3, 4, -4]) for _ in range(n)]
    if kind == "l":
        if n == 0:
            kind = "q"
        elif not any(a):
            a[r.randrange(n)] = r.choice([1, -1, 2])
    d = 1 if kind == "l" else r.choice(DIVS)
    return "%s %d %s" % (kind, d, " ".join(map(str, a)))


def new_obj(r, o, n):
    k = r.random()
    if k < 0.08:
        return "new %d dim %d universe" % (o, n)
    if k < 0.14:
        return "new %d dim %d empty" % (o, n)
    if k < 0.57:
        cnt = r.randint(0, 3 if n else 1)
        return "new %d dim %d cgs %d %s" % (o, n, cnt, " ".join(cg(r, n) for _ in range(cnt)))
    cnt = r.randint(1, 4)
    gs = [gen(r, n, "p")] + [gen(r, n) for _ in range(cnt - 1)]
    r.shuffle(gs)
    return "new %d dim %d gens %d %s" % (o, n, cnt, " ".join(gs))


OPS = [("addcg", 10), ("refcg", 2), ("addcgs", 4), ("addgen", 10), ("addgens", 3), ("inters", 7), ("join", 7),
       ("image", 7), ("preimage", 7), ("embed", 2), ("project", 2), ("rmhigher", 3), ("copy", 4), ("assign", 3),
       ("swap", 1), ("closure", 1), ("new", 3),
       ("obs", 14), ("q", 10), ("q2", 12), ("rel", 10)]


def history(r, cid, maxdim=3, nsteps=None):
    n0 = r.choice([0, 1, 1, 2, 2, 2, 3, 3][: (2 + 2 * maxdim)]) if maxdim < 3 else r.choice([0, 1, 1, 2, 2, 2, 3, 3])
    n0 = min(n0, maxdim)
    dims = [0, 0, 0, 0]
    lines = ["case %s" % cid]
    for o in range(4):
        lines.append(new_obj(r, o, n0))
        dims[o] = n0
    steps = nsteps or r.randint(4, 12)
    names = [x for x, _ in OPS]
    weights = [w for _, w in OPS]
    for _ in range(steps):
        op = r.choices(names, weights)[0]
        o = r.randrange(4)
        n = dims[o]
        same = [y for y in range(4) if dims[y] == n]
        if op in ("addcg", "refcg"):
            lines.append("%s %d %s" % (op, o, cg(r, n)))
        elif op == "addcgs":
            k = r.randint(0, 3)
            lines.append("addcgs %d %d %s" % (o, k, " ".join(cg(r, n) for _ in range(k))))
        elif op == "addgen":
            lines.append("addgen %d %s" % (o, gen(r, n)))
        elif op == "addgens":
            k = r.randint(0, 3)
            lines.append("addgens %d %d %s" % (o, k, " ".join(gen(r, n) for _ in range(k))))
        elif op in ("inters", "join"):
            lines.append("%s %d %d" % (op, o, r.choice(same)))
        elif op in ("image", "preimage"):
            if n == 0:
                continue
            a = [r.choice([0, 0, 1, -1, 2, -2]) for _ in range(n)]
            lines.append("%s %d %d %d %d %s" % (op, o, r.randrange(n), r.randint(-3, 3),
                                                r.choice([1, 1, 1, -1, 2, 3, -2, 0] if r.random() < 0.3 else [1, 1, -1, 2, 3]),
                                                " ".join(map(str, a))))
        elif op in ("embed", "project"):
            if n >= maxdim:
                continue
            m = r.randint(1, maxdim - n)
            lines.append("%s %d %d" % (op, o, m))
            dims[o] = n + m
        elif op == "rmhigher":
            m = r.randint(0, n)
            lines.append("rmhigher %d %d" % (o, m))
            dims[o] = m
        elif op in ("copy", "assign"):
            s = r.randrange(4)
            lines.append("%s %d %d" % (op, o, s))
            dims[o] = dims[s]
        elif op == "swap":
            s = r.randrange(4)
            lines.append("swap %d %d" % (o, s))
            dims[o], dims[s] = dims[s], dims[o]
        elif op == "closure":
            lines.append("closure %d" % o)
        elif op == "new":
            lines.append(new_obj(r, o, n))
        elif op == "obs":
            lines.append("obs %d %s" % (o, r.choice(["cgs", "mcgs", "gens", "mgens", "ok"])))
        elif op == "q":
            lines.append("q %d %s" % (o, r.choice(["is_empty", "is_universe", "is_discrete", "is_bounded"])))
        elif op == "q2":
            lines.append("q2 %d %d %s" % (o, r.choice(same), r.choice(["contains", "strictly_contains", "disjoint", "equals"])))
        elif op == "rel":
            lines.append("rel %d %s" % (o, cg(r, n)))
    lines.append("end")
    return "\n".join(lines) + "\n"
