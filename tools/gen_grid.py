"""C05: generator of histories over a pool of 4 Grid objects (text format read by harness/run_grid.cc).

Every random choice comes from the `random.Random` passed in.  The generator tracks only the space
dimension of each pool object (needed to produce dimension-compatible arguments); everything else
is decided by the implementation and mirrored by the judge."""
import random

MODULI = [0, 1, 2, 3, 4, 6]
DIVS = [1, 1, 2, 3]


def cg(r, n, small=False):
    a = _coeffs(r, n)
    b = r.randint(-4, 4)
    m = r.choice(MODULI)
    return "%d %d %s" % (b, m, " ".join(map(str, a)))


def gen(r, n, kind=None):
    kind = kind or r.choice("ppqql")
    a = _coeffs(r, n)
    if kind == "l":
        if n == 0:
            kind = "q"
        elif not any(a):
            a[r.randrange(n)] = r.choice([1, -1, 2])
    d = 1 if kind == "l" else r.choice(DIVS)
    return "%s %d %s" % (kind, d, " ".join(map(str, a)))


SPARSE = False      # set per history: vectors touch 1-2 coordinates only
SUPPORT = None      # sparse stream: coordinates the vectors of the object being built may touch (others stay virtual)


def _coeffs(r, n):
    if not SPARSE:
        return [r.choice([0, 0, 1, -1, 2, -2, 3, -3, 4, -4]) for _ in range(n)]
    a = [0] * n
    if n:
        pool = [i for i in SUPPORT if i < n] if SUPPORT else list(range(n))
        if not pool:
            pool = list(range(n))
        for i in r.sample(pool, min(len(pool), r.choice([1, 1, 2]))):
            a[i] = r.choice([1, -1, 2, -2, 3, 5, 4, -3])
    return a


def new_obj(r, o, n):
    global SUPPORT
    SUPPORT = None
    if SPARSE and n >= 3 and r.random() < 0.7:
        SUPPORT = sorted(r.sample(range(n), r.choice([2, 3])))
    try:
        return _new_obj(r, o, n)
    finally:
        SUPPORT = None


def gappy_gens(r, n):
    """Generator system aimed at the case split of Grid::reduce_reduced / simplify over VIRTUAL dimensions:
    a line (or parameter) with leading coordinate i that also has an entry in column j, whose own row is a
    parameter, with at least two untouched (virtual) coordinates in between; entries larger than the pivot."""
    i = r.randint(0, n - 4)
    j = r.randint(i + 3, n - 1)
    e = lambda k, c: [c if t == k else 0 for t in range(n)]
    add = lambda u, v: [x + y for x, y in zip(u, v)]
    gs = []
    top = add(e(i, r.choice([1, 1, 2, -1])), e(j, r.choice([2, 3, 4, 5, 7, -2, -5])))
    gs.append("%s %d %s" % (r.choice(["l", "l", "q"]), 1, " ".join(map(str, top))))
    gs.append("q %d %s" % (r.choice([1, 1, 2]), " ".join(map(str, e(j, r.choice([2, 3, 4]))))))
    if r.random() < 0.6:
        gs.append("q %d %s" % (r.choice([1, 2, 3]), " ".join(map(str, e(i + 1, r.choice([1, 2, 3]))))))
    if r.random() < 0.3:
        gs.append("l 1 %s" % " ".join(map(str, e(r.choice([i + 2, j - 1]), 1))))
    pt = [0] * n
    if r.random() < 0.5:
        pt[r.randrange(n)] = r.choice([1, -1, 2])
    gs.append("p %d %s" % (r.choice(DIVS), " ".join(map(str, pt))))
    r.shuffle(gs)
    return gs


def _new_obj(r, o, n):
    if SPARSE and n >= 4 and r.random() < 0.3:
        gs = gappy_gens(r, n)
        return "new %d dim %d gens %d %s" % (o, n, len(gs), " ".join(gs))
    k = r.random()
    if k < 0.08:
        return "new %d dim %d universe" % (o, n)
    if k < 0.14:
        return "new %d dim %d empty" % (o, n)
    if k < 0.57:
        cnt = r.randint(0, 3 if n else 1)
        return "new %d dim %d cgs %d %s" % (o, n, cnt, " ".join(cg(r, n) for _ in range(cnt)))
    cnt = r.randint(1, 4)
    gs = [gen(r, n, "p")] + [gen(r, n) for _ in range(cnt - 1)]
    r.shuffle(gs)
    return "new %d dim %d gens %d %s" % (o, n, cnt, " ".join(gs))


OPS = [("addcg", 10), ("refcg", 2), ("addcgs", 4), ("addgen", 10), ("addgens", 3), ("inters", 7), ("join", 7),
       ("image", 7), ("preimage", 7), ("embed", 2), ("project", 2), ("rmhigher", 3), ("copy", 4), ("assign", 3),
       ("swap", 1), ("closure", 1), ("new", 3),
       ("unconstrain", 2), ("telapse", 3), ("diff", 5), ("gimage", 4), ("gpreimage", 4),
       ("obs", 14), ("q", 10), ("q2", 12), ("rel", 10), ("freq", 9), ("relgen", 5)]


def history(r, cid, maxdim=3, nsteps=None, sparse=False):
    """sparse=True: the higher-dimensional stream (dimension 4..maxdim, every vector touches 1-2 coordinates, so
    that several dimensions are virtual in the reduced forms)."""
    global SPARSE
    SPARSE = sparse
    if sparse:
        n0 = r.randint(4, maxdim)
    else:
        n0 = r.choice([0, 1, 1, 2, 2, 2, 3, 3][: (2 + 2 * maxdim)]) if maxdim < 3 else r.choice([0, 1, 1, 2, 2, 2, 3, 3])
        n0 = min(n0, maxdim)
    dims = [0, 0, 0, 0]
    lines = ["case %s" % cid]
    for o in range(4):
        lines.append(new_obj(r, o, n0))
        dims[o] = n0
    steps = nsteps or (r.randint(3, 8) if sparse else r.randint(4, 12))
    names = [x for x, _ in OPS]
    weights = [w for _, w in OPS]
    for _ in range(steps):
        op = r.choices(names, weights)[0]
        o = r.randrange(4)
        n = dims[o]
        same = [y for y in range(4) if dims[y] == n]
        if op in ("addcg", "refcg"):
            lines.append("%s %d %s" % (op, o, cg(r, n)))
        elif op == "addcgs":
            k = r.randint(0, 3)
            lines.append("addcgs %d %d %s" % (o, k, " ".join(cg(r, n) for _ in range(k))))
        elif op == "addgen":
            lines.append("addgen %d %s" % (o, gen(r, n)))
        elif op == "addgens":
            k = r.randint(0, 3)
            lines.append("addgens %d %d %s" % (o, k, " ".join(gen(r, n) for _ in range(k))))
        elif op in ("inters", "join", "diff"):
            lines.append("%s %d %d" % (op, o, r.choice(same)))
        elif op in ("image", "preimage"):
            if n == 0:
                continue
            a = [r.choice([0, 0, 1, -1, 2, -2]) for _ in range(n)] if not sparse else [x % 3 - 1 if x else 0 for x in _coeffs(r, n)]
            lines.append("%s %d %d %d %d %s" % (op, o, r.randrange(n), r.randint(-3, 3),
                                                r.choice([1, 1, 1, -1, 2, 3, -2, 0] if r.random() < 0.3 else [1, 1, -1, 2, 3]),
                                                " ".join(map(str, a))))
        elif op in ("embed", "project"):
            if n >= maxdim:
                continue
            m = r.randint(1, maxdim - n)
            lines.append("%s %d %d" % (op, o, m))
            dims[o] = n + m
        elif op == "rmhigher":
            m = r.randint(0, n)
            lines.append("rmhigher %d %d" % (o, m))
            dims[o] = m
        elif op in ("copy", "assign"):
            s = r.randrange(4)
            lines.append("%s %d %d" % (op, o, s))
            dims[o] = dims[s]
        elif op == "swap":
            s = r.randrange(4)
            lines.append("swap %d %d" % (o, s))
            dims[o], dims[s] = dims[s], dims[o]
        elif op == "closure":
            lines.append("closure %d" % o)
        elif op == "new":
            lines.append(new_obj(r, o, n))
        elif op == "obs":
            lines.append("obs %d %s" % (o, r.choice(["cgs", "mcgs", "gens", "mgens", "ok"])))
        elif op == "q":
            lines.append("q %d %s" % (o, r.choice(["is_empty", "is_universe", "is_discrete", "is_bounded"])))
        elif op == "q2":
            lines.append("q2 %d %d %s" % (o, r.choice(same), r.choice(["contains", "strictly_contains", "disjoint", "equals"])))
        elif op == "unconstrain":
            if n == 0:
                continue
            lines.append("unconstrain %d %d" % (o, r.randrange(n)))
        elif op == "telapse":
            lines.append("telapse %d %d" % (o, r.choice(same)))
        elif op in ("gimage", "gpreimage"):
            if n == 0:
                continue
            a = [r.choice([0, 0, 1, -1, 2, -2]) for _ in range(n)] if not sparse else [x % 3 - 1 if x else 0 for x in _coeffs(r, n)]
            rel = r.choice(["eq"] * 6 + ["ge", "lt"])
            m = r.choice([0, 1, 2, 3, -2, 4]) if rel == "eq" else 0
            lines.append("%s %d %d %s %d %d %d %s" % (op, o, r.randrange(n), rel, r.randint(-3, 3),
                                                      r.choice([1, 1, -1, 2, 3, 0] if r.random() < 0.2 else [1, 1, -1, 2, 3]),
                                                      m, " ".join(map(str, a))))
        elif op == "freq":
            a = _coeffs(r, n) if r.random() < 0.8 else [0] * n
            lines.append("freq %d %d %s" % (o, r.choice([0, 0, 1, -2, 3, 5]), " ".join(map(str, a))))
        elif op == "relgen":
            lines.append("relgen %d %s" % (o, gen(r, n)))
        elif op == "rel":
            lines.append("rel %d %s" % (o, cg(r, n)))
    lines.append("end")
    return "\n".join(lines) + "\n"
