#!/usr/bin/env python3
"""MANIFEST.setup_cmd: build the framework from files on disk (offline): the PPL library cache for the
current tree, the whole Coq development (full .vo), extractions and OCaml drivers (built lazily by checks too)."""
import os, sys, glob, time
sys.path.insert(0, os.path.dirname(os.path.abspath(__file__)))
import common
t0 = time.time()
common.build_lib("mpz")
print("library built %.1fs" % (time.time() - t0), flush=True)
common.coq_makefile()
vs = [l.strip() for l in open(os.path.join(common.COQ, "_CoqProject")) if l.strip().endswith(".v")]
vs = [v for v in vs if not v.startswith("gen/")]
ok, out = common.coq_make([v[:-2] + ".vo" for v in vs], timeout=7200)
print(out[-3000:])
print("coq build %s in %.1fs" % ("ok" if ok else "FAILED (checks will report it per property)", time.time() - t0), flush=True)
sys.exit(0)
