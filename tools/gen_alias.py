"""Generator of C13 histories (case language of harness/run_alias.cc, judged by ocaml/judge_alias.ml).

One domain per case, a pool of 4 objects (ids 0-3) plus short-lived twins (ids 10-12).  Every binary /
ternary operation and every binary query is emitted as a PAIR:

    copy 10 X ; copy 11 Y [; copy 12 Z]     fresh copies of receiver and arguments
    op 10 f 11 [12]                          the call with nothing aliased
    op X f Y [Z]                             the call as chosen (X, Y, Z may coincide in every pattern)
    eqres ; eq X 10                          same result / exception, same value AS A SET

and the twins stay alive (as older copies that must not move) until the next pair needs the ids.
Every random choice derives from one random.Random(seed).  The generator tracks only dimensions."""
import random

POOL = 4
BIN_COMMON = ["intersection_assign", "upper_bound_assign", "difference_assign", "time_elapse_assign",
              "concatenate_assign", "upper_bound_assign_if_exact"]
QRY_COMMON = ["contains", "strictly_contains", "is_disjoint_from", "equals", "differs"]
UN_COMMON = ["refine_with_constraint", "refine_with_constraints", "affine_image", "affine_preimage", "generalized_affine_image",
             "unconstrain", "add_space_dimensions_and_embed", "add_space_dimensions_and_project", "remove_higher_space_dimensions",
             "remove_space_dimensions", "topological_closure_assign"]
OBS_COMMON = ["is_empty", "is_universe", "is_bounded", "is_topologically_closed", "affine_dimension", "OK"]

# binary operations: name -> (precondition, extra)   precondition: None | "sub" (y inside x) | "sup" (x inside y)
POLY_BIN = {"poly_hull_assign": None, "poly_difference_assign": None, "H79_widening_assign": "sub", "BHRZ03_widening_assign": "sub",
            "widening_assign": "sub", "H79_widening_assign_tp": "sub", "BHRZ03_widening_assign_tp": "sub",
            "simplify_using_context_assign": None, "positive_time_elapse_assign": None,
            "add_constraints_of": None, "refine_with_constraints_of": None, "add_generators_of": None, "add_congruences_of": None,
            "add_constraint_first_of": None, "add_generator_first_of": None,
            "limited_H79_extrapolation_assign_of": "sub", "limited_BHRZ03_extrapolation_assign_of": "sub",
            "bounded_H79_extrapolation_assign_of": "sub", "bounded_BHRZ03_extrapolation_assign_of": "sub"}
GRID_BIN = {"widening_assign": "sub", "congruence_widening_assign": "sub", "generator_widening_assign": "sub",
            "simplify_using_context_assign": None, "add_congruences_of": None, "refine_with_congruences_of": None,
            "add_constraints_of": None, "add_congruence_first_of": None, "add_grid_generator_first_of": None,
            "add_grid_generators_of": None,
            "limited_extrapolation_assign_of": "sub", "limited_congruence_extrapolation_assign_of": "sub",
            "limited_generator_extrapolation_assign_of": "sub"}
BDS_BIN = {"widening_assign": "sub", "BHMZ05_widening_assign": "sub", "CC76_extrapolation_assign": "sub", "H79_widening_assign": "sub",
           "CC76_narrowing_assign": "sup", "simplify_using_context_assign": None, "add_constraints_of": None,
           "refine_with_constraints_of": None, "limited_BHMZ05_extrapolation_assign_of": "sub",
           "limited_CC76_extrapolation_assign_of": "sub", "limited_H79_extrapolation_assign_of": "sub"}
OCT_BIN = {k: v for k, v in BDS_BIN.items() if "H79" not in k}
BOX_BIN = {"widening_assign": "sub", "CC76_widening_assign": "sub", "CC76_narrowing_assign": "sup", "simplify_using_context_assign": None,
           "add_constraints_of": None, "refine_with_constraints_of": None, "limited_CC76_extrapolation_assign_of": "sub"}
PS_BIN = {"simplify_using_context_assign": None, "least_upper_bound_assign": None, "meet_assign": None,
          "BGP99_extrapolation_assign": "sub", "BHZ03_widening_assign": "sub", "add_disjunct_first_of": None, "add_disjunct_last_of": None}
# powerset operations whose result is a function of the two SETS OF DISJUNCTS (lifted disjunct-wise or defined on the
# collections): these are also compared with the same call on deep, unshared rebuilds of both operands
PS_DEEP = {"intersection_assign", "upper_bound_assign", "difference_assign", "time_elapse_assign", "concatenate_assign",
           "upper_bound_assign_if_exact", "least_upper_bound_assign", "meet_assign", "BGP99_extrapolation_assign", "BHZ03_widening_assign"}
PROD_BIN = {"widening_assign": "sub", "add_constraints_of": None, "refine_with_constraints_of": None}

DOMS = {
    "C": dict(bin=POLY_BIN, qry=[], un=["add_constraint", "add_constraints", "add_generator", "add_generators", "add_recycled_constraints", "add_recycled_generators"],
              obs=["constraints", "minimized_constraints", "generators", "minimized_generators", "congruences", "minimized_congruences", "is_discrete"]),
    "NNC": dict(bin=POLY_BIN, qry=[], un=["add_constraint", "add_constraints", "add_generator", "add_generators", "add_recycled_constraints", "add_recycled_generators"],
                obs=["constraints", "minimized_constraints", "generators", "minimized_generators", "congruences", "minimized_congruences", "is_discrete"]),
    "Grid": dict(bin=GRID_BIN, qry=[], un=["add_congruence", "add_congruences", "add_grid_generator"],
                 obs=["constraints", "minimized_constraints", "congruences", "minimized_congruences", "grid_generators", "minimized_grid_generators"]),
    "BDS": dict(bin=BDS_BIN, qry=[], un=[], obs=["constraints", "minimized_constraints", "congruences", "minimized_congruences"]),
    "Oct": dict(bin=OCT_BIN, qry=[], un=[], obs=["constraints", "minimized_constraints", "congruences", "minimized_congruences"]),
    "Box": dict(bin=BOX_BIN, qry=[], un=[], obs=["constraints", "minimized_constraints", "congruences", "minimized_congruences"]),
    "PS": dict(bin=PS_BIN, qry=["geometrically_covers", "geometrically_equals", "definitely_entails"],
               un=["add_disjunct", "add_disjunct", "add_constraint", "pairwise_reduce", "omega_reduce", "collapse", "drop_first_disjunct"],
               obs=["omega_reduce", "size", "is_omega_reduced"]),
    "Prod": dict(bin=PROD_BIN, qry=[], un=[], obs=["constraints", "minimized_constraints", "reduce"]),
}
# operations left out per domain, with the reason (kept here so that the evidence can list them)
EXCLUDED = {
    "Grid": {"remove_higher_space_dimensions": "known C05 defect (minimized-generators branch) makes the receiver wrong/not OK; not an aliasing matter",
             "generalized_affine_image": "Grid has a different signature (modulus)"},
    "BDS/Oct/Box": {"limited_*_extrapolation_assign(y, cs) with a constraint without variables in cs":
                    "BD_Shape::get_limiting_shape (BD_Shape_templates.hh:3164) divides by the zero coefficient of such a row (crash, independent of aliasing); the harness drops such rows from cs"},
}


SWEEP_CONFIGS = ["plain", "empty-meet", "y-empty", "x-empty", "empty-meet"]


class Gen:
    def __init__(self, seed, maxdim=3, big=0.06):
        self.r = random.Random(seed)
        self.maxdim = maxdim
        self.big = big

    # ---- literals ----
    def coef(self, lo=-3, hi=3):
        r = self.r
        if r.random() < self.big:
            return r.choice([-1, 1]) * r.choice([2**31 + 1, 2**40 + 3, 10**12 + 7, 2**64 + 13])
        return r.randint(lo, hi)

    def vec(self, n, nz=True, sparse=0.35):
        while True:
            v = [0 if self.r.random() < sparse else self.coef() for _ in range(n)]
            if not nz or n == 0 or any(v):
                return v

    def con(self, n, dom):
        r = self.r
        k = r.random()
        strict_ok = dom in ("NNC", "Box", "CSN")
        kind = "=" if k < 0.15 else (">" if (k < 0.35 and strict_ok) else ">=")
        if dom in ("BDS", "Oct", "Box", "Prod") and n > 0 and r.random() < 0.8:
            # mostly constraints the weakly relational domains can represent
            v = [0] * n
            i = r.randrange(n); v[i] = r.choice([-1, 1])
            if dom != "Box" and n > 1 and r.random() < 0.6:
                j = r.choice([t for t in range(n) if t != i])
                v[j] = -v[i] if (dom == "BDS" or r.random() < 0.5) else v[i]
            if dom == "Prod" and r.random() < 0.4:
                v = self.vec(n)
        else:
            v = self.vec(n, nz=(r.random() < 0.95))
        b = self.coef(-4, 6)
        return ("%s %d %s" % (kind, b, " ".join(map(str, v)))).strip()

    def cons(self, n, dom, lo=1, hi=4):
        k = self.r.randint(lo, hi)
        return "%d %s" % (k, " ".join(self.con(n, dom) for _ in range(k)))

    def gen(self, n, dom, kind=None):
        r = self.r
        if kind is None:
            kind = r.choice("pppprrl" + ("cc" if dom in ("NNC", "GSN") else ""))
        if n == 0 and kind in "rl": kind = "p"
        if kind in "pc":
            d = r.choice([1, 1, 1, 2, 3]); v = [self.coef() for _ in range(n)]
        else:
            d = 1; v = self.vec(n, nz=True, sparse=0.3)
        return ("%s %d %s" % (kind, d, " ".join(map(str, v)))).strip()

    def gens(self, n, dom, lo=1, hi=4):
        k = self.r.randint(lo, hi)
        gs = [self.gen(n, dom, "p")] + [self.gen(n, dom) for _ in range(k - 1)]
        if self.r.random() < 0.5: self.r.shuffle(gs)
        return "%d %s" % (k, " ".join(gs))

    def cg(self, n):
        # m b a..  (read_cg of vh_common.hh)
        r = self.r
        return ("%d %d %s" % (r.choice([0, 1, 2, 2, 3, 4, 6]), self.coef(-3, 3), " ".join(map(str, self.vec(n, nz=(r.random() < 0.9)))))).strip()

    def cgs(self, n, lo=1, hi=3):
        k = self.r.randint(lo, hi)
        return "%d %s" % (k, " ".join(self.cg(n) for _ in range(k)))

    def ggen(self, n, kind=None):
        r = self.r
        kind = kind or r.choice("ppqqql")
        if n == 0: kind = "p"
        if kind == "l": return ("l 1 %s" % " ".join(map(str, self.vec(n, nz=True)))).strip()
        d = r.choice([1, 1, 2, 3])
        v = [self.coef() for _ in range(n)] if kind == "p" else self.vec(n, nz=True)
        return ("%s %d %s" % (kind, d, " ".join(map(str, v)))).strip()

    def expr(self, n):
        v = self.vec(n, nz=False, sparse=0.3)
        return ("%d %d %s" % (n, self.coef(-4, 4), " ".join(map(str, v)))).strip()

    def den(self):
        return self.r.choice([1, 1, 1, 2, 3, -1, -2])

    # ---- semantic domains ----
    def boxcons(self, n):
        """a bounded box lo_i <= x_i <= hi_i, mostly NOT containing the origin (its time-elapse with itself enlarges it)"""
        r = self.r
        cs = []
        for i in range(n):
            lo = r.randint(-4, 3); hi = lo + r.randint(0, 2)
            e = [0] * n; e[i] = 1
            cs.append(">= %d %s" % (-lo, " ".join(map(str, e))))
            e[i] = -1
            cs.append(">= %d %s" % (hi, " ".join(map(str, e))))
        return "%d %s" % (len(cs), " ".join(cs))

    def new(self, oid, dom, n):
        r = self.r
        how = r.random()
        if dom == "PS" and n > 0 and how > 0.6: return "new %d %d cons %s" % (oid, n, self.boxcons(n))
        if how < 0.07: return "new %d %d universe" % (oid, n)
        if how < 0.14: return "new %d %d empty" % (oid, n)
        if dom in ("C", "NNC") and how < 0.5: return "new %d %d gens %s" % (oid, n, self.gens(n, dom))
        if dom == "Grid":
            if how < 0.5:
                k = r.randint(1, 3)
                gs = [self.ggen(n, "p")] + [self.ggen(n) for _ in range(k - 1)]
                return "new %d %d ggens %d %s" % (oid, n, k, " ".join(gs))
            return "new %d %d cgs %s" % (oid, n, self.cgs(n))
        return "new %d %d cons %s" % (oid, n, self.cons(n, dom))

    def unary(self, x, dom, dims):
        r = self.r
        n = dims[x]
        excl = EXCLUDED.get(dom, {})
        cands = [o for o in UN_COMMON if o not in excl] + DOMS[dom]["un"] * 2
        if n == 0: cands = [o for o in cands if o not in ("affine_image", "affine_preimage", "generalized_affine_image", "unconstrain", "remove_space_dimensions")]
        op = r.choice(cands)
        p = "op %d %s" % (x, op)
        if op in ("refine_with_constraint", "add_constraint"): return "%s %s" % (p, self.con(n, dom))
        if op in ("refine_with_constraints", "add_constraints", "add_recycled_constraints"): return "%s %s" % (p, self.cons(n, dom, 1, 3))
        if op == "add_disjunct": return "%s %s" % (p, self.boxcons(n) if (n > 0 and r.random() < 0.4) else self.cons(n, "C", 1, 3))
        if op == "add_generator": return "%s %s" % (p, self.gen(n, dom))
        if op in ("add_generators", "add_recycled_generators"): return "%s %s" % (p, self.gens(n, dom, 1, 3))
        if op == "add_congruence": return "%s %s" % (p, self.cg(n))
        if op == "add_congruences": return "%s %s" % (p, self.cgs(n))
        if op == "add_grid_generator": return "%s %s" % (p, self.ggen(n))
        if op in ("affine_image", "affine_preimage"): return "%s %d %d %s" % (p, r.randrange(n), self.den(), self.expr(n))
        if op == "generalized_affine_image":
            rel = r.choice(["<=", ">=", "=="] + (["<", ">"] if dom in ("NNC",) else []))
            return "%s %d %s %d %s" % (p, r.randrange(n), rel, self.den(), self.expr(n))
        if op == "unconstrain": return "%s %d" % (p, r.randrange(n))
        if op in ("add_space_dimensions_and_embed", "add_space_dimensions_and_project"):
            if n >= self.maxdim: return "op %d topological_closure_assign" % x
            dims[x] = n + 1
            return "%s 1" % p
        if op == "remove_higher_space_dimensions":
            k = r.randint(max(0, n - 1), n); dims[x] = k
            return "%s %d" % (p, k)
        if op == "remove_space_dimensions":
            vs = sorted(r.sample(range(n), 1)); dims[x] = n - 1
            return "%s 1 %d" % (p, vs[0])
        return p    # topological_closure_assign, pairwise_reduce, omega_reduce, collapse, drop_first_disjunct

    def history(self, cid, dom, steps=14, alias_p=0.5):
        r = self.r
        d = DOMS[dom]
        lines = ["case %s %s" % (cid, dom)]
        dims = {}
        n0 = r.randint(1, self.maxdim) if r.random() < 0.93 else 0
        if dom == "PS": n0 = min(n0, 2)
        for o in range(POOL):
            n = n0 if r.random() < 0.85 else r.randint(0, self.maxdim)
            dims[o] = n
            lines.append(self.new(o, dom, n))
        twins = []

        def drop_twins():
            for t in twins: lines.append("del %d" % t); dims.pop(t, None)
            del twins[:]

        def pick_arg(x, same_dim=True):
            """argument for receiver x: x itself with probability alias_p, else another object of the same dimension"""
            others = [y for y in range(POOL) if y != x and (not same_dim or dims[y] == dims[x])]
            if r.random() < alias_p or not others: return x
            return r.choice(others)

        for _ in range(steps):
            x = r.randrange(POOL)
            u = r.random()
            if u < 0.14:
                lines.append(self.unary(x, dom, dims))
            elif u < 0.24:
                lines.append("obs %d %s" % (x, r.choice(OBS_COMMON + d["obs"] * 2)))
            elif u < 0.30:
                y = r.choice([y for y in range(POOL) if y != x])
                lines.append("copy %d %d" % (x, y)); dims[x] = dims[y]
            elif u < 0.38:
                y = x if r.random() < 0.45 else r.randrange(POOL)
                lines.append("op %d assign %d" % (x, y)); dims[x] = dims[y]
            elif u < 0.46:
                y = x if r.random() < 0.45 else r.randrange(POOL)
                lines.append("op %d %s %d" % (x, r.choice(["swap", "swap", "std_swap"]), y)); dims[x], dims[y] = dims[y], dims[x]
            elif u < 0.49:
                lines.append(self.new(x, dom, dims[x]))
            elif u < 0.60:
                # paired binary query
                q = r.choice(QRY_COMMON + d["qry"] * 2)
                y = pick_arg(x)
                if y != x and dom != "Grid" and dims[x] == dims[y] and dims[x] > 0 and r.random() < 0.15:
                    zeros = " ".join(["0"] * (dims[x] - 1))
                    lines.append(("op %d refine_with_constraint >= -5 1 %s" % (x, zeros)).strip())
                    lines.append(("op %d refine_with_constraint >= -5 -1 %s" % (y, zeros)).strip())
                drop_twins()
                if dom == "PS" and q in ("contains", "is_disjoint_from", "geometrically_covers", "geometrically_equals", "definitely_entails"):
                    lines += ["copy 10 %d" % x, "copy 11 %d" % y, "rebuild 20 %d" % x, "rebuild 21 %d" % y,
                              "qry 20 %s 21" % q, "qry 10 %s 11" % q, "qry %d %s %d" % (x, q, y), "eqres3"]
                    twins += [20, 21]; dims[20] = dims[x]; dims[21] = dims[y]
                else:
                    lines += ["copy 10 %d" % x, "copy 11 %d" % y, "qry 10 %s 11" % q, "qry %d %s %d" % (x, q, y), "eqres"]
                twins += [10, 11]; dims[10] = dims[x]; dims[11] = dims[y]
            else:
                # paired binary / ternary operation
                names = BIN_COMMON + list(d["bin"].keys()) * 2
                op = r.choice(names)
                pre = d["bin"].get(op)
                y = pick_arg(x)
                if op == "concatenate_assign":
                    cand = [yy for yy in range(POOL) if dims[x] + dims[yy] <= self.maxdim + 1]
                    if not cand: op = "intersection_assign"
                    else:
                        y = x if (x in cand and r.random() < alias_p) else r.choice(cand)
                if pre is None and y != x and dom != "Grid" and dims[x] == dims[y] and dims[x] > 0 and op != "concatenate_assign" and r.random() < 0.22:
                    # EMPTY MEET: push receiver and argument apart (x into v0 >= 5, y into v0 <= -5; strict for NNC half of the time)
                    zeros = " ".join(["0"] * (dims[x] - 1))
                    k1 = ">" if (dom == "NNC" and r.random() < 0.5) else ">="
                    k2 = ">" if (dom == "NNC" and r.random() < 0.5) else ">="
                    lines.append(("op %d refine_with_constraint %s -5 1 %s" % (x, k1, zeros)).strip())
                    lines.append(("op %d refine_with_constraint %s -5 -1 %s" % (y, k2, zeros)).strip())
                if pre == "sub" and y != x: lines.append("op %d upper_bound_assign %d" % (x, y))
                if pre == "sup" and y != x: lines.append("op %d intersection_assign %d" % (x, y))
                extra, textra = "", ""
                z = None
                if op.endswith("_extrapolation_assign_of"):
                    z = r.choice([x, y] + [t for t in range(POOL) if dims[t] == dims[x]])
                if op.endswith("_tp"): extra = textra = " %d" % r.choice([0, 1, 2])
                if op == "BGP99_extrapolation_assign": extra = textra = " %d" % r.choice([1, 2, 3])
                # powersets: make receiver and argument SHARE disjunct representations by one of the routes through which
                # Determinate handles get shared (the argument may also be the receiver itself)
                if dom == "PS" and y != x and dims[y] == dims[x] and op != "concatenate_assign" and r.random() < 0.6:
                    route = r.choice(["copy", "assign", "swap", "upper_bound", "lub", "meet_self"])
                    if route == "copy": lines.append("copy %d %d" % (y, x))
                    elif route == "assign": lines.append("op %d assign %d" % (y, x))
                    elif route == "swap": lines += ["copy %d %d" % (y, x), "op %d swap %d" % (y, x), "op %d swap %d" % (x, y)]
                    elif route == "upper_bound": lines.append("op %d upper_bound_assign %d" % (y, x))
                    elif route == "lub": lines.append("op %d least_upper_bound_assign %d" % (y, x))
                    else: lines += ["op %d assign %d" % (y, x), "op %d add_disjunct_first_of %d" % (y, x)]
                    if pre == "sub": lines.append("op %d upper_bound_assign %d" % (x, y))
                    if pre == "sup": lines.append("op %d intersection_assign %d" % (x, y))
                deep = dom == "PS" and op in PS_DEEP
                drop_twins()
                lines += ["copy 10 %d" % x, "copy 11 %d" % y]
                twins += [10, 11]; dims[10] = dims[x]; dims[11] = dims[y]
                if deep:
                    # the same call on DEEP, UNSHARED rebuilds (from the constraints of every disjunct) of both operands
                    lines += ["rebuild 20 %d" % x, "rebuild 21 %d" % y]
                    twins += [20, 21]; dims[20] = dims[x]; dims[21] = dims[y]
                    lines.append("op 20 %s 21%s" % (op, textra))
                if z is not None:
                    lines.append("copy 12 %d" % z); twins.append(12); dims[12] = dims[z]
                    extra += " %d" % z; textra += " 12"
                lines.append("op 10 %s 11%s" % (op, textra))
                lines.append("op %d %s %d%s" % (x, op, y, extra))
                if deep: lines += ["eqres3", "eq 10 20", "eq %d 20" % x]
                else: lines += ["eqres", "eq %d 10" % x]
                if op == "concatenate_assign":
                    dims[10] = dims[10] + dims[11]; dims[x] = dims[10]
                    if deep: dims[20] = dims[10]
                if dom == "PS" and r.random() < 0.5:
                    lines.append("op %d %s" % (x, r.choice(["pairwise_reduce", "collapse", "omega_reduce"])))
        drop_twins()
        return lines

    # ---- const-argument sweep: EVERY binary operation and query of the domain, receiver a fresh copy of object 0,
    #      argument object 1, in one emptiness configuration; the argument is checked directly (argck) and by value ----
    def sweep_history(self, cid, dom, config):
        r = self.r
        d = DOMS[dom]
        n = r.randint(1, 2)
        lines = ["case %s %s" % (cid, dom)]
        lines.append("new 0 %d empty" % n if config == "x-empty" else self.new_nonempty(0, dom, n))
        lines.append("new 1 %d empty" % n if config == "y-empty" else self.new_nonempty(1, dom, n))
        if config == "empty-meet" and dom != "Grid":
            zeros = " ".join(["0"] * (n - 1))
            k1 = ">" if (dom == "NNC" and r.random() < 0.5) else ">="
            lines.append(("op 0 refine_with_constraint %s -5 1 %s" % (k1, zeros)).strip())
            lines.append(("op 1 refine_with_constraint >= -5 -1 %s" % zeros).strip())
        if config == "empty-meet" and dom == "Grid":
            zeros = " ".join(["0"] * (n - 1))
            lines.append(("op 0 add_congruence 2 0 1 %s" % zeros).strip())     # v0 = 0 mod 2
            lines.append(("op 1 add_congruence 2 1 1 %s" % zeros).strip())     # v0 = 1 mod 2
        if r.random() < 0.5: lines.append("obs 1 %s" % r.choice(OBS_COMMON + d["obs"]))
        ops = BIN_COMMON + sorted(d["bin"].keys())
        r.shuffle(ops)
        for op in ops:
            if op == "add_grid_generators_of": continue
            pre = d["bin"].get(op)
            extra = ""
            if op.endswith("_tp"): extra = " 1"
            if op == "BGP99_extrapolation_assign": extra = " 2"
            if op.endswith("_extrapolation_assign_of"): extra += " %d" % r.choice([0, 1])
            lines.append("copy 10 0")
            if pre == "sub": lines.append("op 10 upper_bound_assign 1")
            if pre == "sup": lines.append("op 10 intersection_assign 1")
            lines.append("op 10 %s 1%s" % (op, extra))
            lines.append("del 10")
        for q in QRY_COMMON + d["qry"]:
            lines.append("qry 0 %s 1" % q)
        return lines

    def new_nonempty(self, oid, dom, n):
        for _ in range(20):
            l = self.new(oid, dom, n)
            if not l.endswith(" empty"): return l
        return l

    # ---- intervals: three-address arithmetic with the receiver among the operands ----
    def itv_bound(self, upper, lo=None):
        r = self.r
        k = r.choice("ccccooi")
        if k == "i": return "i 0 1", None
        n = r.randint(-4, 4) if lo is None else lo + r.randint(0, 5)
        d = r.choice([1, 1, 1, 2, 3])
        return "%s %d %d" % (k, n * (1 if lo is None else d), d), n

    def itv_new(self, o):
        r = self.r
        if r.random() < 0.05: return "new %d 1 empty" % o
        # sign classes on purpose: negative, straddling zero, positive, touching zero
        cls = r.choice(["neg", "mix", "mix", "mix", "pos", "zl", "zu", "any"])
        lo, hi = {"neg": (r.randint(-6, -2), r.randint(-2, -1)), "mix": (r.randint(-5, -1), r.randint(1, 5)), "pos": (r.randint(1, 2), r.randint(2, 6)),
                  "zl": (0, r.randint(0, 4)), "zu": (r.randint(-4, 0), 0), "any": (r.randint(-4, 4), None)}[cls]
        if hi is None: hi = lo + r.randint(0, 4)
        if lo > hi: lo, hi = hi, lo
        lk = r.choice("ccccooi"); uk = r.choice("ccccooi")
        d1 = r.choice([1, 1, 1, 2]); d2 = r.choice([1, 1, 1, 2])
        return "new %d 1 %s %d %d %s %d %d" % (o, lk, lo * d1, d1, uk, hi * d2, d2)

    def itv_history(self, cid, steps=16):
        r = self.r
        lines = ["case %s ITV" % cid]
        for o in range(POOL): lines.append(self.itv_new(o))
        twins = []
        for _ in range(steps):
            z = r.randrange(POOL)
            u = r.random()
            if u < 0.08: lines.append(self.itv_new(z)); continue
            if u < 0.12: lines.append("obs %d ok" % z); continue
            if u < 0.18:
                y = r.randrange(POOL); lines.append("op %d %s %d" % (z, r.choice(["assign", "swap", "std_swap"]), y)); continue
            for t in twins: lines.append("del %d" % t)
            if u < 0.40:
                op = r.choice(["neg_assign", "join_assign", "intersect_assign", "add_op", "sub_op", "mul_op", "mul_op", "div_op"])
                x = z if r.random() < 0.5 else r.randrange(POOL)
                twins = [10, 11]
                lines += ["copy 10 %d" % z, "copy 11 %d" % x, "op 10 %s 11" % op, "op %d %s %d" % (z, op, x), "eqres", "eq %d 10" % z]
                continue
            op = r.choice(["add_assign", "sub_assign", "mul_assign", "mul_assign", "mul_assign", "div_assign", "join3", "intersect3"])
            pat = r.choice(["z=x", "z=y", "z=x=y", "x=y", "distinct"])
            others = [o for o in range(POOL) if o != z]
            if pat == "z=x": x, y = z, r.choice(others)
            elif pat == "z=y": x, y = r.choice(others), z
            elif pat == "z=x=y": x, y = z, z
            elif pat == "x=y": x = y = r.choice(others)
            else: x, y = r.sample(others, 2)
            twins = [10, 11, 12]
            lines += ["copy 10 %d" % z, "copy 11 %d" % x, "copy 12 %d" % y, "op 10 %s 11 12" % op, "op %d %s %d %d" % (z, op, x, y), "eqres", "eq %d 10" % z]
        for t in twins: lines.append("del %d" % t)
        return lines

    # ---- solvers: copies / assignments / swaps of solved problems, then mutate or destroy the source ----
    def solver_con(self, n):
        r = self.r
        v = [r.randint(-2, 2) if r.random() < 0.7 else 0 for _ in range(n)]
        if not any(v): v[r.randrange(n)] = 1
        return ">= %d %s" % (r.randint(-3, 6), " ".join(map(str, v)))

    def solver_new(self, o, dom, n):
        r = self.r
        box = []
        for i in range(n):
            e = [0] * n; e[i] = 1; box.append(">= 0 %s" % " ".join(map(str, e)))
            e[i] = -1; box.append(">= 4 %s" % " ".join(map(str, e)))
        extra = [self.solver_con(n) for _ in range(r.randint(1, 4))]
        cs = "%d %s" % (len(box) + len(extra), " ".join(box + extra))
        if dom == "PIP": return "new %d %d 1 %s" % (o, n, cs)
        obj = " ".join(str(r.randint(-3, 3)) for _ in range(n))
        return "new %d %d %d %s %d %s %s" % (o, n, r.randint(0, n), cs, r.randint(-2, 2), obj, r.choice(["max", "min"]))

    def solver_history(self, cid, dom, steps=12):
        r = self.r
        lines = ["case %s %s" % (cid, dom)]
        dims = {}
        for o in range(3):
            dims[o] = r.randint(2, 3); lines.append(self.solver_new(o, dom, dims[o]))
        twin = False
        for _ in range(steps):
            x = r.randrange(3); y = r.choice([o for o in range(3) if o != x])
            u = r.random()
            if twin: lines.append("del 10"); twin = False
            if u < 0.22: lines.append("copy %d %d" % (x, y)); dims[x] = dims[y]
            elif u < 0.36: lines.append("op %d assign %d" % (x, y if r.random() < 0.8 else x)); dims[x] = dims[y] if lines[-1].endswith(str(y)) else dims[x]
            elif u < 0.48:
                z = y if r.random() < 0.8 else x
                lines.append("op %d %s %d" % (x, r.choice(["swap", "std_swap"]), z)); dims[x], dims[z] = dims[z], dims[x]
            elif u < 0.58: lines.append("op %d add_constraint %s" % (x, self.solver_con(dims[x])))
            elif u < 0.64 and dims[x] < 4:
                lines.append("op %d add_dims 0 1" % x if dom == "PIP" else "op %d add_dims 1" % x); dims[x] += 1
            elif u < 0.70: lines.append("op %d clear" % x); dims[x] = 0; lines.append(self.solver_new(x, dom, 2)); dims[x] = 2
            elif u < 0.78: lines += ["del %d" % x, self.solver_new(x, dom, dims[x] if dims[x] >= 2 else 2)]; dims[x] = max(dims[x], 2)
            elif u < 0.84 and dom == "MIP": lines.append("op %d set_mode %s" % (x, r.choice(["max", "min"])))
            else:
                # the same mutation on a copy and on its source: identical answers
                c = self.solver_con(dims[x])
                lines += ["copy 10 %d" % x, "op 10 add_constraint %s" % c, "op %d add_constraint %s" % (x, c), "eq %d 10" % x]
                twin = True
        if twin: lines.append("del 10")
        return lines

    # ---- syntactic objects ----
    def le_history(self, cid, steps=16, alias_p=0.5):
        r = self.r
        n = r.randint(1, 5)
        lines = ["case %s LE" % cid]
        for o in range(POOL):
            v = self.vec(n, nz=False, sparse=0.4)
            lines.append("new %d %d %s %d %s" % (o, n, r.choice(["dense", "sparse"]), self.coef(-4, 4), " ".join(map(str, v))))
        twins = []
        for _ in range(steps):
            x = r.randrange(POOL)
            u = r.random()
            if u < 0.15:
                op = r.choice(["set_coefficient", "negate", "mul", "set_representation"])
                if op == "set_coefficient": lines.append("op %d set_coefficient %d %d" % (x, r.randrange(n), self.coef()))
                elif op == "mul": lines.append("op %d mul %d" % (x, self.coef(-3, 3)))
                elif op == "set_representation": lines.append("op %d set_representation %s" % (x, r.choice(["dense", "sparse"])))
                else: lines.append("op %d negate" % x)
                continue
            if u < 0.2:
                lines.append("obs %d ok" % x); continue
            y = x if r.random() < alias_p else r.randrange(POOL)
            if u < 0.27:
                if y != x: lines.append("copy %d %d" % (x, y))
                continue
            for t in twins: lines.append("del %d" % t)
            twins = [10, 11]
            if u < 0.37:
                q = r.choice(["is_equal_to", "compare"])
                lines += ["copy 10 %d" % x, "copy 11 %d" % y, "qry 10 %s 11" % q, "qry %d %s %d" % (x, q, y), "eqres"]
                continue
            op = r.choice(["assign", "swap", "std_swap", "copy_dense", "copy_sparse", "add_assign", "sub_assign", "add_mul_assign", "sub_mul_assign",
                           "linear_combine_c", "linear_combine_range"])
            if op == "linear_combine_range" and y == x:
                op = "linear_combine_c"      # the range form is a private helper whose rows must be distinct
            extra = ""
            if op in ("add_mul_assign", "sub_mul_assign"): extra = " %d" % self.coef()
            if op == "linear_combine_c": extra = " %d %d" % (r.choice([-3, -2, -1, 1, 2, 3]), r.choice([-3, -2, -1, 1, 2, 3]))
            if op == "linear_combine_range":
                a = r.randint(0, n); b = r.randint(a, n + 1)
                extra = " %d %d %d %d" % (r.choice([-3, -2, -1, 1, 2, 3]), r.choice([-3, -2, -1, 1, 2, 3]), a, b)
            if op in ("swap", "std_swap"):
                # the judge knows what a swap must do; no twin needed
                lines.append("op %d %s %d" % (x, op, y)); twins = []
                continue
            lines += ["copy 10 %d" % x, "copy 11 %d" % y, "op 10 %s 11%s" % (op, extra), "op %d %s %d%s" % (x, op, y, extra), "eqres", "eq %d 10" % x]
        for t in twins: lines.append("del %d" % t)
        return lines

    def sys_history(self, cid, dom, steps=14, alias_p=0.5):
        r = self.r
        n = r.randint(1, 3)
        lines = ["case %s %s" % (cid, dom)]
        nnc = r.random() < 0.3
        def newsys(o):
            rep = r.choice(["dense", "sparse"])
            if dom == "CS": return "new %d %d %s %s" % (o, n, rep, self.cons(n, "CSN" if nnc else "C", 0, 4))
            k = r.randint(0, 4)
            gs = [self.gen(n, "GSN" if nnc else "C") for _ in range(k)]
            return ("new %d %d %s %d %s" % (o, n, rep, k, " ".join(gs))).strip()
        for o in range(POOL): lines.append(newsys(o))
        twins = []
        for _ in range(steps):
            x = r.randrange(POOL)
            u = r.random()
            if u < 0.18:
                op = r.choice(["set_representation", "clear", "sort", "unset_pending", "remove_trailing"])
                if op == "set_representation": lines.append("op %d set_representation %s" % (x, r.choice(["dense", "sparse"])))
                elif op == "sort": lines += ["op %d unset_pending" % x, "op %d sort_rows" % x]
                elif op == "remove_trailing": lines.append("op %d remove_trailing %d" % (x, r.randint(0, 2)))
                elif op == "clear":
                    lines.append("op %d clear" % x)
                    if r.random() < 0.5: lines.append(newsys(x))
                else: lines.append("op %d %s" % (x, op))
                continue
            if u < 0.22:
                lines.append("obs %d ok" % x); continue
            y = x if r.random() < alias_p else r.randrange(POOL)
            if u < 0.28:
                if y != x: lines.append("copy %d %d" % (x, y))
                continue
            if u < 0.40:
                lines.append("op %d %s %d" % (x, r.choice(["assign", "swap", "std_swap"]), y)); continue
            for t in twins: lines.append("del %d" % t)
            twins = [10, 11]
            op = r.choice(["insert_row_of", "insert_row_of", "insert_pending_row_of", "insert_pending_row_of", "insert_sys", "insert_pending_sys", "insert_recycled_sys"])
            extra = " %d" % r.randrange(6) if "row" in op else ""
            if "pending" not in op: lines.append("op %d unset_pending" % x)     # precondition of the non-pending inserts
            lines += ["copy 10 %d" % x, "copy 11 %d" % y, "op 10 %s 11%s" % (op, extra), "op %d %s %d%s" % (x, op, y, extra), "eqres", "eq %d 10" % x]
        for t in twins: lines.append("del %d" % t)
        return lines


def make_cases(seed, plan, maxdim=3, start=0):
    """plan: list of (dom, count, steps)"""
    g = Gen(seed, maxdim)
    out = []
    k = start
    for dom, count, steps in plan:
        for _ in range(count):
            cid = "%s%d" % (dom.lower(), k); k += 1
            if dom.startswith("sweep:"):
                out += g.sweep_history("sw" + cid.split(":")[-1], dom.split(":")[1], SWEEP_CONFIGS[(k - 1) % len(SWEEP_CONFIGS)])
            elif dom == "ITV": out += g.itv_history(cid, steps)
            elif dom in ("PIP", "MIP"): out += g.solver_history(cid, dom, steps)
            elif dom == "LE": out += g.le_history(cid, steps)
            elif dom in ("CS", "GS"): out += g.sys_history(cid, dom, steps)
            else: out += g.history(cid, dom, steps)
    return out


if __name__ == "__main__":
    import sys
    seed = int(sys.argv[1]) if len(sys.argv) > 1 else 1
    doms = sys.argv[2].split(",") if len(sys.argv) > 2 else list(DOMS) + ["LE", "CS", "GS"]
    cnt = int(sys.argv[3]) if len(sys.argv) > 3 else 5
    print("\n".join(make_cases(seed, [(d, cnt, 14) for d in doms])))
