"""Shared machinery of /verif/check.

Everything here is glue (untrusted but simple): building PPL from /repo's working tree into a
content-addressed cache, compiling harnesses, driving coqc / ocamlfind, collecting
`Print Assumptions`, matching known findings, writing evidence and replay files.
"""
import fcntl, hashlib, json, os, re, shutil, subprocess, sys, time, glob

VERIF = os.path.dirname(os.path.dirname(os.path.abspath(__file__)))
REPO = os.environ.get("VERIF_REPO", "/repo")
BUILD = os.path.join(VERIF, "build")
COQ = os.path.join(VERIF, "coq")
NCPU = os.cpu_count() or 4
GUARD = "PPL_VERIF_HOOKS"

EXCLUDED_SOURCES = {"Affine_Space.cc", "Pointset_Ask_Tell.cc", "ppl-config.cc", "ppl_lcdd.cc",
                    "ppl_lpsol.cc", "ppl_pips.cc"}


def sh(cmd, timeout=None, cwd=None, env=None, check=False, input=None):
    """Run a command (list or string), return (rc, stdout+stderr)."""
    shell = isinstance(cmd, str)
    try:
        p = subprocess.run(cmd, shell=shell, cwd=cwd, env=env, input=input, timeout=timeout,
                           stdout=subprocess.PIPE, stderr=subprocess.STDOUT, text=True)
        rc, out = p.returncode, p.stdout
    except subprocess.TimeoutExpired as e:
        rc, out = 124, (e.stdout or "") if isinstance(e.stdout, str) else ""
    if check and rc != 0:
        raise RuntimeError("command failed (%s): %s\n%s" % (rc, cmd, out[-4000:]))
    return rc, out


class Lock:
    def __init__(self, name):
        os.makedirs(BUILD, exist_ok=True)
        self.path = os.path.join(BUILD, name + ".lock")
    def __enter__(self):
        self.f = open(self.path, "w")
        fcntl.flock(self.f, fcntl.LOCK_EX)
        return self
    def __exit__(self, *a):
        fcntl.flock(self.f, fcntl.LOCK_UN)
        self.f.close()


# ----------------------------------------------------------------------------------------------
# PPL library, rebuilt from the working tree
# ----------------------------------------------------------------------------------------------

def lib_sources():
    """The .cc files of libppl_la_SOURCES, read from src/Makefile.am on every run."""
    txt = open(os.path.join(REPO, "src", "Makefile.am")).read()
    m = re.search(r"libppl_la_SOURCES\s*=(.*?)\n\s*\n", txt, re.S)
    names = re.findall(r"([A-Za-z0-9_\-]+\.cc)", m.group(1)) if m else []
    names = [n for n in names if n not in EXCLUDED_SOURCES and os.path.exists(os.path.join(REPO, "src", n))]
    if len(names) < 60:  # fall back: every .cc in src except the known non-library ones
        names = sorted(os.path.basename(p) for p in glob.glob(os.path.join(REPO, "src", "*.cc"))
                       if os.path.basename(p) not in EXCLUDED_SOURCES)
    return names


def tree_hash(extra=""):
    """Hash of everything a library build depends on in /repo's working tree."""
    h = hashlib.sha256()
    files = sorted(glob.glob(os.path.join(REPO, "src", "*.cc")) + glob.glob(os.path.join(REPO, "src", "*.hh"))
                   + glob.glob(os.path.join(REPO, "src", "*.h"))
                   + [os.path.join(REPO, "ppl-config.h"), os.path.join(REPO, "config.h")])
    for f in files:
        if os.path.basename(f) in ("ppl.hh", "ppl_include_files.hh"):
            continue
        try:
            with open(f, "rb") as fh:
                h.update(f.encode()); h.update(fh.read())
        except OSError:
            pass
    h.update(extra.encode())
    return h.hexdigest()[:16]


CONFIGS = {
    "mpz": None,
    "int8": ("8", "int8_t"), "int16": ("16", "int16_t"), "int32": ("32", "int32_t"), "int64": ("64", "int64_t"),
}


def _config_dir(libdir, config):
    """Directory placed first on the include path; holds an overriding ppl-config.h for checked-int builds."""
    d = os.path.join(libdir, "cfg")
    os.makedirs(d, exist_ok=True)
    src = open(os.path.join(REPO, "ppl-config.h")).read()
    if CONFIGS[config] is not None:
        bits, ty = CONFIGS[config]
        src = re.sub(r"#define PPL_GMP_INTEGERS 1", "/* #undef PPL_GMP_INTEGERS */", src)
        src = re.sub(r"/\* #undef PPL_CHECKED_INTEGERS \*/", "#define PPL_CHECKED_INTEGERS 1", src)
        src = re.sub(r"#define PPL_COEFFICIENT_BITS \d+", "#define PPL_COEFFICIENT_BITS " + bits, src)
        src = re.sub(r"#define PPL_COEFFICIENT_TYPE .*",
                     "#define PPL_COEFFICIENT_TYPE Parma_Polyhedra_Library::Checked_Number<%s, Bounded_Integer_Coefficient_Policy>" % ty, src)
    with open(os.path.join(d, "ppl-config.h"), "w") as f:
        f.write(src)
    return d


def cxx_flags(libdir, hooks=True, opt="-O1"):
    fl = ["-std=c++11", "-DHAVE_CONFIG_H", "-I" + os.path.join(libdir, "cfg"), "-I" + os.path.join(REPO, "src"),
          "-I" + REPO, opt, "-frounding-math", "-w"]
    if hooks:
        fl.append("-D" + GUARD)
    return fl


def build_lib(config="mpz", hooks=True, log=None):
    """Compile libppl from /repo's working tree. Returns the directory holding libppl_verif.a."""
    key = tree_hash(config + ("H" if hooks else "N"))
    libdir = os.path.join(BUILD, "lib-%s-%s" % (config, key))
    lib = os.path.join(libdir, "libppl_verif.a")
    with Lock("lib-" + config):
        if os.path.exists(lib):
            return libdir
        # drop stale caches of this config (disk is limited), keeping the most recent few: other
        # checks (or scratch trees selected with VERIF_REPO) may be using them right now
        olds = sorted((o for o in glob.glob(os.path.join(BUILD, "lib-%s-*" % config)) if o != libdir),
                      key=lambda o: os.path.getmtime(o), reverse=True)
        for old in olds[30:]:
            shutil.rmtree(old, ignore_errors=True)
        os.makedirs(libdir, exist_ok=True)
        _config_dir(libdir, config)
        srcs = lib_sources()
        flags = cxx_flags(libdir, hooks)
        mk = ["OBJS=" + " ".join(s[:-3] + ".o" for s in srcs), "all: libppl_verif.a",
              "libppl_verif.a: $(OBJS)\n\tar rcs $@ $(OBJS)",
              "%%.o: %s/src/%%.cc\n\tg++ %s -fPIC -c $< -o $@" % (REPO, " ".join(flags))]
        with open(os.path.join(libdir, "Makefile"), "w") as f:
            f.write("\n".join(mk) + "\n")
        t0 = time.time()
        rc, out = sh(["make", "-j%d" % NCPU, "-C", libdir], timeout=1800)
        if rc != 0:
            if os.path.exists(lib):
                os.remove(lib)
            raise BuildError("library build (%s) failed:\n%s" % (config, out[-6000:]))
        if log:
            log("built libppl (%s) from working tree in %.1fs" % (config, time.time() - t0))
    return libdir


class BuildError(Exception):
    pass


def compile_harness(src, config="mpz", hooks=True, extra=(), drop_objs=(), opt="-O1", libs=("-lgmpxx", "-lgmp")):
    """Compile harness/<src> against the library built from the tree. `drop_objs`: library objects to
    leave out of the link (for harnesses that #include a library .cc to reach file-static functions)."""
    libdir = build_lib(config, hooks)
    path = src if os.path.isabs(src) else os.path.join(VERIF, "harness", src)
    h = hashlib.sha256()
    for p in [path] + sorted(glob.glob(os.path.join(VERIF, "harness", "*.hh"))):
        h.update(open(p, "rb").read())
    h.update((" ".join(extra) + "|" + " ".join(drop_objs) + opt).encode())
    exe = os.path.join(libdir, "h_%s_%s" % (os.path.splitext(os.path.basename(src))[0], h.hexdigest()[:10]))
    with Lock("harness-" + os.path.basename(exe)):
        if os.path.exists(exe):
            return exe
        flags = cxx_flags(libdir, hooks, opt) + ["-I" + os.path.join(VERIF, "harness")] + list(extra)
        if drop_objs:
            objs = [os.path.join(libdir, s[:-3] + ".o") for s in lib_sources() if s[:-3] + ".o" not in drop_objs]
            link = objs
        else:
            link = [os.path.join(libdir, "libppl_verif.a")]
        rc, out = sh(["g++"] + flags + [path, "-o", exe + ".tmp"] + link + list(libs), timeout=1800)
        if rc != 0:
            raise BuildError("harness %s failed to compile:\n%s" % (src, out[-6000:]))
        os.rename(exe + ".tmp", exe)
    return exe


# ----------------------------------------------------------------------------------------------
# Coq / OCaml
# ----------------------------------------------------------------------------------------------

FORBIDDEN = re.compile(r"\b(Admitted|admit|Axiom|Axioms|Parameter|Parameters|Conjecture|Admit Obligations|"
                       r"Unset Guard Checking|Unset Positivity Checking|Unset Universe Checking|bypass_check|"
                       r"type-in-type|impredicative-set|native_compute)\b")


def coq_scan():
    """Textual scan of the development for forbidden constructs (comments stripped)."""
    bad = []
    for p in glob.glob(os.path.join(COQ, "**", "*.v"), recursive=True):
        txt = open(p).read()
        txt = re.sub(r"\(\*.*?\*\)", "", txt, flags=re.S)
        for m in FORBIDDEN.finditer(txt):
            bad.append("%s: %s" % (os.path.relpath(p, VERIF), m.group(1)))
    return bad


def coq_makefile():
    """_CoqProject lists every .v under coq/ (gen/ included, Extract/ excluded: those are run by
    hand through coqc because they write files); regenerated when the file set changes."""
    mf = os.path.join(COQ, "Makefile")
    cp = os.path.join(COQ, "_CoqProject")
    vs = sorted(os.path.relpath(p, COQ) for p in glob.glob(os.path.join(COQ, "**", "*.v"), recursive=True)
                if not os.path.relpath(p, COQ).startswith("Extract" + os.sep))
    want = "-Q . PPLV\n-arg -w -arg -all\n" + "\n".join(vs) + "\n"
    have = open(cp).read() if os.path.exists(cp) else ""
    if want != have:
        with open(cp, "w") as f:
            f.write(want)
    if not os.path.exists(mf) or want != have or os.path.getmtime(mf) < os.path.getmtime(cp):
        sh(["coq_makefile", "-f", "_CoqProject", "-o", "Makefile"], cwd=COQ, check=True)


def coq_extract(vfile, outputs, deps=()):
    """Run coq/Extract/<vfile> (which writes ocaml/gen/*.ml) when its outputs are stale."""
    src = os.path.join(COQ, "Extract", vfile)
    outs = [os.path.join(VERIF, "ocaml", "gen", o) for o in outputs]
    os.makedirs(os.path.join(VERIF, "ocaml", "gen"), exist_ok=True)
    with Lock("coq"):
        dep_m = max([os.path.getmtime(src)] + [os.path.getmtime(os.path.join(COQ, d)) for d in deps if os.path.exists(os.path.join(COQ, d))])
        if all(os.path.exists(o) and os.path.getmtime(o) >= dep_m for o in outs):
            return
        rc, out = sh(["coqc", "-Q", ".", "PPLV", os.path.join("Extract", vfile)], cwd=COQ, timeout=900)
        if rc != 0 or not all(os.path.exists(o) for o in outs):
            raise BuildError("extraction %s failed:\n%s" % (vfile, out[-4000:]))


def coq_make(targets, timeout=3000):
    """Full .vo build of the given targets (paths relative to coq/). Returns (ok, log)."""
    with Lock("coq"):
        coq_makefile()
        rc, out = sh(["make", "-j%d" % NCPU, "-k"] + list(targets), cwd=COQ, timeout=timeout)
    return rc == 0, out


def theorems_of(vfile):
    txt = open(os.path.join(COQ, vfile)).read()
    txt = re.sub(r"\(\*.*?\*\)", "", txt, flags=re.S)
    return re.findall(r"^\s*(?:Theorem|Corollary)\s+([A-Za-z0-9_']+)", txt, re.M)


ALLOWED_AXIOMS = {
    # axioms declared by Coq's standard library; each use is named in the evidence and DESIGN.md
    "functional_extensionality_dep", "FunctionalExtensionality.functional_extensionality_dep",
    "ClassicalDedekindReals.sig_forall_dec", "ClassicalDedekindReals.sig_not_dec",
    "Classical_Prop.classic", "Eqdep.Eq_rect_eq.eq_rect_eq", "proof_irrelevance", "JMeq.JMeq_eq",
}


def print_assumptions(module, thms):
    """Run coqtop on `Print Assumptions` for every theorem; returns {thm: 'closed' | [axioms]}."""
    src = "Require Import PPLV.%s.\n" % module
    for t in thms:
        src += 'Goal True. idtac "@@@ %s". exact I. Qed.\nPrint Assumptions %s.\n' % (t, t)
    tmp = os.path.join(BUILD, "assum_%s_%d.v" % (module.replace(".", "_"), os.getpid()))
    with open(tmp, "w") as f:
        f.write(src)
    rc, out = sh(["coqc", "-Q", COQ, "PPLV", tmp], timeout=600)
    for ext in ("", "o", "ok", "os"):
        for q in (tmp + ext, tmp[:-2] + ".glob", tmp[:-2] + ".vo", tmp[:-2] + ".vok", tmp[:-2] + ".vos"):
            if os.path.exists(q):
                try: os.remove(q)
                except OSError: pass
    for q in glob.glob(os.path.join(BUILD, ".assum_*%d*.aux" % os.getpid())):
        try: os.remove(q)
        except OSError: pass
    res = {}
    if rc != 0:
        return None, out
    parts = re.split(r"@@@ (\S+)\n", out)
    for i in range(1, len(parts), 2):
        name, body = parts[i], parts[i + 1]
        if "Closed under the global context" in body:
            res[name] = "closed"
        else:
            ax = [a for a in re.findall(r"^([A-Za-z0-9_.']+)\s*:", body, re.M) if a != "Axioms"]
            res[name] = ax
    return res, out


def ocaml_build(name, mls, deps=()):
    """Build ocaml/<name> from the listed .ml/.mli files (paths relative to ocaml/), if stale."""
    od = os.path.join(VERIF, "ocaml")
    exe = os.path.join(od, "bin", name)
    os.makedirs(os.path.join(od, "bin"), exist_ok=True)
    srcs = [os.path.join(od, m) for m in mls]
    with Lock("ocaml-" + name):
        newest = max([os.path.getmtime(s) for s in srcs] + [os.path.getmtime(d) for d in deps if os.path.exists(d)])
        if os.path.exists(exe) and os.path.getmtime(exe) >= newest:
            return exe
        bd = os.path.join(od, "_b_" + name)
        shutil.rmtree(bd, ignore_errors=True)
        os.makedirs(bd)
        for s in srcs:
            shutil.copy(s, bd)
        rc, out = sh(["ocamlfind", "ocamlopt", "-w", "-a", "-package", "str,unix", "-linkpkg", "-o", exe] +
                     [os.path.basename(s) for s in srcs], cwd=bd, timeout=900)
        if rc != 0:
            raise BuildError("ocaml build of %s failed:\n%s" % (name, out[-6000:]))
        shutil.rmtree(bd, ignore_errors=True)
    return exe


# ----------------------------------------------------------------------------------------------
# Check object: evidence, findings, verdict
# ----------------------------------------------------------------------------------------------

def load_findings():
    """known_findings.json (committed; never written at run time) plus per-property fragments
    known_findings.d/*.json (same format; merged here so that properties can be worked on separately)."""
    out = []
    ps = [os.path.join(VERIF, "known_findings.json")] + sorted(glob.glob(os.path.join(VERIF, "known_findings.d", "*.json")))
    for p in ps:
        if os.path.exists(p):
            out += json.load(open(p)).get("findings", [])
    return out


class Check:
    def __init__(self, pid, tier, seed, replay=None):
        self.pid, self.tier, self.seed, self.replay = pid, tier, seed, replay
        self.t0 = time.time()
        self.obligations = 0
        self.discharged = 0
        self.theorems = {}        # name -> assumptions
        self.evaluations = 0
        self.nontrivial = set()
        self.samples = []
        self.violations = []      # (what, replay_path)
        self.known_hit = {}       # finding id -> count
        self.extra = {}           # extra coverage keys
        self.assumptions = []
        self.trusted = []
        self.checker_cmd = ""
        self.undecided = 0
        self.rule = ""
        self.broken = []          # broken proof obligations / correspondences: (name, detail)
        self.findings = [f for f in load_findings() if f.get("property") == pid and f.get("status", "open") == "open"]
        self.logs = []

    quick = property(lambda self: self.tier == "quick")

    def log(self, msg):
        self.logs.append(msg)
        print("[%s %6.1fs] %s" % (self.pid, time.time() - self.t0, msg), flush=True)

    # -- proofs ---------------------------------------------------------------------------------
    def prove(self, module_files, prop_module=None, extra_obligations=0):
        """Compile the Coq files this property depends on and audit the property theorems."""
        prop_module = prop_module or "Properties.Properties_%s" % self.pid
        pfile = prop_module.replace(".", "/") + ".v"
        targets = [f[:-2] + ".vo" if f.endswith(".v") else f for f in module_files] + [pfile[:-2] + ".vo"]
        self.checker_cmd = "make -C coq -j%d %s && coqc Print Assumptions <each theorem>" % (NCPU, " ".join(targets))
        bad = coq_scan()
        if bad:
            self.broken.append(("forbidden-construct", "; ".join(bad[:10])))
        ok, out = coq_make(targets)
        thms = theorems_of(pfile)
        self.obligations += len(thms) + extra_obligations
        if not ok:
            err = re.findall(r"File \"([^\"]+)\", line (\d+).*?\n(?:.*\n)*?Error:?(.*(?:\n .*)*)", out)
            self.broken.append(("coq-build", out[-3000:]))
            self.log("Coq build FAILED for %s" % " ".join(targets))
            return False
        res, raw = print_assumptions(prop_module, thms)
        if res is None:
            self.broken.append(("print-assumptions", raw[-2000:]))
            return False
        for t in thms:
            a = res.get(t)
            self.theorems[t] = a
            if a == "closed":
                self.discharged += 1
            elif isinstance(a, list) and all(x.split(".")[-1] in {y.split(".")[-1] for y in ALLOWED_AXIOMS} for x in a):
                self.discharged += 1
            else:
                self.broken.append(("assumptions:" + t, str(a)))
        self.discharged += extra_obligations
        self.log("proved %d/%d obligations (%s)" % (self.discharged, self.obligations, pfile))
        return not self.broken

    # -- cases ----------------------------------------------------------------------------------
    def count(self, n=1, key=None, sample=None):
        self.evaluations += n
        if key is not None:
            self.nontrivial.add(key)
        if sample is not None and len(self.samples) < 5:
            self.samples.append(sample)

    def match_finding(self, info):
        """info: dict describing a failure (site, condition tags...). A finding matches when every
        key of its `match` dict equals the failure's value for that key."""
        for f in self.findings:
            m = f.get("match", {})
            if m and all(info.get(k) == v for k, v in m.items()):
                return f
        return None

    def failure(self, info, replay_obj):
        """Report a property failure found on the real code. Classified against known findings."""
        f = self.match_finding(info)
        if f is not None:
            self.known_hit[f["id"]] = self.known_hit.get(f["id"], 0) + 1
            return "known"
        n = len(self.violations) + 1
        path = os.path.join(VERIF, "replays", "%s-%d.json" % (self.pid, n))
        os.makedirs(os.path.dirname(path), exist_ok=True)
        obj = {"property": self.pid, "tier": self.tier, "seed": self.seed, "info": info}
        obj.update(replay_obj)
        with open(path, "w") as fh:
            json.dump(obj, fh, indent=1, default=str)
        self.violations.append((info, path))
        return "violation"

    # -- verdict --------------------------------------------------------------------------------
    def finish(self):
        wall = time.time() - self.t0
        # broken proof / correspondence with no failing input found -> still a violation
        lines = []
        for fid, cnt in sorted(self.known_hit.items()):
            f = [x for x in self.findings if x["id"] == fid][0]
            lines.append("KNOWN-FINDING: property=%s %s [%s, hit %d times this run]" % (self.pid, f["what"], fid, cnt))
        seen_paths = set()
        for info, path in self.violations:
            if path in seen_paths:
                continue
            seen_paths.add(path)
            lines.append("VIOLATION property=%s replay=%s" % (self.pid, os.path.relpath(path, VERIF)))
        if self.broken and not self.violations:
            path = os.path.join(VERIF, "replays", "%s-broken.json" % self.pid)
            os.makedirs(os.path.dirname(path), exist_ok=True)
            with open(path, "w") as fh:
                json.dump({"property": self.pid, "tier": self.tier, "seed": self.seed,
                           "no_longer_checks": [{"name": n, "detail": d} for n, d in self.broken],
                           "note": "a proof obligation or a model/code correspondence no longer checks; the search "
                                   "for a concrete failing input found none within its budget"}, fh, indent=1)
            lines.append("VIOLATION property=%s replay=%s no-failing-input-found" % (self.pid, os.path.relpath(path, VERIF)))
        nviol = len(seen_paths) + (1 if (self.broken and not self.violations) else 0)
        cov = {
            "obligations": self.obligations, "discharged": self.discharged,
            "checker_cmd": self.checker_cmd or "n/a",
            "trusted_base": self.trusted or ["Coq 8.16.1 kernel (coqc); vm_compute where stated; extraction with ExtrOcamlBasic only; OCaml 4.13.1; g++ 12.2; hand-written harness/judge glue"],
            "theorems": {k: (v if v == "closed" else v) for k, v in self.theorems.items()},
            "evaluations": self.evaluations, "distinct_nontrivial": len(self.nontrivial),
            "rule": self.rule, "samples": self.samples[:5] or ["(no sample recorded)"],
            "undecided": self.undecided,
            "known_findings_hit": self.known_hit,
            "broken": [n for n, _ in self.broken],
        }
        cov.update(self.extra)
        ev = {"property_id": self.pid, "tier": self.tier, "seed": self.seed, "level": "proof",
              "coverage": cov, "assumptions": self.assumptions, "wall_s": round(wall, 1), "violations": nviol}
        os.makedirs(os.path.join(VERIF, "evidence"), exist_ok=True)
        with open(os.path.join(VERIF, "evidence", self.pid + ".json"), "w") as fh:
            json.dump(ev, fh, indent=1, default=str)
        for l in lines:
            print(l, flush=True)
        print("[%s] done in %.1fs: obligations %d/%d, evaluations %d, distinct non-trivial %d, violations %d, known findings %d"
              % (self.pid, wall, self.discharged, self.obligations, self.evaluations, len(self.nontrivial), nviol, len(self.known_hit)), flush=True)
        return 1 if nviol else 0
