"""C20: regenerate the C interface from the CURRENT m4 templates, preprocess, parse, emit Coq facts.

Nothing is written into the repository: everything goes to /verif/build/cif-<hash>/.
  regenerate()   runs the m4 command lines of interfaces/C/Makefile.am (cc_files, hh_files, h), the
                 cm_cleaner/cm_splitter scripts and utils/build_header(.in) for ppl_c.h
  preprocess()   g++ -E (line markers kept, so that only text originating in the main file is parsed)
  parse_tu()     a small top-level C++ parser: every function DEFINED at global scope in the main file
                 (= the entry points; those get C linkage from their extern "C" declaration in ppl_c.h),
                 whether its body is a function-try-block, the ordered catch chain (caught type,
                 returned code, calls made in the handler), calls made outside any try, whether every
                 path of the body ends in `return`
  parse_header() prototypes + enum ppl_enum_error_code of the regenerated ppl_c.h
  write_coq()    coq/gen/Facts_CIface.v
All of this is glue (untrusted): an error here can only make the facts differ from the source, which
is why the behavioural harness also drives the compiled entry points.
"""
import glob, hashlib, json, os, re, shutil, sys
sys.path.insert(0, os.path.dirname(os.path.abspath(__file__)))
import common

FALLBACK_REPO = "/repo"     # only for configure outputs missing from a scratch copy made by `git archive`

M4_INPUTS = [
    "interfaces/C/ppl_interface_generator_c_procedure_generators.m4",
    "interfaces/C/ppl_interface_generator_c_h.m4",
    "interfaces/C/ppl_interface_generator_c_h_code.m4",
    "interfaces/C/ppl_interface_generator_c_cc_files.m4",
    "interfaces/C/ppl_interface_generator_c_hh_files.m4",
    "interfaces/C/ppl_interface_generator_c_cc_code.m4",
    "interfaces/ppl_interface_generator_common.m4",
    "interfaces/ppl_interface_generator_common_dat.m4",
    "interfaces/ppl_interface_generator_copyright",
    "interfaces/ppl_interface_generator_common_procedure_generators.m4",
    "interfaces/interfaced_boxes.hh",
    "interfaces/marked_pointers.hh",
    "interfaces/C/ppl_c_header.h",
    "interfaces/C/ppl_c_implementation_common.cc",
    "interfaces/C/ppl_c_implementation_common_defs.hh",
    "interfaces/C/ppl_c_implementation_common_inlines.hh",
    "utils/build_header.in", "utils/cm_cleaner.sh", "utils/cm_splitter.sh",
]
CONFIGURE_OUTPUTS = ["interfaces/ppl_interface_instantiations.m4", "interfaces/C/ppl_c_version.h"]


def _path(rel):
    p = os.path.join(common.REPO, rel)
    if os.path.exists(p):
        return p
    if rel in CONFIGURE_OUTPUTS:
        return os.path.join(FALLBACK_REPO, rel)
    return p


def _stale(path, hours=6):
    """Caches of other trees are pruned only when old: another check (other VERIF_REPO) may be using them right now."""
    import time
    try:
        return time.time() - os.path.getmtime(path) > hours * 3600
    except OSError:
        return False


def inputs_hash():
    h = hashlib.sha256()
    for rel in M4_INPUTS + CONFIGURE_OUTPUTS:
        p = _path(rel)
        h.update(rel.encode())
        try:
            h.update(open(p, "rb").read())
        except OSError:
            h.update(b"<missing>")
    h.update(open(os.path.abspath(__file__), "rb").read()[:0])   # (the generator itself does not affect the sources)
    return h.hexdigest()[:16]


def regenerate(log=lambda s: None):
    """Returns (gendir, list of generated domain names). Cached by the hash of all generator inputs."""
    key = inputs_hash()
    top = os.path.join(common.BUILD, "cif-" + key)
    gen = os.path.join(top, "gen")
    stamp = os.path.join(top, "gen.stamp")
    with common.Lock("cif-gen"):
        if not os.path.exists(stamp):
            for old in glob.glob(os.path.join(common.BUILD, "cif-*")):
                if old != top and os.path.isdir(old) and _stale(old):
                    shutil.rmtree(old, ignore_errors=True)
            shutil.rmtree(top, ignore_errors=True)
            os.makedirs(gen)
            # the m4 include path: a private dir holding ppl_interface_instantiations.m4 (configure output),
            # then interfaces/C and interfaces/ of the tree
            inst = os.path.join(top, "inst")
            os.makedirs(inst)
            shutil.copy(_path("interfaces/ppl_interface_instantiations.m4"), inst)
            R = common.REPO
            inc = ["-I" + inst, "-I" + os.path.join(R, "interfaces", "C"), "-I" + os.path.join(R, "interfaces")]
            for m4file, blob in (("ppl_interface_generator_c_cc_files.m4", "ppl_c_cc_blob"),
                                 ("ppl_interface_generator_c_hh_files.m4", "ppl_c_hh_blob")):
                rc, out = common.sh("m4 --prefix-builtin %s %s > %s" % (" ".join(inc), os.path.join(R, "interfaces", "C", m4file), blob),
                                    cwd=gen, timeout=600)
                if rc != 0:
                    raise common.BuildError("m4 %s failed:\n%s" % (m4file, out[-3000:]))
                for script in ("cm_cleaner.sh", "cm_splitter.sh"):
                    rc, out = common.sh(["sh", os.path.join(R, "utils", script), "./" + blob], cwd=gen, timeout=600)
                    if rc != 0:
                        raise common.BuildError("%s failed:\n%s" % (script, out[-3000:]))
                os.remove(os.path.join(gen, blob))
            rc, out = common.sh("m4 --prefix-builtin %s %s > ppl_c_domains.h" % (" ".join(inc), os.path.join(R, "interfaces", "C", "ppl_interface_generator_c_h.m4")),
                                cwd=gen, timeout=600)
            if rc != 0:
                raise common.BuildError("m4 ppl_c_domains.h failed:\n%s" % out[-3000:])
            # hand-written parts are COPIED beside the generated ones, so that `#include "ppl_c.h"` from
            # them finds the regenerated header and not a stale build product in the repository
            for rel in ("interfaces/C/ppl_c_implementation_common.cc", "interfaces/C/ppl_c_implementation_common_defs.hh",
                        "interfaces/C/ppl_c_implementation_common_inlines.hh", "interfaces/C/ppl_c_header.h",
                        "interfaces/C/ppl_c_version.h", "interfaces/interfaced_boxes.hh", "interfaces/marked_pointers.hh"):
                shutil.copy(_path(rel), gen)
            bh = os.path.join(top, "build_header")
            with open(bh, "w") as f:
                f.write(open(_path("utils/build_header.in")).read().replace("@PERL@", "/usr/bin/perl"))
            rc, out = common.sh("perl %s -I . -I %s ppl_c_header.h > ppl_c.h" % (bh, os.path.join(R, "src")), cwd=gen, timeout=600)
            if rc != 0 or os.path.getsize(os.path.join(gen, "ppl_c.h")) < 1000:
                raise common.BuildError("build_header ppl_c.h failed:\n%s" % out[-3000:])
            # ppl.hh of the repository is a (possibly stale) build product: this shim reads the tree's headers
            with open(os.path.join(gen, "ppl.hh"), "w") as f:
                f.write('#include "ppl_header.hh"\n')
            open(stamp, "w").write("ok\n")
            log("regenerated the C interface from m4 into %s" % os.path.relpath(gen, common.VERIF))
    doms = sorted(os.path.basename(p)[len("ppl_c_"):-3] for p in glob.glob(os.path.join(gen, "ppl_c_*.cc"))
                  if os.path.basename(p) != "ppl_c_implementation_common.cc")
    return top, gen, doms


def include_flags(gen, libdir):
    R = common.REPO
    return ["-I" + gen, "-I" + os.path.join(libdir, "cfg"), "-I" + os.path.join(R, "src"), "-I" + R]


def preprocess(gen, libdir, fname):
    rc, out = common.sh(["g++", "-std=c++11", "-E", "-DHAVE_CONFIG_H"] + include_flags(gen, libdir) + [os.path.join(gen, fname)],
                        timeout=600)
    if rc != 0:
        raise common.BuildError("preprocessing %s failed:\n%s" % (fname, out[-3000:]))
    return out


def main_file_text(ii, fname):
    """Keep only the text whose line markers name the main file."""
    keep, cur = [], False
    base = os.path.basename(fname)
    for line in ii.split("\n"):
        m = re.match(r'# \d+ "([^"]*)"', line)
        if m:
            cur = os.path.basename(m.group(1)) == base
            continue
        if cur:
            keep.append(line)
    return "\n".join(keep)


TOKEN = re.compile(r'\s+|("(?:[^"\\]|\\.)*")|(\'(?:[^\'\\]|\\.)*\')|([A-Za-z_][A-Za-z0-9_]*)|(\d[\w.]*)|(::|->|<<=|>>=|<<|>>|<=|>=|==|!=|&&|\|\||\+\+|--|[-+*/%&|^]=|\.\.\.|.)', re.S)


def tokenize(txt):
    toks = []
    for m in TOKEN.finditer(txt):
        if m.group(0).strip() == "":
            continue
        toks.append(m.group(0))
    return toks


KEYWORDS = {"if", "for", "while", "switch", "return", "sizeof", "catch", "static_cast", "reinterpret_cast",
            "const_cast", "dynamic_cast", "case", "else", "do", "throw", "new", "delete", "typeid", "alignof",
            "decltype", "noexcept", "operator", "int", "unsigned", "long", "char", "void", "bool", "size_t",
            "double", "float", "short", "signed", "const", "using", "namespace", "typedef", "struct", "enum"}


NORETURN = {"ppl_unreachable", "ppl_unreachable_msg", "abort", "__builtin_unreachable"}


def match_close(toks, i, op, cl):
    """toks[i] == op; returns index of the matching closer."""
    d = 0
    while i < len(toks):
        if toks[i] == op:
            d += 1
        elif toks[i] == cl:
            d -= 1
            if d == 0:
                return i
        i += 1
    raise ValueError("unbalanced %s" % op)


def calls_in(toks):
    """Names of everything that is (syntactically) called / constructed in a token list:
    identifier followed by `(` (not a keyword), `new T`, `delete`, operator<< style stream output
    is reported as `operator<<`, assignment through `=` of class objects is not visible syntactically."""
    out = []
    n = len(toks)
    for i, t in enumerate(toks):
        if t == "new":
            j = i + 1
            name = []
            while j < n and (re.match(r"[A-Za-z_]", toks[j]) or toks[j] in ("::", "<", ">", ",")):
                name.append(toks[j]); j += 1
                if toks[j - 1] == ">" and name.count("<") == name.count(">"):
                    break
            out.append("new " + "".join(name))
        elif t == "delete":
            out.append("delete")
        elif t == "throw":
            out.append("throw")
        elif t == "<<" or t == ">>":
            out.append("operator" + t)
        elif re.match(r"[A-Za-z_]", t) and t not in KEYWORDS and i + 1 < n and toks[i + 1] == "(":
            out.append(t)
    return out


def split_statements(toks):
    """Split a brace-less token list (the inside of a block) into top-level statements."""
    stmts, cur, i, n = [], [], 0, len(toks)
    while i < n:
        t = toks[i]
        if t == "(":
            j = match_close(toks, i, "(", ")"); cur += toks[i:j + 1]; i = j + 1; continue
        if t == "{":
            j = match_close(toks, i, "{", "}"); cur += toks[i:j + 1]; i = j + 1
            # a block ends a statement unless followed by else / while (do-while) / ; (initializer) / catch
            if i < n and toks[i] in ("else", "catch"):
                continue
            if i < n and toks[i] == "while" and cur and cur[0] == "do":
                continue
            if i < n and toks[i] == ";":
                cur.append(";"); i += 1
            stmts.append(cur); cur = []
            continue
        cur.append(t); i += 1
        if t == ";":
            # `if (c) stmt; else stmt;`
            if i < n and toks[i] == "else":
                continue
            stmts.append(cur); cur = []
    if cur:
        stmts.append(cur)
    return stmts


def ends_in_return(toks):
    """Conservative: True only when every path through the statement list provably ends in return/throw."""
    stmts = split_statements(toks)
    if not stmts:
        return False
    return stmt_returns(stmts[-1])


def stmt_returns(s):
    if not s:
        return False
    if s[0] in ("return", "throw"):
        return True
    if any(t in NORETURN for t in s):          # PPL_UNREACHABLE: a [[noreturn]] call
        return True
    if s[0] == "{":
        j = match_close(s, 0, "{", "}")
        return ends_in_return(s[1:j])
    if s[0] == "if":
        j = match_close(s, 1, "(", ")")
        rest = s[j + 1:]
        # then-part
        if rest and rest[0] == "{":
            k = match_close(rest, 0, "{", "}")
            then, after = rest[:k + 1], rest[k + 1:]
        else:
            # single statement up to the first top-level ;
            k = 0; d = 0
            while k < len(rest):
                if rest[k] in "({": d += 1
                elif rest[k] in ")}": d -= 1
                elif rest[k] == ";" and d == 0: break
                k += 1
            then, after = rest[:k + 1], rest[k + 1:]
        if not after or after[0] != "else":
            return False
        return stmt_returns(then) and stmt_returns(after[1:])
    if s[0] == "switch":
        j = match_close(s, 1, "(", ")")
        if s[j + 1] != "{":
            return False
        k = match_close(s, j + 1, "{", "}")
        body = s[j + 2:k]
        if "default" not in body:
            return False
        # every case group must end in return (no break at top level, last statement returns)
        groups, cur = [], []
        for st in split_statements(body):
            # strip leading labels
            while st and (st[0] == "case" or st[0] == "default"):
                c = st.index(":")
                if cur:
                    groups.append(cur); cur = []
                st = st[c + 1:]
            if st:
                cur.append(st)
        if cur:
            groups.append(cur)
        return all(stmt_returns(g[-1]) for g in groups) and bool(groups)
    return False


def addr_of_local_stored(param_toks, body):
    """Syntactic fact: statements `*P = ... &V ...;` where P is a pointer PARAMETER and V a non-static, non-reference,
    non-pointer LOCAL object of the body (its address dies with the call).  Returns [(P, V)]."""
    params = set()
    cur = []
    for t in param_toks + [","]:
        if t == ",":
            if "*" in cur and cur and re.match(r"[A-Za-z_]\w*$", cur[-1]):
                params.add(cur[-1])
            cur = []
        else:
            cur.append(t)
    out = []
    def scan(toks):
        locs = set()
        for st in split_statements(toks):
            if not st:
                continue
            if st[0] == "{":
                j = match_close(st, 0, "{", "}"); scan(st[1:j]); continue
            if st[0] in ("if", "for", "while", "switch", "else", "do"):
                for k, t in enumerate(st):
                    if t == "{":
                        j = match_close(st, k, "{", "}"); scan(st[k + 1:j]); break
                continue
            # declaration?  [type tokens] name (= | ( | ;)
            head, depth = [], 0
            for t in st:
                if t in ("<",): depth += 1
                if t in (">",): depth -= 1
                if depth == 0 and t in ("=", "(", ";"):
                    break
                head.append(t)
            if len(head) >= 2 and re.match(r"[A-Za-z_]\w*$", head[-1]) and head[0] not in ("static", "return", "delete", "using", "typedef", "*") \
               and head[-2] not in ("&", "*", ".", "->", "::") and head[0] != head[-1]:
                locs.add(head[-1])
            if len(st) >= 4 and st[0] == "*" and st[1] in params and st[2] == "=":
                for k in range(3, len(st) - 1):
                    if st[k] == "&" and st[k - 1] in ("(", "=", ",") and st[k + 1] in locs:
                        out.append((st[1], st[k + 1]))
        return locs
    scan(body)
    return out


def timeout_calls(body):
    """Ordered time-out related actions of a body: ("call", helper) for reset_timeout()/reset_deterministic_timeout(),
    ("new", slot, kind) for `slot = new Watchdog(...)` / `slot = new Weightwatch(...)`, ("delete", slot) for `delete slot`."""
    out = []
    for k, t in enumerate(body):
        if t in ("reset_timeout", "reset_deterministic_timeout") and k + 1 < len(body) and body[k + 1] == "(":
            out.append(["call", t])
        elif t == "new" and k + 1 < len(body) and body[k + 1] in ("Watchdog", "Weightwatch"):
            j = k - 1
            slot = body[j - 1] if j >= 1 and body[j] == "=" else "?"
            out.append(["new", slot, body[k + 1]])
        elif t == "delete" and k + 1 < len(body) and re.match(r"p_\w+$", body[k + 1]):
            out.append(["delete", body[k + 1]])
    return out


def parse_handler(ptoks, btoks):
    """catch (ptoks) { btoks }"""
    p = [t for t in ptoks if t not in ("const", "&")]
    if p == ["..."]:
        ctype = "..."
    else:
        # drop the variable name when there is one (`std::bad_alloc e`)
        if len(p) >= 2 and re.match(r"[A-Za-z_]", p[-1]) and re.match(r"[A-Za-z_]", p[-2]):
            p = p[:-1]
        ctype = "".join(p)
        if "*" in ptoks:
            ctype = "ptr:" + ctype
    stmts = split_statements(btoks)
    ret = None
    if stmts and stmts[-1][0] == "return":
        ret = "".join(stmts[-1][1:-1])
    actions = []
    for st in stmts:
        for c in calls_in(st):
            if c == "notify_error":
                j = st.index("notify_error")
                k = match_close(st, j + 1, "(", ")")
                arg0 = []
                for t in st[j + 2:k]:
                    if t == ",":
                        break
                    arg0.append(t)
                actions.append("notify:" + "".join(arg0))
            else:
                actions.append("call:" + c)
    return {"ctype": ctype, "ret": ret, "actions": actions, "returns": ends_in_return(btoks)}


def parse_tu(text, fname):
    """Returns (entries, helpers): function definitions at global scope / inside namespaces."""
    toks = tokenize(text)
    entries, helpers = [], []

    def walk(lo, hi, in_ns):
        i = lo
        decl = []
        while i < hi:
            t = toks[i]
            if t == ";":
                decl = []; i += 1; continue
            if t == "(":
                j = match_close(toks, i, "(", ")"); decl += toks[i:j + 1]; i = j + 1; continue
            if t == "{":
                j = match_close(toks, i, "{", "}")
                if decl and decl[0] == "namespace":
                    walk(i + 1, j, True); decl = []; i = j + 1; continue
                if decl[:2] == ["extern", '"C"'] and len(decl) == 2:
                    walk(i + 1, j, in_ns); decl = []; i = j + 1; continue
                is_fun = "(" in decl and decl[0] not in ("class", "struct", "enum", "union", "typedef") and "=" not in decl_top(decl)
                if not is_fun:
                    # class/struct/enum body or initializer: skip to the terminating ;
                    i = j + 1
                    while i < hi and toks[i] != ";":
                        if toks[i] == "{":
                            i = match_close(toks, i, "{", "}")
                        i += 1
                    decl = []; i += 1; continue
                p = decl.index("(")
                name = decl[p - 1]
                q = match_close(decl, p, "(", ")")
                trailer = decl[q + 1:]
                has_try = "try" in trailer
                body = toks[i + 1:j]
                rec = {"name": name, "file": fname, "ret_type": " ".join(t for t in decl[:p - 1] if t not in ("static", "inline", "extern")),
                       "static": "static" in decl[:p - 1], "inline": "inline" in decl[:p - 1],
                       "params": "".join(_sp(decl[p + 1:q])), "has_try": has_try, "in_ns": in_ns,
                       "body_returns": ends_in_return(body), "chain": [],
                       "calls": calls_in(body), "inner_try": "try" in body,
                       "addr_of_local": addr_of_local_stored(decl[p + 1:q], body),
                       "tcalls": timeout_calls(body),
                       "static_objs": [body[k + 1] for k in range(len(body) - 2) if body[k] == "static" and body[k + 2] not in ("(", "*")]}
                i = j + 1
                if has_try:
                    while i < hi and toks[i] == "catch":
                        a = match_close(toks, i + 1, "(", ")")
                        b = match_close(toks, a + 1, "{", "}")
                        rec["chain"].append(parse_handler(toks[i + 2:a], toks[a + 2:b]))
                        i = b + 1
                (helpers if (in_ns or rec["static"] or rec["inline"]) else entries).append(rec)
                decl = []
                continue
            decl.append(t); i += 1

    def decl_top(d):
        out, depth = [], 0
        for t in d:
            if t == "(":
                depth += 1
            elif t == ")":
                depth -= 1
            elif depth == 0:
                out.append(t)
        return out

    walk(0, len(toks), False)
    return entries, helpers


def _sp(ts):
    out = []
    for k, t in enumerate(ts):
        if out and re.match(r"\w", t[0]) and re.match(r"\w", out[-1][-1]):
            out.append(" ")
        out.append(t)
    return out


def parse_header(gen):
    """Prototypes and the error-code enum of the regenerated ppl_c.h (preprocessed as C)."""
    rc, out = common.sh(["gcc", "-E", "-x", "c", os.path.join(gen, "ppl_c.h")], timeout=300)
    if rc != 0:
        raise common.BuildError("preprocessing ppl_c.h failed:\n%s" % out[-3000:])
    text = main_file_text(out, "ppl_c.h")
    toks = tokenize(text)
    protos, enums = [], {}
    i, decl = 0, []
    while i < len(toks):
        t = toks[i]
        if t == "{":
            j = match_close(toks, i, "{", "}")
            if decl[:1] == ["enum"] and len(decl) == 2:
                val = -1
                items = {}
                cur = []
                for u in toks[i + 1:j] + [","]:
                    if u == ",":
                        if cur:
                            if "=" in cur:
                                e = cur.index("=")
                                try:
                                    val = int("".join(cur[e + 1:]), 0)
                                except ValueError:
                                    val = None
                            else:
                                val = None if val is None else val + 1
                            items[cur[0]] = val
                        cur = []
                    else:
                        cur.append(u)
                enums[decl[1]] = items
            i = j + 1
            continue
        if t == ";":
            if "(" in decl and decl[0] != "typedef":
                p = decl.index("(")
                q = match_close(decl, p, "(", ")")
                protos.append({"name": decl[p - 1], "ret_type": " ".join(x for x in decl[:p - 1] if x != "extern"),
                               "params": "".join(_sp(decl[p + 1:q]))})
            decl = []; i += 1; continue
        if t == "(":
            j = match_close(toks, i, "(", ")"); decl += toks[i:j + 1]; i = j + 1; continue
        decl.append(t); i += 1
    return protos, enums


# ---------------------------------------------------------------------------------------------------
# Coq output
# ---------------------------------------------------------------------------------------------------

CLS = {"std::exception": "Exception", "std::bad_alloc": "BadAlloc", "std::logic_error": "LogicError",
       "std::invalid_argument": "InvalidArgument", "std::domain_error": "DomainError",
       "std::length_error": "LengthError", "std::out_of_range": "OutOfRange", "std::runtime_error": "RuntimeError",
       "std::overflow_error": "OverflowError", "std::range_error": "RangeError", "std::underflow_error": "UnderflowError",
       "std::system_error": "SystemError", "std::ios_base::failure": "IosFailure",
       "std::bad_cast": "BadCast", "std::bad_typeid": "BadTypeid", "std::bad_exception": "BadException",
       "timeout_exception": "Timeout", "deterministic_timeout_exception": "DetTimeout",
       "Parma_Polyhedra_Library::Interfaces::C::timeout_exception": "Timeout",
       "Parma_Polyhedra_Library::Interfaces::C::deterministic_timeout_exception": "DetTimeout",
       "Throwable": "Throwable", "Parma_Polyhedra_Library::Throwable": "Throwable"}

CODES = ["PPL_ERROR_OUT_OF_MEMORY", "PPL_ERROR_INVALID_ARGUMENT", "PPL_ERROR_DOMAIN_ERROR", "PPL_ERROR_LENGTH_ERROR",
         "PPL_ARITHMETIC_OVERFLOW", "PPL_STDIO_ERROR", "PPL_ERROR_INTERNAL_ERROR", "PPL_ERROR_UNKNOWN_STANDARD_EXCEPTION",
         "PPL_ERROR_UNEXPECTED_ERROR", "PPL_TIMEOUT_EXCEPTION", "PPL_ERROR_LOGIC_ERROR"]


def coq_str(s):
    return '"' + s.replace('"', '""') + '"'


def coq_ctype(c):
    if c == "...":
        return "CT_ellipsis"
    if c in CLS:
        return "(CT_class %s)" % CLS[c]
    return "(CT_unknown %s)" % coq_str(c)


def coq_code(c):
    if c in CODES:
        return "(Code %s)" % c[4:]
    if c in ("nullptr", "NULL", "0"):
        return "NullPtr"
    return "(CodeUnknown %s)" % coq_str(str(c))


def coq_action(a):
    kind, _, arg = a.partition(":")
    if kind == "notify":
        return "(Notify %s)" % coq_code(arg)
    if arg == "reset_timeout":
        return "ResetTimeout"
    if arg == "reset_deterministic_timeout":
        return "ResetDetTimeout"
    if arg == "what":
        return "What"
    return "(OtherCall %s)" % coq_str(arg)


def coq_clause(h):
    return "(mkClause %s %s [%s] %s)" % (coq_ctype(h["ctype"]), coq_code(h["ret"]),
                                         "; ".join(coq_action(a) for a in h["actions"]), "true" if h["returns"] else "false")


def write_coq(facts, path):
    chains = {}
    lines = ["(* GENERATED by tools/translate_cif.py from the regenerated C interface -- do not edit. *)",
             "From Coq Require Import List String ZArith.", "Require Import PPLV.CIface.Exn PPLV.CIface.Entries.",
             "Import ListNotations.", "Open Scope string_scope.", ""]
    def chain_id(ch):
        key = json.dumps(ch, sort_keys=True)
        if key not in chains:
            chains[key] = ("chain_%d" % len(chains), ch)
        return chains[key][0]
    ent_lines = []
    files = sorted({e["file"] for e in facts["entries"]})
    for e in sorted(facts["entries"], key=lambda e: e["name"]):
        cid = chain_id(e["chain"])
        calls = "[]" if e["has_try"] else "[%s]" % "; ".join(coq_str(c) for c in e["calls"])
        ent_lines.append("  mkEntry %s %d %s %s %s %s %s" % (coq_str(e["name"]), files.index(e["file"]),
                                                           "true" if e["has_try"] else "false", cid, calls,
                                                           "true" if e["body_returns"] else "false",
                                                           "true" if "*" in e["ret_type"] else "false"))
    for key, (cid, ch) in chains.items():
        lines.append("Definition %s : chain := [\n  %s]." % (cid, ";\n  ".join(coq_clause(h) for h in ch)))
    lines.append("")
    lines.append("Definition used_chains : list chain := [%s]." % "; ".join(c for c, _ in chains.values()))
    lines.append("Definition files : list string := [%s]." % "; ".join(coq_str(f) for f in files))
    lines.append("")
    # entries, split in chunks (one big list literal is slow to parse)
    CH = 200
    chunks = []
    for k in range(0, len(ent_lines), CH):
        nm = "entries_%d" % (k // CH)
        chunks.append(nm)
        lines.append("Definition %s : list entry := [\n%s]." % (nm, ";\n".join(ent_lines[k:k + CH])))
    lines.append("Definition entries : list entry := %s." % (" ++ ".join(chunks) if chunks else "[]"))
    lines.append("Definition entries_count : nat := %d." % len(ent_lines))
    lines.append("")
    pl = [coq_str(n) for n in sorted(p["name"] for p in facts["protos"])]
    chunks = []
    for k in range(0, len(pl), 400):
        nm = "protos_%d" % (k // 400)
        chunks.append(nm)
        lines.append("Definition %s : list string := [\n  %s]." % (nm, ";\n  ".join(pl[k:k + 400])))
    lines.append("Definition prototypes : list string := %s." % (" ++ ".join(chunks) if chunks else "[]"))
    lines.append("")
    en = facts["enums"].get("ppl_enum_error_code", {})
    lines.append("Definition enum_error_code : list (ecode * Z) := [\n  %s]." %
                 ";\n  ".join("(%s, (%d)%%Z)" % (k[4:], v) for k, v in en.items() if k in CODES and v is not None))
    lines.append("Definition enum_error_code_names : list string := [%s]." % "; ".join(coq_str(k) for k in en))
    lines.append("")
    hl = []
    for h in facts["helpers"]:
        hl.append("  (%s, [%s])" % (coq_str(h["name"]), "; ".join(coq_str(c) for c in h["calls"])))
    lines.append("(* entries for which the compiler reports that the address of a temporary is stored through an output parameter *)")
    lines.append("Definition dangling_outputs : list string := [%s]." % "; ".join(coq_str(n) for n in sorted(facts.get("dangling", {}))))
    regs = []
    for e in sorted(facts["entries"], key=lambda e: e["name"]):
        if e["name"] in ("ppl_set_timeout", "ppl_set_deterministic_timeout"):
            for t in e.get("static_objs", []):
                regs.append("(%s, %s)" % (coq_str(e["name"]), coq_ctype(t)))
    lines.append("(* the exception object each time-out setter hands to the watchdog (its `static T e;`) *)")
    lines.append("Definition timeout_registrations : list (string * ctype) := [%s]." % "; ".join(regs))
    lines.append("")
    TENT = ("ppl_set_timeout", "ppl_reset_timeout", "ppl_set_deterministic_timeout", "ppl_reset_deterministic_timeout")
    def coq_tcall(tc, e):
        if tc[0] == "call":
            return "(TCall %s)" % coq_str(tc[1])
        if tc[0] == "new":
            so = e.get("static_objs", [])
            return "(TNew %s %s %s)" % (coq_str(tc[1]), coq_str(tc[2]), coq_ctype(so[0]) if so else "(CT_unknown \"?\")")
        return "(TDelete %s)" % coq_str(tc[1])
    tl = []
    for e in sorted(facts["entries"], key=lambda e: e["name"]):
        if e["name"] in TENT:
            tl.append("  (%s, [%s])" % (coq_str(e["name"]), "; ".join(coq_tcall(tc, e) for tc in e.get("tcalls", []))))
    lines.append("(* time-out related actions, in order, of the four registration entries, and of the reset helpers *)")
    lines.append("Definition timeout_entry_bodies : list (string * list tcall) := [\n%s]." % ";\n".join(tl))
    hl2 = []
    for h in facts["helpers"]:
        if h["name"].startswith("reset_"):
            hl2.append("  (%s, [%s])" % (coq_str(h["name"]), "; ".join(coq_tcall(tc, h) for tc in h.get("tcalls", []))))
    lines.append("Definition timeout_helper_bodies : list (string * list tcall) := [\n%s]." % ";\n".join(hl2))
    lines.append("")
    lines.append("(* bodies of the functions the handlers call: list of calls they make *)")
    lines.append("Definition handler_helpers : list (string * list string) := [\n%s]." % ";\n".join(hl))
    os.makedirs(os.path.dirname(path), exist_ok=True)
    txt = "\n".join(lines) + "\n"
    old = open(path).read() if os.path.exists(path) else None
    if old != txt:
        with open(path, "w") as f:
            f.write(txt)
    return len(chains)


def collect(log=lambda s: None, libdir=None):
    libdir = libdir or common.build_lib("mpz")
    top, gen, doms = regenerate(log)
    cache = os.path.join(top, "facts-%s.json" % common.tree_hash("facts")[:12])
    selfhash = hashlib.sha256(open(os.path.abspath(__file__), "rb").read()).hexdigest()[:12]
    if os.path.exists(cache):
        facts = json.load(open(cache))
        if facts.get("translator") == selfhash:
            return top, gen, doms, facts
    entries, helpers = [], []
    import concurrent.futures as cf
    names = ["ppl_c_implementation_common.cc"] + ["ppl_c_%s.cc" % d for d in doms]
    with cf.ThreadPoolExecutor(max_workers=common.NCPU) as ex:
        iis = list(ex.map(lambda n: preprocess(gen, libdir, n), names))
    for n, ii in zip(names, iis):
        es, hs = parse_tu(main_file_text(ii, n), n)
        entries += es
        if n == "ppl_c_implementation_common.cc":
            helpers += [h for h in hs if h["name"] in ("notify_error", "reset_timeout", "reset_deterministic_timeout")]
    protos, enums = parse_header(gen)
    facts = {"translator": selfhash, "entries": entries, "helpers": helpers, "protos": protos, "enums": enums, "domains": doms}
    with open(cache, "w") as f:
        json.dump(facts, f)
    return top, gen, doms, facts


if __name__ == "__main__":
    top, gen, doms, facts = collect(print)
    n = write_coq(facts, os.path.join(common.COQ, "gen", "Facts_CIface.v"))
    print("domains", doms)
    print("entries", len(facts["entries"]), "protos", len(facts["protos"]), "chains", n)
    print("no-try:", [(e["name"], e["calls"]) for e in facts["entries"] if not e["has_try"]])
    print("no-return:", [e["name"] for e in facts["entries"] if not e["body_returns"]])
    print("enum", facts["enums"].get("ppl_enum_error_code"))
    print("helpers", [(h["name"], h["calls"]) for h in facts["helpers"]])


# ---------------------------------------------------------------------------------------------------
# compiling the regenerated interface (cached beside the generated sources, keyed by the tree hash)
# ---------------------------------------------------------------------------------------------------

def build_objects(top, gen, libdir, names, log=lambda s: None):
    """names: e.g. ["implementation_common", "Polyhedron"]; returns (object files, {entry: warning}) where the
    second component lists the functions for which g++ -Wdangling-pointer=2 reports that the address of a
    local/temporary is stored through an output parameter."""
    import concurrent.futures as cf
    odir = os.path.join(top, "obj-" + os.path.basename(libdir))
    for old in glob.glob(os.path.join(top, "obj-*")):
        if old != odir and _stale(old):
            shutil.rmtree(old, ignore_errors=True)
    os.makedirs(odir, exist_ok=True)
    flags = ["-std=c++11", "-DHAVE_CONFIG_H"] + include_flags(gen, libdir) + ["-O1", "-frounding-math", "-Wdangling-pointer=2", "-Wreturn-local-addr"]
    todo, objs = [], []
    for n in names:
        o = os.path.join(odir, "ppl_c_%s.o" % n)
        objs.append(o)
        if not (os.path.exists(o) and os.path.exists(o + ".log")):
            todo.append((n, o))
    def one(no):
        n, o = no
        rc, out = common.sh(["g++"] + flags + ["-c", os.path.join(gen, "ppl_c_%s.cc" % n), "-o", o + ".tmp"], timeout=1800)
        if rc != 0:
            raise common.BuildError("compiling regenerated ppl_c_%s.cc failed:\n%s" % (n, out[-3000:]))
        with open(o + ".log", "w") as f:
            f.write(out)
        os.rename(o + ".tmp", o)
    if todo:
        import time
        t0 = time.time()
        with common.Lock("cif-obj"):
            with cf.ThreadPoolExecutor(max_workers=max(1, common.NCPU // 2)) as ex:
                list(ex.map(one, todo))
        log("compiled %d regenerated interface files in %.1fs" % (len(todo), time.time() - t0))
    dangling = {}
    for o in objs:
        cur = None
        for line in open(o + ".log"):
            m = re.search("In function [\u2018'][^\u2019']*?\\b(\\w+)\\(", line)
            if m:
                cur = m.group(1)
            if "warning:" in line and ("-Wdangling-pointer" in line or "-Wreturn-local-addr" in line) and cur:
                dangling[cur] = line.strip()[-160:]
    return objs, dangling


def defined_symbols(objs):
    """Global text symbols defined by the compiled interface objects (nm): ties the parsed entry list to the binary."""
    out = {}
    for o in objs:
        rc, txt = common.sh(["nm", "-g", "--defined-only", o], timeout=120)
        for line in txt.split("\n"):
            f = line.split()
            if len(f) == 3 and f[1] in ("T", "W"):
                out[f[2]] = os.path.basename(o)
    return out
