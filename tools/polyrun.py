"""Run case files through a C++ harness (with crash isolation) and an OCaml judge; parse the verdicts."""
import os, re, subprocess, collections
import common


def split_cases(lines):
    cases, cur = [], None
    for l in lines:
        if l.startswith("case "):
            cur = [l]; cases.append(cur)
        elif cur is not None:
            cur.append(l)
    return cases


def run_harness(exe, cases, workdir, tag, timeout=600):
    """Run all cases; a crash / hang of the harness is attributed to the case being executed, that case is
    dropped from the judged set and reported separately. Returns (kept_cases, obs_text, crashes)
    where crashes = [(case_lines, crashing_line, how)]."""
    os.makedirs(workdir, exist_ok=True)
    kept, obs, crashes = [], [], []
    todo = list(cases)
    rnd = 0
    while todo:
        rnd += 1
        cf = os.path.join(workdir, "%s.%d.case" % (tag, rnd))
        with open(cf, "w") as f:
            for c in todo:
                f.write("\n".join(c) + "\n")
        try:
            p = subprocess.run([exe, cf], stdout=subprocess.PIPE, stderr=subprocess.PIPE, text=True, timeout=timeout)
            rc, out, err = p.returncode, p.stdout, p.stderr
        except subprocess.TimeoutExpired as e:
            rc, out, err = 124, (e.stdout.decode() if isinstance(e.stdout, bytes) else (e.stdout or "")), "timeout"
        blocks = split_cases(out.split("\n"))
        if rc == 0:
            kept += todo; obs += [l for b in blocks for l in b]
            break
        # the harness died inside case number len(blocks)-1 of this round
        k = max(len(blocks) - 1, 0)
        done = todo[:k]
        kept += done
        obs += [l for b in blocks[:k] for l in b]
        bad = todo[k] if k < len(todo) else todo[-1]
        # which line: count the responses the harness produced for this case
        produced = blocks[k][1:] if k < len(blocks) else []
        nresp = len([l for l in produced if l.split(" ")[0] in ("res", "ans", "obs", "endst")])
        cmds = [l for l in bad[1:] if l.split(" ")[0] in ("new", "copy", "twin", "op", "qry", "obs", "stall")]
        line = cmds[nresp] if nresp < len(cmds) else "(unknown)"
        how = "timeout" if rc == 124 else ("harness-error" if rc == 3 else "crash rc=%d %s" % (rc, (err or "").strip()[-200:]))
        if rc == 3:
            raise RuntimeError("harness rejected a case line (generator/harness bug): %s" % out[-400:])
        crashes.append((bad, line, how))
        todo = todo[k + 1:]
    return kept, "\n".join(obs) + "\n", crashes


Finding = collections.namedtuple("Finding", "verdict case step kind line detail")


def run_judge(judge, kept, obs_text, workdir, tag, timeout=3000):
    cf = os.path.join(workdir, tag + ".kept.case")
    of = os.path.join(workdir, tag + ".obs")
    with open(cf, "w") as f:
        for c in kept:
            f.write("\n".join(c) + "\n")
    with open(of, "w") as f:
        f.write(obs_text)
    # the verified procedures are worst-case exponential: cap the judge's address space so that a blow-up inside
    # one time budget becomes Out_of_memory (caught: that check is UNDECIDED) instead of taking the machine down
    rc, out = common.sh("ulimit -v 6000000; exec %s %s %s" % (judge, cf, of), timeout=timeout)
    res, stat, cov = [], {}, {}
    for l in out.split("\n"):
        if l.startswith("FAIL ") or l.startswith("UNDECIDED "):
            head, *rest = l.split(" | ")
            h = head.split(" ")
            res.append(Finding(h[0], h[1], int(h[2]), h[3], rest[0] if rest else "", rest[1] if len(rest) > 1 else ""))
        elif l.startswith("STAT "):
            t = l.split(" ")
            stat = {t[i]: int(t[i + 1]) for i in range(1, len(t) - 1, 2)}
        elif l.startswith("COV "):
            t = l.split(" ")
            cov[t[1]] = int(t[2])
    if rc != 0 or not stat:
        raise RuntimeError("judge failed (rc=%s): %s" % (rc, out[-1500:]))
    return res, stat, cov


def case_by_id(cases):
    return {c[0].split(" ")[1]: c for c in cases}
