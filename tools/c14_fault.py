"""C14(b): drive harness/run_fault.cc over a list of scenarios with crash isolation and collect the per-position records."""
import os, re, subprocess, concurrent.futures as cf

KV = re.compile(r"(\w+)=(\S*)")


def parse_kv(line):
    return dict(KV.findall(line))


def run_one(exe, mode, name, maxk=100000, layers="ng", timeout=300, max_restarts=400):
    """Returns dict(name, positions=[records], crashes=[records], done=dict|None, leakinfo={k: rec}, gmpcallers=str, timeouts=n)."""
    out = {"name": name, "mode": mode, "positions": [], "crashes": [], "done": None, "leakinfo": {}, "gmpcallers": "", "timeouts": 0, "final": None}
    startk = 1
    restarts = 0
    while True:
        cmd = [exe, mode, name, str(maxk), layers, str(startk)]
        try:
            p = subprocess.run(cmd, stdout=subprocess.PIPE, stderr=subprocess.PIPE, text=True, timeout=timeout, errors="replace")
            rc, txt, err = p.returncode, p.stdout, p.stderr
        except subprocess.TimeoutExpired as e:
            rc, txt, err = 124, (e.stdout if isinstance(e.stdout, str) else (e.stdout or b"").decode(errors="replace")), "timeout"
        last_fault = None
        for l in txt.split("\n"):
            if l.startswith("fault "):
                last_fault = parse_kv(l)
            elif l.startswith("k="):
                r = parse_kv(l)
                if r.get("fired") == "0" or "checkpoints" in r:
                    out["final"] = r
                else:
                    out["positions"].append(r)
                last_fault = None
            elif l.startswith("leakinfo "):
                r = parse_kv(l); out["leakinfo"][r.get("k")] = r
            elif l.startswith("done "):
                out["done"] = parse_kv(l)
            elif l.startswith("gmpcallers"):
                out["gmpcallers"] = l[len("gmpcallers"):].strip()
        if rc == 0:
            break
        # the harness died: during the call of position k (no fault line) or during the checks after it
        restarts += 1
        how = "timeout" if rc == 124 else "signal/abort rc=%d %s" % (rc, (err or "").strip().replace("\n", " ")[-160:])
        if last_fault is not None:
            k = int(last_fault["k"])
            rec = dict(last_fault); rec["phase"] = "after-fault"; rec["how"] = how
        else:
            done_ks = [int(r["k"]) for r in out["positions"]]
            k = max(done_ks + [startk - 1]) + 1
            rec = {"k": str(k), "phase": "during-call", "how": how, "at": "?"}
        out["crashes"].append(rec)
        if rc == 124:
            out["timeouts"] += 1
        startk = k + 1
        if restarts >= max_restarts or (rc == 124 and out["timeouts"] >= 2):
            break
    return out


def run_many(exe, mode, names, maxk=100000, layers="ng", jobs=None, timeout=300):
    jobs = jobs or max(2, (os.cpu_count() or 4) - 2)
    res = {}
    with cf.ThreadPoolExecutor(max_workers=jobs) as ex:
        futs = {ex.submit(run_one, exe, mode, n, maxk, layers, timeout): n for n in names}
        for f in cf.as_completed(futs):
            res[futs[f]] = f.result()
    return [res[n] for n in names]


def frames_of(rec):
    at = rec.get("at", "?")
    return [f for f in at.split("<") if f] if at not in ("?", "-", "") else []
