"""C14(a): ill-formed (and borderline well-formed) calls on polyhedra, enumerated from the case structure of
coq/Except/Precond.v: for every operation each conjunct of the documented precondition is falsified alone and in pairs,
on receivers in several lazy states.  Every generated call comes with the SHAPE request handed to the extracted model
(ocaml/judge_except.ml), which alone decides the expected outcome.  Deterministic in the seed."""
import random, itertools

MAXDIM = "MAX"


def triv_of(kind, b, coefs):
    if any(coefs): return "N"
    if kind == "=": return "T" if b == 0 else "I"
    if kind == ">=": return "T" if b >= 0 else "I"
    return "T" if b > 0 else "I"


class Con:
    def __init__(self, n, kind, b, coefs): self.n, self.kind, self.b, self.coefs = n, kind, b, list(coefs) + [0] * (n - len(coefs))
    def text(self): return "%d %s %d %s" % (self.n, self.kind, self.b, " ".join(map(str, self.coefs)))
    def body(self): return "%s %d %s" % (self.kind, self.b, " ".join(map(str, self.coefs)))
    def shape(self): return "%d %d %s" % (self.n, 1 if self.kind == ">" else 0, triv_of(self.kind, self.b, self.coefs))
    def row(self): return "%d %s" % (1 if self.kind == ">" else 0, triv_of(self.kind, self.b, self.coefs))


def cs_text(n, cons): return "%d %d %s" % (n, len(cons), " ".join(c.body() for c in cons))
def cs_shape(n, cons): return "%d %d %s" % (n, len(cons), " ".join(c.row() for c in cons))


class Gen:
    def __init__(self, n, kind, coefs, div=1): self.n, self.kind, self.div, self.coefs = n, kind, div, list(coefs) + [0] * (n - len(coefs))
    def text(self): return "%d %s %d %s" % (self.n, self.kind, self.div, " ".join(map(str, self.coefs)))
    def body(self): return "%s %d %s" % (self.kind, self.div, " ".join(map(str, self.coefs)))
    def shape(self): return "%d %s" % (self.n, self.kind)


def gs_text(n, gens): return "%d %d %s" % (n, len(gens), " ".join(g.body() for g in gens))
def gs_shape(n, gens):
    """kinds as seen through Generator_System::const_iterator (skip_forward): a closure point IMMEDIATELY FOLLOWED by the matching point is skipped"""
    vis = []
    for i, g in enumerate(gens):
        if g.kind == "c" and i + 1 < len(gens) and gens[i + 1].kind == "p" and gens[i + 1].coefs == g.coefs and gens[i + 1].div == g.div: continue
        vis.append(g)
    return "%d %d %s" % (n, len(vis), " ".join(g.kind for g in vis))


class Cg:
    def __init__(self, n, m, b, coefs): self.n, self.m, self.b, self.coefs = n, m, b, list(coefs) + [0] * (n - len(coefs))
    def text(self): return "%d %d %d %s" % (self.n, self.m, self.b, " ".join(map(str, self.coefs)))
    def body(self): return "%d %d %s" % (self.m, self.b, " ".join(map(str, self.coefs)))
    def triv(self):
        if any(self.coefs): return "N"
        if self.m == 0: return "T" if self.b == 0 else "I"
        return "T" if self.b % self.m == 0 else "I"
    def shape(self): return "%d %d %s" % (self.n, 1 if self.m != 0 else 0, self.triv())
    def row(self): return "%d %s" % (1 if self.m != 0 else 0, self.triv())


def cgs_text(n, cgs): return "%d %d %s" % (n, len(cgs), " ".join(c.body() for c in cgs))
def cgs_shape(n, cgs): return "%d %d %s" % (n, len(cgs), " ".join(c.row() for c in cgs))


def expr_text(n, b, coefs): return "%d %d %s" % (n, b, " ".join(map(str, list(coefs) + [0] * (n - len(coefs)))))


class Obj:
    def __init__(self, oid, topo, dim, empty, line): self.oid, self.topo, self.dim, self.empty, self.line = oid, topo, dim, empty, line
    def shape(self): return "%s %d %d" % (self.topo, self.dim, 1 if self.empty else 0)


def unit(n, i, c=1):
    v = [0] * n
    if i < n: v[i] = c
    return v


def make_objects(r, n):
    """receiver kinds: non-empty (constraints / generators), marked empty, empty but not detected; both topologies; other dimension"""
    objs = []
    def cons_line(oid, topo, dim, empty):
        cons = []
        for i in range(dim):
            lo, hi = r.randint(-3, 0), r.randint(1, 4)
            cons.append(Con(dim, ">=", -lo, unit(dim, i)))
            cons.append(Con(dim, ">" if topo == "NNC" and r.random() < 0.3 else ">=", hi, unit(dim, i, -1)))
        if empty and dim > 0:
            cons.append(Con(dim, ">=", -6, unit(dim, 0)))      # x0 >= 6 contradicts x0 <= hi <= 4: empty, not detected
        elif empty:
            cons.append(Con(0, ">=", -1, []))
        return "new %d %s %d cons %d %s" % (oid, topo, dim, len(cons), " ".join(c.body() for c in cons))
    def gens_line(oid, topo, dim):
        gens = [Gen(dim, "p", [r.randint(-2, 2) for _ in range(dim)], r.choice([1, 1, 2]))]
        for i in range(min(dim, 2)): gens.append(Gen(dim, r.choice("pr"), unit(dim, i, r.choice([1, 2, -1]))))
        if dim == 0: gens = gens[:1]
        return "new %d %s %d gens %d %s" % (oid, topo, dim, len(gens), " ".join(g.body() for g in gens))
    return cons_line, gens_line


LAZY = ["", "minimized_constraints", "generators", "minimized_generators", "constraints"]


def calls_for(r, X, Y, Zt, Zd):
    """All generated calls on receiver X.  Y: compatible partner, Zt: other topology (same dim), Zd: other dimension (same topology).
    Returns a list of (name, harness text after 'xop <id> ', shape request after the receiver)."""
    n, t, x = X.dim, X.topo, X.oid
    out = []
    def add(name, text, shape): out.append((name, "xop %d %s" % (x, text), shape))
    closed = (t == "C")
    dims = [n, n + 1, n + 3]
    # ---- constraints ----
    for d in dims:
        for kind in ("=", ">=", ">"):
            for trivial in (None, "T", "I"):
                if trivial is None: c = Con(d, kind, r.randint(-2, 2), [r.choice([1, -1, 2])] + [r.randint(-1, 1) for _ in range(d - 1)]) if d > 0 else None
                elif trivial == "T": c = Con(d, kind, 0 if kind == "=" else 1, [])
                else: c = Con(d, kind, -1, [])
                if c is None: continue
                add("add_constraint", "add_constraint " + c.text(), "add_constraint " + c.shape())
                add("refine_with_constraint", "refine_with_constraint " + c.text(), "refine_with_constraint " + c.shape())
                add("relation_with_con", "relation_with_con " + c.text(), "relation_with_con " + c.shape())
    for d in dims:
        for pat in (["nn"], ["ns"], ["si"], ["st", "n"], ["si", "ns"], []):
            cons = []
            for p in pat:
                if p == "nn": cons.append(Con(d, ">=", 1, unit(d, 0)) if d else Con(d, ">=", 1, []))
                elif p == "ns": cons.append(Con(d, ">", 2, unit(d, 0, -1)) if d else Con(d, ">", 1, []))
                elif p == "si": cons.append(Con(d, ">", -1, []))
                elif p == "st": cons.append(Con(d, ">", 1, []))
                elif p == "n": cons.append(Con(d, "=", 0, unit(d, d - 1)) if d else Con(d, "=", 0, []))
            for op in ("add_constraints", "add_recycled_constraints", "refine_with_constraints"):
                add(op, "%s %s" % (op, cs_text(d, cons)), "%s %s" % (op, cs_shape(d, cons)))
            for wid in ("limited_H79_extrapolation_assign", "bounded_BHRZ03_extrapolation_assign", "limited_BHRZ03_extrapolation_assign", "bounded_H79_extrapolation_assign"):
                for P in (Y, Zt, Zd):
                    # with the compatible partner the call is generated only when some rung certainly fires: an ACCEPTED widening needs y <= x,
                    # which is a documented but unchecked precondition (violating it is undefined behaviour, not a C14 matter)
                    certain = bool(cons) and (d > n or (closed and any(c.kind == ">" and triv_of(c.kind, c.b, c.coefs) != "T" for c in cons)))
                    if P is Y and not certain: continue
                    if r.random() < 0.35:
                        add("limited_extrapolation", "%s %d %s" % (wid, P.oid, cs_text(d, cons)), "limited_extrapolation %s %s" % (P.shape(), cs_shape(d, cons)))
    # ---- generators ----
    for d in dims:
        for k in "lrpc":
            if d == 0 and k in "lr": continue
            g = Gen(d, k, [r.randint(-2, 2) for _ in range(d)] if k in "pc" else unit(d, 0), 1)
            add("add_generator", "add_generator " + g.text(), "add_generator " + g.shape())
            add("relation_with_gen", "relation_with_gen " + g.text(), "relation_with_gen " + g.shape())
        for pat in (["p"], ["r"], ["p", "r"], ["c", "p"], ["c"], ["r", "l"], []):
            if d == 0 and any(k in "rl" for k in pat): continue
            gens = [Gen(d, k, [r.randint(-2, 2) for _ in range(d)] if k in "pc" else unit(d, i % d), 1) for i, k in enumerate(pat)]
            for op in ("add_generators", "add_recycled_generators"):
                add(op, "%s %s" % (op, gs_text(d, gens)), "%s %s" % (op, gs_shape(d, gens)))
    # ---- congruences ----
    for d in dims:
        for (m, b, nz) in ((0, 1, True), (2, 1, True), (2, 0, False), (2, 1, False), (0, 0, False), (0, 3, False)):
            if nz and d == 0: continue
            cg = Cg(d, m, b, unit(d, 0) if nz else [])
            for op in ("add_congruence", "refine_with_congruence", "relation_with_cg"):
                add(op, "%s %s" % (op, cg.text()), "%s %s" % (op, cg.shape()))
        for pat in ([(0, 1, True)], [(2, 1, True)], [(2, 0, False), (0, 1, True)], [(2, 1, False), (3, 1, True)], [(3, 1, True), (2, 1, False)], [(2, 0, False), (3, 1, True)], []):
            if d == 0 and any(p[2] for p in pat): continue
            cgs = [Cg(d, m, b, unit(d, 0) if nz else []) for (m, b, nz) in pat]
            for op in ("add_congruences", "refine_with_congruences"):
                add(op, "%s %s" % (op, cgs_text(d, cgs)), "%s %s" % (op, cgs_shape(d, cgs)))
    # ---- binary operations ----
    for P in (Y, Zt, Zd):
        for op in ("intersection_assign", "poly_hull_assign", "upper_bound_assign", "poly_difference_assign", "time_elapse_assign", "H79_widening_assign",
                   "BHRZ03_widening_assign", "simplify_using_context_assign", "contains", "strictly_contains", "is_disjoint_from", "swap"):
            if P is Y and op not in ("contains", "is_disjoint_from", "strictly_contains"): continue     # accepted mutators change the receiver: the well-formed stream covers them
            if op == "swap" and P is Zd: continue     # swap only checks the topology
            add("binary:" + op, "%s %d" % (op, P.oid), "binary %s %s" % (op, P.shape()))
        if P is Zt:
            add("concatenate_assign", "concatenate_assign %d" % P.oid, "concatenate_assign %s" % P.shape())
    # ---- affine images ----
    for (v, e, den) in itertools.product((0, n - 1, n, n + 2), (n, n + 1), (1, -2, 0)):
        if v < 0: continue
        if v < n and e <= n and den != 0: continue        # accepted: well-formed stream
        ex = expr_text(e, r.randint(-2, 2), [r.randint(-2, 2) for _ in range(e)])
        d0 = 1 if den == 0 else 0
        for op in ("affine_image", "affine_preimage"):
            add(op, "%s %d %d %s" % (op, v, den, ex), "%s %d %d %d" % (op, v, e, d0))
        for rel in ("<", "<=", "==", ">=", ">", "!="):
            for op in ("generalized_affine_image", "generalized_affine_preimage"):
                if r.random() < 0.5: add(op, "%s %d %s %d %s" % (op, v, rel, den, ex), "%s %d %s %d %d" % (op, v, rel, e, d0))
    # bounded images: variable, lower bound, upper bound, denominator falsified alone and in pairs
    for (v, lb, ub, den) in itertools.product((max(n - 1, 0), n), (n, n + 1), (n, n + 1), (1, 0)):      # boundary values: one past the space dimension
        bad = (v >= n) + (lb > n) + (ub > n) + (den == 0)
        if bad == 0 or bad > 2: continue
        lx = expr_text(lb, r.randint(-2, 2), [r.randint(-2, 2) for _ in range(lb)]); ux = expr_text(ub, 1, [1] * ub)
        for op in ("bounded_affine_image", "bounded_affine_preimage"):
            add(op, "%s %d %d %s %s" % (op, v, den, lx, ux), "%s %d %d %d %d" % (op, v, lb, ub, 1 if den == 0 else 0))
    if n > 0:
        ex = expr_text(n, 1, [1] * n)
        for rel in (("!=",) + (("<", ">") if closed else ())):
            for op in ("generalized_affine_image", "generalized_affine_preimage"):
                add(op, "%s %d %s %d %s" % (op, 0, rel, 1, ex), "%s %d %s %d %d" % (op, 0, rel, n, 0))
    for (l, e) in itertools.product((n, n + 1), (n, n + 2)):
        for rel in ("<", "<=", "==", ">=", ">", "!="):
            if l <= n and e <= n and rel not in ("!=",) and not (closed and rel in "<>"): continue
            lx = expr_text(l, 0, [1] + [0] * (l - 1) if l else []); ex = expr_text(e, 1, [1] * e)
            for op in ("generalized_affine_image_lhs", "generalized_affine_preimage_lhs"):
                add(op, "%s %s %s %s" % (op, lx, rel, ex), "%s %d %s %d" % (op, l, rel, e))
    # ---- variables / dimensions ----
    for v in (n, n + 1, n + 5):
        add("unconstrain", "unconstrain %d" % v, "unconstrain %d" % v)
        add("constrains", "constrains %d" % v, "constrains %d" % v)
        add("expand_space_dimension", "expand_space_dimension %d 1" % v, "expand_space_dimension %d 1" % v)
        add("fold_space_dimensions", "fold_space_dimensions 0 %d" % v, "fold_space_dimensions 0 %d" % v)
    for vs in ([n], [0, n + 1] if n else [1], [n + 2, n + 3]):
        txt = "%d %s" % (len(vs), " ".join(map(str, vs)))
        add("unconstrain_set", "unconstrain_set " + txt, "unconstrain_set " + txt)
        add("remove_space_dimensions", "remove_space_dimensions " + txt, "remove_space_dimensions " + txt)
        if n > 0: add("fold_space_dimensions", "fold_space_dimensions %s 0" % txt, "fold_space_dimensions %s 0" % txt)
    if n > 1:
        add("fold_space_dimensions", "fold_space_dimensions 2 0 1 1", "fold_space_dimensions 2 0 1 1")       # destination inside the set
        add("fold_space_dimensions", "fold_space_dimensions 2 0 %d 0" % (n + 1), "fold_space_dimensions 2 0 %d 0" % (n + 1))   # two conjuncts
    for nd in (n + 1, n + 4):
        add("remove_higher_space_dimensions", "remove_higher_space_dimensions %d" % nd, "remove_higher_space_dimensions %d" % nd)
    # space-dimension overflow (length_error): MAX - n + 1 new dimensions
    for op in ("add_space_dimensions_and_embed", "add_space_dimensions_and_project"):
        add(op, "%s MAX-%d" % (op, max(n - 1, 0)) if n >= 1 else "%s MAX+1" % op, "%s @MAXM%d" % (op, n - 1))
        add(op, "%s MAX" % op if n >= 1 else "%s MAX+2" % op, "%s @MAXM%d" % (op, 0 if n >= 1 else -2))
    if n >= 1:
        add("expand_space_dimension", "expand_space_dimension 0 MAX", "expand_space_dimension 0 @MAXM0")
        add("expand_space_dimension", "expand_space_dimension %d MAX" % n, "expand_space_dimension %d @MAXM0" % n)
    # ---- expressions in queries ----
    for e in (n + 1, n + 3):
        ex = expr_text(e, 1, [1] * e)
        for op, sh in (("bounds_from_above", "bounds"), ("bounds_from_below", "bounds"), ("maximize", "max_min"), ("minimize", "max_min"), ("frequency", "frequency")):
            add(sh, "%s %s" % (op, ex), "%s %d" % (sh, e))
    return out


def ctor_calls(r, oid):
    out = []
    def add(name, text, shape): out.append((name, "xop %d %s" % (oid, text), shape))
    for t in ("C", "NNC"):
        add("ctor_dim", "ctor_dim %s MAX+1" % t, "ctor_dim @MAXM-1")
        add("ctor_dim", "ctor_dim %s MAX+7" % t, "ctor_dim @MAXM-7")
        for pat in (["p"], ["r"], ["c"], ["c", "p"], ["r", "l"], ["p", "c", "r"]):
            gens = [Gen(2, k, [r.randint(-2, 2), r.randint(-2, 2)] if k in "pc" else unit(2, i % 2), 1) for i, k in enumerate(pat)]
            add("ctor_gens", "ctor_gens %s %s" % (t, gs_text(2, gens)), "ctor_gens %s %s" % (t, gs_shape(2, gens)))
        for pat in ([">"], [">=", ">"], [">="]):
            cons = [Con(2, k, 1, unit(2, i % 2)) for i, k in enumerate(pat)]
            add("ctor_cons", "ctor_cons %s %s" % (t, cs_text(2, cons)), "ctor_cons %s %s" % (t, cs_shape(2, cons)))
    return out


def make_cases(seed, ncases, per_case=40):
    """Returns (lines, meta) where meta[case_id] = list of per-xop dicts {name, shape, recv} in order of appearance."""
    r = random.Random(seed)
    lines, meta = [], {}
    for ci in range(ncases):
        cid = "r%d" % ci
        n = r.choice([0, 1, 2, 2, 3])
        t = r.choice(["C", "NNC"]); ot = "NNC" if t == "C" else "C"
        cons_line, gens_line = make_objects(r, n)
        kind = r.choice(["cons", "gens", "empty", "hidden-empty", "universe"])
        if kind == "cons": xl, xe = cons_line(0, t, n, False), False
        elif kind == "gens": xl, xe = gens_line(0, t, n), False
        elif kind == "empty": xl, xe = "new 0 %s %d empty" % (t, n), True
        elif kind == "hidden-empty": xl, xe = cons_line(0, t, n, True), True
        else: xl, xe = "new 0 %s %d universe" % (t, n), False
        X = Obj(0, t, n, xe, xl)
        Y = Obj(1, t, n, False, gens_line(1, t, n))
        Zt = Obj(2, ot, n, False, gens_line(2, ot, n))
        Zd = Obj(3, t, n + 1, False, "new 3 %s %d cons 2 >= 1 %s >= 3 %s" % (t, n + 1, " ".join(map(str, unit(n + 1, 0))), " ".join(map(str, unit(n + 1, n, -1)))))
        cl = ["case %s" % cid] + [o.line for o in (X, Y, Zt, Zd)]
        lazy = r.choice(LAZY)
        if lazy: cl.append("obs 0 %s" % lazy)
        cl.append("obs 0 is_empty")
        calls = calls_for(r, X, Y, Zt, Zd)
        r.shuffle(calls)
        calls = calls[:per_case] + (ctor_calls(r, 9) if ci % 5 == 0 else [])
        m = []
        for (name, text, shape) in calls:
            cl.append(text)
            query = name.startswith("relation_with") or name in ("constrains", "bounds", "max_min", "frequency", "ctor_dim", "ctor_cons", "ctor_gens") \
                or name in ("binary:contains", "binary:strictly_contains", "binary:is_disjoint_from")
            m.append({"name": name, "shape": shape, "topo": t, "dim": n, "line": text, "kind": kind, "lazy": lazy, "query": query})
            if not query: cl.append("obs 0 is_empty")      # a borderline call may have been accepted and emptied the receiver
            # the receiver is still usable: a follow-up well-formed operation whose exact result the poly judge verifies
            if r.random() < 0.25:
                if n > 0:
                    v = r.randrange(n); co = [0] * n; co[v] = 1
                    cl.append("op 0 affine_image %d 1 %s" % (v, expr_text(n, r.randint(-2, 2), co)))
                else:
                    cl.append("op 0 topological_closure_assign")
        cl.append("stall"); cl.append("end")
        lines += cl; meta[cid] = {"calls": m, "empty": xe}
    return lines, meta
