"""C06: generator of MIP_Problem histories in the case language of harness/run_mip.cc.

A problem is drawn from a FAMILY aimed at one branch of the solver (see FAMILIES), then turned into a
history by a SHAPE (how the data reaches the object and which queries are interleaved).
Everything is derived from the seed given to make_cases()."""
import random

PRICINGS = ["F", "E", "T"]


def lin(coefs, b):
    return "%d %d %s" % (len(coefs), b, " ".join(str(a) for a in coefs)) if coefs else "0 %d" % b


def con(c):
    kind, coefs, b = c
    return "%s %s" % (kind, lin(coefs, b))


def unit(d, i, a=1):
    v = [0] * d; v[i] = a; return v


def rrow(rng, d, lo=-5, hi=5, dense=0.7):
    while True:
        v = [rng.randint(lo, hi) if rng.random() < dense else 0 for _ in range(d)]
        if any(v):
            return v


def box(d, lo, hi, which=None):
    cs = []
    for i in (range(d) if which is None else which):
        cs.append((">=", unit(d, i, 1), -lo))
        cs.append((">=", unit(d, i, -1), hi))
    return cs


def subset(rng, d, mode):
    if mode == "all": return list(range(d))
    if mode == "none": return []
    return [i for i in range(d) if rng.random() < 0.5]


# ------------------------------------------------------------------------------------------------
# families: each returns dict(dim, cons, ints, obj=(coefs,b), mode)

def fam_box(rng):
    """bounded box [0,u]^d, all integer, a few random rows (the family of the DESIGN 4.3 defect)"""
    d = rng.randint(2, 4); u = rng.randint(2, 5)
    cs = box(d, 0, u)
    for _ in range(rng.randint(1, 4)):
        cs.append((">=", rrow(rng, d, -3, 3, 0.9), rng.randint(-6, 6)))
    return dict(dim=d, cons=cs, ints=list(range(d)), obj=(rrow(rng, d, -3, 3), 0), mode=rng.choice(["max", "min"]))


def fam_random(rng):
    d = rng.randint(1, 4)
    cs = [(rng.choice([">=", ">=", ">=", "="]), rrow(rng, d), rng.randint(-5, 5)) for _ in range(rng.randint(1, 6))]
    if rng.random() < 0.6:   # sign restrictions keep most of them bounded below
        cs += [(">=", unit(d, i), 0) for i in range(d) if rng.random() < 0.8]
    return dict(dim=d, cons=cs, ints=subset(rng, d, rng.choice(["all", "some", "some", "none"])),
                obj=(rrow(rng, d), rng.randint(-3, 3)), mode=rng.choice(["max", "min"]))


def fam_degenerate(rng):
    """more than d constraints tight at one vertex"""
    d = rng.randint(2, 3); v = [rng.randint(-2, 3) for _ in range(d)]
    cs = []
    for _ in range(d + rng.randint(1, 3)):
        a = rrow(rng, d, -4, 4)
        cs.append((">=", a, -sum(x * y for x, y in zip(a, v))))
    cs += box(d, -4, 6, which=[i for i in range(d) if rng.random() < 0.7])
    return dict(dim=d, cons=cs, ints=subset(rng, d, rng.choice(["all", "some", "none"])),
                obj=(rrow(rng, d), 0), mode=rng.choice(["max", "min"]))


def fam_free(rng):
    """variables without sign restriction, negative ranges (split / merged variables of `mapping`)"""
    d = rng.randint(1, 3)
    cs = []
    for i in range(d):
        lo = rng.randint(-6, -1); hi = rng.randint(lo, 4)
        r = rng.random()
        if r < 0.6: cs += [(">=", unit(d, i), -lo), (">=", unit(d, i, -1), hi)]
        elif r < 0.8: cs += [(">=", unit(d, i, -1), hi)]                 # only an upper bound
    for _ in range(rng.randint(1, 3)):
        cs.append((">=", rrow(rng, d, -4, 4), rng.randint(0, 8)))
    rng.shuffle(cs)
    return dict(dim=d, cons=cs, ints=subset(rng, d, rng.choice(["all", "some", "none"])),
                obj=(rrow(rng, d), rng.randint(-2, 2)), mode=rng.choice(["max", "min"]))


def fam_equalities(rng):
    d = rng.randint(2, 4)
    cs = box(d, 0, rng.randint(3, 6))
    for _ in range(rng.randint(1, 2)):
        a = rrow(rng, d, -4, 4)
        pt = [rng.randint(0, 3) for _ in range(d)]
        b = -sum(x * y for x, y in zip(a, pt)) + (rng.choice([0, 0, 0, 1]) if rng.random() < 0.3 else 0)
        cs.append(("=", a, b))
    rng.shuffle(cs)
    return dict(dim=d, cons=cs, ints=subset(rng, d, rng.choice(["all", "some", "none"])),
                obj=(rrow(rng, d), 0), mode=rng.choice(["max", "min"]))


def fam_redundant(rng):
    p = fam_box(rng) if rng.random() < 0.5 else fam_random(rng)
    d = p["dim"]; cs = list(p["cons"]); extra = []
    for _ in range(rng.randint(1, 3)):
        k, a, b = rng.choice(cs); r = rng.random()
        if r < 0.3: extra.append((k, a, b))                                        # duplicate
        elif r < 0.5: m = rng.randint(2, 3); extra.append((k, [m * x for x in a], m * b))  # scaled
        elif r < 0.7 and k == ">=": extra.append((k, a, b + rng.randint(1, 3)))      # weaker
        elif r < 0.85: extra.append((">=", [0] * d, rng.randint(0, 2)))               # tautology
        else:
            k2, a2, b2 = rng.choice(cs)
            if k == ">=" and k2 == ">=": extra.append((">=", [x + y for x, y in zip(a, a2)], b + b2))  # sum of two rows
    cs += extra; rng.shuffle(cs)
    p["cons"] = cs
    return p


def fam_slab(rng):
    """an integer variable confined to a slab without integer point, another direction unbounded:
    LP relaxation unbounded (or feasible) while the MIP is infeasible"""
    d = rng.randint(2, 3); m = rng.randint(2, 5); k = rng.randint(-2, 3); r = rng.randint(1, m - 1)
    # m*x0 >= m*k + r  and  m*x0 <= m*k + r' with r <= r' < m
    r2 = rng.randint(r, m - 1)
    cs = [(">=", unit(d, 0, m), -(m * k + r)), (">=", unit(d, 0, -m), m * k + r2)]
    if rng.random() < 0.5: cs.append((">=", unit(d, 1), 0))
    if d == 3 and rng.random() < 0.5: cs += box(d, 0, 3, which=[2])
    rng.shuffle(cs)
    ints = [0] + [i for i in range(1, d) if rng.random() < 0.4]
    obj = unit(d, 1, rng.choice([1, 2, -1])); obj[0] = rng.randint(-1, 1)
    return dict(dim=d, cons=cs, ints=ints, obj=(obj, 0), mode=rng.choice(["max", "max", "min"]))


def fam_unbounded(rng):
    """LP relaxation unbounded and the MIP feasible; the relaxation's vertex is fractional on an integer variable"""
    d = rng.randint(2, 3); m = rng.randint(2, 5); k = rng.randint(-2, 3) * m + rng.randint(1, m - 1)
    cs = [(">=", unit(d, 0, m), -k)]
    if rng.random() < 0.5: cs.append((">=", unit(d, 0, -1), k // m + rng.randint(1, 3)))
    if rng.random() < 0.7: cs.append((">=", unit(d, 1), rng.randint(0, 2)))
    if d == 3: cs.append((">=", rrow(rng, d, -2, 2), rng.randint(0, 4)))
    rng.shuffle(cs)
    ints = [0] + [i for i in range(1, d) if rng.random() < 0.4]
    obj = unit(d, 1, rng.choice([1, 2, 3])); obj[0] = rng.randint(-1, 1)
    return dict(dim=d, cons=cs, ints=ints, obj=(obj, rng.randint(-1, 1)), mode="max")


def fam_deep(rng):
    """thin feasible regions whose LP optimum is fractional: several branchings are needed"""
    d = rng.randint(2, 3)
    a = [rng.randint(2, 5) for _ in range(d)]
    b = sum(a) * rng.randint(1, 3) + rng.randint(1, min(a) - 1 if min(a) > 1 else 1)
    cs = [(">=", [-x for x in a], b)] + [(">=", unit(d, i), 0) for i in range(d)]
    a2 = rrow(rng, d, -5, 5, 1.0)
    cs.append((">=", a2, rng.randint(-3, 3)))
    if rng.random() < 0.5:
        a3 = [x + rng.choice([-1, 0, 1]) for x in a]
        cs.append((">=", a3, -(b - rng.randint(1, 4))))
    rng.shuffle(cs)
    obj = [x + rng.choice([-1, 0, 1]) for x in a]
    return dict(dim=d, cons=cs, ints=list(range(d)) if rng.random() < 0.7 else subset(rng, d, "some"),
                obj=(obj, 0), mode=rng.choice(["max", "max", "min"]))


def fam_parallel(rng):
    """objective parallel to a facet: several optimal points"""
    p = fam_box(rng) if rng.random() < 0.6 else fam_deep(rng)
    rows = [c for c in p["cons"] if sum(1 for x in c[1] if x) >= 2] or p["cons"]
    k, a, b = rng.choice(rows)
    s = rng.choice([1, 2, -1])
    p["obj"] = ([s * x for x in a], rng.randint(-1, 1))
    if rng.random() < 0.5: p["ints"] = subset(rng, p["dim"], "some")
    return p


def fam_tiny(rng):
    """dimension 0/1 corner cases, empty constraint systems, trivially false rows"""
    d = rng.randint(0, 1)
    cs = []
    r = rng.random()
    if r < 0.3: cs.append((">=", [0] * d, rng.choice([-1, 0, 1])))
    elif r < 0.5: cs.append(("=", [0] * d, rng.choice([0, 0, 1])))
    if d == 1:
        for _ in range(rng.randint(0, 3)):
            cs.append((rng.choice([">=", ">=", "="]), [rng.choice([-3, -2, -1, 1, 2, 3])], rng.randint(-4, 4)))
    return dict(dim=d, cons=cs, ints=subset(rng, d, rng.choice(["all", "none"])),
                obj=([rng.randint(-2, 2)] * d, rng.randint(-1, 1)), mode=rng.choice(["max", "min"]))


def _dot(a, v): return sum(x * y for x, y in zip(a, v))


def fam_depeq(rng):
    """equalities through a (often degenerate) vertex, with linearly DEPENDENT ones -- duplicated, scaled, integer combinations --
    inserted at every position; sign restrictions as `x >= 0' rows (not tableau rows), so that the tableau is made of the equalities
    and artificial variables of redundant / degenerate rows end the first phase in the base at level zero"""
    d = rng.randint(2, 3)
    pt = [rng.choice([0, 0, 1, 2, 3]) for _ in range(d)]
    k = rng.randint(1, d)
    base = []
    for _ in range(k):
        a = rrow(rng, d, -3, 3, 0.9); base.append((a, -_dot(a, pt)))
    rows = list(base)
    for _ in range(rng.randint(1, 3)):
        r = rng.random()
        if r < 0.3:
            a, b = rng.choice(base); new = (list(a), b)
        elif r < 0.6 or len(base) < 2:
            a, b = rng.choice(base); m = rng.choice([2, 3, -1, -2]); new = ([m * x for x in a], m * b)
        else:
            (a1, b1), (a2, b2) = rng.sample(base, 2); m1 = rng.choice([1, 2, -1]); m2 = rng.choice([1, -1, 2])
            new = ([m1 * x + m2 * y for x, y in zip(a1, a2)], m1 * b1 + m2 * b2)
        if not any(new[0]): continue
        if rng.random() < 0.08: new = (new[0], new[1] + 1)      # inconsistent copy: infeasible
        rows.insert(rng.randint(0, len(rows)), new)               # every position, the last one included
    cons = [("=", a, b) for a, b in rows]
    if rng.random() < 0.3:
        a = rrow(rng, d, -3, 3); cons.insert(rng.randint(0, len(cons)), (">=", a, -_dot(a, pt) + rng.choice([0, 0, 1, 2])))
    signs = [(">=", unit(d, i), 0) for i in range(d) if rng.random() < 0.85]
    r = rng.random()
    if r < 0.4: cons = signs + cons
    elif r < 0.8: cons = cons + signs
    else:
        cons = cons + signs; rng.shuffle(cons)
    ints = []
    if rng.random() < 0.2:
        cons += box(d, 0, 5); ints = subset(rng, d, rng.choice(["all", "some"]))
    return dict(dim=d, cons=cons, ints=ints, obj=(rrow(rng, d, -3, 3), rng.randint(-1, 1)), mode=rng.choice(["max", "min"]))


FAMILIES = [("depeq", fam_depeq, 3), ("box", fam_box, 4), ("random", fam_random, 3), ("degenerate", fam_degenerate, 2), ("free", fam_free, 2),
            ("equalities", fam_equalities, 2), ("redundant", fam_redundant, 2), ("slab", fam_slab, 1),
            ("unbounded", fam_unbounded, 1), ("deep", fam_deep, 2), ("parallel", fam_parallel, 2), ("tiny", fam_tiny, 1)]


# ------------------------------------------------------------------------------------------------
# shapes: problem -> list of command lines

QUERIES = ["solve", "issat", "fpoint", "opoint", "oval"]


def eval_cmd(rng, d):
    den = rng.choice([1, 1, 2, 3])
    return "eval %d %d %s" % (d, den, " ".join(str(rng.randint(-4, 4)) for _ in range(d))) if d else "eval 0 1"


def ints_cmd(ints):
    return "ints %d %s" % (len(ints), " ".join(str(i) for i in ints)) if ints else "ints 0"


def shape_oneshot(rng, p, pricing):
    """constructor with everything, one solve and the read-outs"""
    L = ["newfull %d %s %s %d %s" % (p["dim"], p["mode"], lin(*p["obj"]), len(p["cons"]), " ".join(con(c) for c in p["cons"]))]
    if pricing != "F" or rng.random() < 0.3: L.append("ctl " + pricing)
    if p["ints"]: L.append(ints_cmd(p["ints"]))
    L += ["solve", "oval", "opoint"]
    if rng.random() < 0.5: L.append("fpoint")
    return L


def shape_onebyone(rng, p, pricing, every=None):
    """DESIGN 4.3 shape: integer variables first, constraints one by one, is_satisfiable() after every k-th"""
    every = every or rng.choice([1, 2, 2, 3])
    L = ["new %d" % p["dim"], "ctl " + pricing]
    if p["ints"]: L.append(ints_cmd(p["ints"]))
    for i, c in enumerate(p["cons"]):
        L.append("addc " + con(c))
        if (i + 1) % every == 0: L.append(rng.choice(["issat", "issat", "issat", "fpoint"]))
    L += ["obj " + lin(*p["obj"]), "mode " + p["mode"], "solve", "oval", "opoint"]
    return L


def shape_resolve(rng, p, pricing):
    """solve, then change the objective / mode / add a constraint, solve again"""
    k = rng.randint(1, len(p["cons"])) if p["cons"] else 0
    L = ["new %d" % p["dim"]]
    if rng.random() < 0.7: L.append("ctl " + pricing)
    first = p["ints"] and rng.random() < 0.5
    if first: L.append(ints_cmd(p["ints"]))
    if k: L.append("addcs %d %s" % (k, " ".join(con(c) for c in p["cons"][:k])))
    L += ["obj " + lin(*p["obj"]), "mode " + p["mode"], rng.choice(["solve", "oval", "opoint"])]
    if not first and p["ints"]: L += [ints_cmd(p["ints"]), rng.choice(QUERIES)]
    for c in p["cons"][k:]:
        L.append("addc " + con(c))
        if rng.random() < 0.6: L.append(rng.choice(QUERIES))
    d = p["dim"]
    if d:
        o2 = (rrow(rng, d, -4, 4), rng.randint(-2, 2))
        L += ["obj " + lin(*o2), rng.choice(["solve", "oval"])]
    L += ["mode " + ("min" if p["mode"] == "max" else "max"), rng.choice(["solve", "oval", "opoint"])]
    if rng.random() < 0.5 and pricing != "F": L += ["ctl " + rng.choice(PRICINGS), "solve"]
    return L


def shape_mixed(rng, p, pricing):
    """random interleaving of the mutators (the data of p arrives in pieces, possibly after new dimensions were added) and queries"""
    d = p["dim"]
    d0 = d if d == 0 or rng.random() < 0.6 else rng.randint(max(1, d - 2), d)      # start with fewer dimensions
    L = ["new %d" % d0]
    cur = d0
    pend_cons = list(p["cons"]); pend_ints = list(p["ints"])
    todo = []
    if cur < d: todo.append("dims")
    todo += ["obj", "mode", "ctl"]
    steps = 0
    def fits(c): return all(x == 0 for x in c[1][cur:])
    while steps < 14 and (pend_cons or pend_ints or todo or steps < 4):
        steps += 1
        r = rng.random()
        avail_c = [c for c in pend_cons if fits(c)]
        avail_i = [i for i in pend_ints if i < cur]
        if r < 0.35 and avail_c:
            if rng.random() < 0.5 or len(avail_c) == 1:
                c = avail_c[0]; pend_cons.remove(c); L.append("addc " + con((c[0], c[1][:cur], c[2])))
            else:
                k = rng.randint(2, len(avail_c)); cs = avail_c[:k]
                for c in cs: pend_cons.remove(c)
                L.append("addcs %d %s" % (k, " ".join(con((c[0], c[1][:cur], c[2])) for c in cs)))
        elif r < 0.45 and avail_i:
            k = rng.randint(1, len(avail_i)); s = avail_i[:k]
            for i in s: pend_ints.remove(i)
            if rng.random() < 0.2 and p["ints"]: s = s + [rng.choice([i for i in p["ints"] if i < cur])]   # re-adding an integer variable
            L.append(ints_cmd(s))
        elif r < 0.6 and todo:
            t = todo.pop(0)
            if t == "dims": m = d - cur; L.append("dims %d" % m); cur = d
            elif t == "obj": L.append("obj " + lin(p["obj"][0][:cur], p["obj"][1]));
            elif t == "mode": L.append("mode " + p["mode"])
            elif t == "ctl": L.append("ctl " + pricing)
            if t == "obj" and cur < d: todo.append("obj")
        elif r < 0.65:
            L.append("mode " + rng.choice(["max", "min"]))
        elif r < 0.68 and cur < 4 and cur == d:
            L.append("dims %d" % rng.randint(0, 1)); cur = cur + int(L[-1].split()[1]); d = cur
        elif r < 0.72:
            L.append(eval_cmd(rng, cur))
        else:
            L.append(rng.choice(QUERIES))
    L += [rng.choice(["solve", "oval"]), rng.choice(QUERIES)]
    return L


SHAPES = [("oneshot", shape_oneshot, 3), ("onebyone", shape_onebyone, 4), ("resolve", shape_resolve, 3), ("mixed", shape_mixed, 4)]


def pick(rng, table):
    tot = sum(w for _, _, w in table)
    r = rng.random() * tot
    for name, f, w in table:
        r -= w
        if r <= 0: return name, f
    return table[-1][0], table[-1][1]


def make_cases(seed, n, start=0, families=None, shapes=None, prefix="g"):
    """returns (lines, meta) ; meta[case id] = dict(family, shape, pricing)"""
    rng = random.Random(seed)
    fams = [f for f in FAMILIES if families is None or f[0] in families]
    shps = [s for s in SHAPES if shapes is None or s[0] in shapes]
    lines, meta = [], {}
    for k in range(n):
        fname, ff = pick(rng, fams); sname, sf = pick(rng, shps)
        pricing = PRICINGS[k % 3]
        p = ff(rng)
        cid = "%s%d" % (prefix, start + k)
        body = sf(rng, p, pricing)
        lines += ["case " + cid] + body + ["end"]
        meta[cid] = dict(family=fname, shape=sname, pricing=pricing)
    return lines, meta


def known_family(seed, n, start=0):
    """exactly the family in which DESIGN 4.3's defect was found: bounded all-integer boxes, integer variables declared
    first, constraints added one by one with is_satisfiable() after every 2nd, exact pricing"""
    rng = random.Random(seed)
    lines, meta = [], {}
    for k in range(n):
        d = 3; cs = box(d, 0, 4)
        for _ in range(4):
            cs.append((">=", rrow(rng, d, -3, 3, 1.0), rng.randint(-6, 6)))
        p = dict(dim=d, cons=cs, ints=[0, 1, 2], obj=(rrow(rng, d, -3, 3), 0), mode="max")
        cid = "k%d" % (start + k)
        L = ["new 3", "ctl E", ints_cmd(p["ints"])]
        for i, c in enumerate(cs):
            L.append("addc " + con(c))
            if i % 2 == 1: L.append("issat")
        L += ["obj " + lin(*p["obj"]), "mode max", "solve", "oval", "opoint"]
        lines += ["case " + cid] + L + ["end"]
        meta[cid] = dict(family="known-box", shape="onebyone2", pricing="E")
    return lines, meta


# ------------------------------------------------------------------------------------------------
# dimensions added AFTER a first resolution, new variables with a sign / boundedness pattern of their own

SIGN_PATTERNS = ["nonneg", "nonneg", "lowneg", "negrange", "upper", "free", "box"]


def var_bounds(rng, d, i, pat):
    if pat == "nonneg":
        return [(">=", unit(d, i), 0)] + ([(">=", unit(d, i, -1), rng.randint(1, 6))] if rng.random() < 0.6 else [])
    if pat == "lowneg":
        return [(">=", unit(d, i), rng.randint(1, 5))] + ([(">=", unit(d, i, -1), rng.randint(0, 5))] if rng.random() < 0.5 else [])
    if pat == "negrange":
        lo = rng.randint(2, 6); hi = rng.randint(1, lo)
        return [(">=", unit(d, i), lo), (">=", unit(d, i, -1), -hi)]       # -lo <= x <= -hi < 0
    if pat == "upper":
        return [(">=", unit(d, i, -1), rng.randint(-3, 5))]
    if pat == "box":
        return [(">=", unit(d, i), rng.randint(1, 4)), (">=", unit(d, i, -1), rng.randint(1, 4))]
    return []


def dims_after(seed, n, start=0):
    """solve / is_satisfiable first, THEN add_space_dimensions_and_embed, then constraints on the new variables (whose sign
    pattern is drawn independently of the old variables'), rows linking old and new variables, a new objective, re-solves"""
    rng = random.Random(seed)
    lines, meta = [], {}
    for k in range(n):
        pricing = PRICINGS[k % 3]
        d0 = rng.randint(1, 2)
        L = ["new %d" % d0]
        if pricing != "F" or rng.random() < 0.3: L.append("ctl " + pricing)
        two_sided = set()
        pats = []
        for i in range(d0):
            pat = rng.choice(SIGN_PATTERNS); pats.append(pat)
            bs = var_bounds(rng, d0, i, pat)
            if len(bs) == 2: two_sided.add(i)
            for c in bs: L.append("addc " + con(c))
        if d0 == 2 and rng.random() < 0.5:
            L.append("addc " + con((">=", rrow(rng, d0, -2, 2, 1.0), rng.randint(2, 8))))
        L += ["obj " + lin(rrow(rng, d0, -2, 2), 0), "mode " + rng.choice(["max", "min"])]
        L.append(rng.choice(["solve", "solve", "issat", "fpoint", "oval"]))
        cur = d0
        for rnd in range(rng.choice([1, 1, 2])):
            m = rng.randint(1, 2) if cur < 3 else 1
            L.append("dims %d" % m)
            new = list(range(cur, cur + m)); cur += m
            cs = []
            for i in new:
                pat = rng.choice(SIGN_PATTERNS); pats.append(pat)
                bs = var_bounds(rng, cur, i, pat)
                if len(bs) == 2: two_sided.add(i)
                cs += bs
            for _ in range(rng.randint(0, 2)):      # rows linking old and new variables
                a = rrow(rng, cur, -2, 2, 0.8)
                cs.append((rng.choice([">=", ">=", ">=", "="]), a, rng.randint(0, 10)))
            if rng.random() < 0.5: rng.shuffle(cs)
            if rng.random() < 0.4 and len(cs) > 1:
                L.append("addcs %d %s" % (len(cs), " ".join(con(c) for c in cs)))
            else:
                for c in cs:
                    L.append("addc " + con(c))
                    if rng.random() < 0.15: L.append(rng.choice(["issat", "fpoint"]))
            if rng.random() < 0.25 and two_sided:
                L.append(ints_cmd(sorted(i for i in two_sided if rng.random() < 0.7) or [sorted(two_sided)[0]]))
            if rng.random() < 0.3: L.append(rng.choice(["issat", "fpoint"]))      # before the objective mentions the new variables
            o = rrow(rng, cur, -2, 2, 0.9)
            L += ["obj " + lin(o, rng.randint(-1, 1)), "mode " + rng.choice(["max", "min"]), "solve", "oval", "opoint"]
            if rng.random() < 0.5:
                L += ["obj " + lin(rrow(rng, cur, -3, 3), 0), rng.choice(["solve", "oval"])]
            if rng.random() < 0.4:
                L += ["mode " + rng.choice(["max", "min"]), rng.choice(["solve", "oval", "opoint"])]
        cid = "d%d" % (start + k)
        lines += ["case " + cid] + L + ["end"]
        meta[cid] = dict(family="dims-after:" + ",".join(pats), shape="dims-after", pricing=pricing)
    return lines, meta


def depeq_cases(seed, n, start=0):
    """the dependent-equalities family under the shapes that bring a whole batch of rows into one first phase"""
    rng = random.Random(seed)
    lines, meta = [], {}
    for k in range(n):
        pricing = PRICINGS[k % 3]
        p = fam_depeq(rng)
        r = rng.random()
        if r < 0.4: body = shape_oneshot(rng, p, pricing); sh = "oneshot"
        elif r < 0.6:
            body = ["new %d" % p["dim"], "ctl " + pricing] + ([ints_cmd(p["ints"])] if p["ints"] else []) + \
                   ["addcs %d %s" % (len(p["cons"]), " ".join(con(c) for c in p["cons"])), "obj " + lin(*p["obj"]), "mode " + p["mode"],
                    rng.choice(["solve", "issat"]), "oval", "opoint"]; sh = "batch"
        elif r < 0.8: body = shape_onebyone(rng, p, pricing); sh = "onebyone"
        else: body = shape_resolve(rng, p, pricing); sh = "resolve"
        cid = "e%d" % (start + k)
        lines += ["case " + cid] + body + ["end"]
        meta[cid] = dict(family="depeq", shape=sh, pricing=pricing)
    return lines, meta


# ------------------------------------------------------------------------------------------------
# highly degenerate LPs: many ties in the ratio test (anti-cycling rule of get_exiting_base_index / textbook_entering_index)

def fam_cone(rng):
    """a cone / pyramid: at the apex at least d+2 constraints are tight (the d sign restrictions or shifted bounds, plus k >= 2 supporting
    planes through the apex, some duplicated or scaled), optionally capped by  sum (x - apex) <= c ; zero right-hand sides when the apex
    is the origin; objective random, parallel to a face, or a combination of faces"""
    d = rng.randint(3, 5)
    origin = rng.random() < 0.7
    v = [0] * d if origin else [rng.randint(0, 2) for _ in range(d)]
    cons = []
    for i in range(d):
        cons.append((">=", unit(d, i), -v[i]))
    planes = []
    for _ in range(rng.randint(2, 4)):
        a = rrow(rng, d, -6, 6, 0.9); planes.append(a)
    rows = [(">=", a, -_dot(a, v)) for a in planes]
    for _ in range(rng.randint(0, 2)):       # duplicated / scaled / summed supporting planes
        r = rng.random()
        if r < 0.4: a = list(rng.choice(planes))
        elif r < 0.7: m = rng.choice([2, 3]); a = [m * x for x in rng.choice(planes)]
        else: a1, a2 = rng.choice(planes), rng.choice(planes); a = [x + y for x, y in zip(a1, a2)]
        if any(a): rows.insert(rng.randint(0, len(rows)), (">=", a, -_dot(a, v)))
    cap = rng.random() < 0.75
    if cap:
        c = rng.choice([1, 1, 2, 3])
        rows.append((">=", [-1] * d, sum(v) + c))
    r = rng.random()
    if r < 0.5: cons = cons + rows
    elif r < 0.75: cons = rows + cons
    else:
        cons = cons + rows; rng.shuffle(cons)
    r = rng.random()
    if r < 0.5: obj = rrow(rng, d, -6, 6, 0.9)
    elif r < 0.75: m = rng.choice([1, 2, -1]); obj = [m * x for x in rng.choice(planes)]
    else: a1, a2 = rng.choice(planes), rng.choice(planes); obj = [x + y for x, y in zip(a1, a2)]
    if not any(obj): obj = unit(d, 0)
    ints = subset(rng, d, "some") if (cap and rng.random() < 0.1) else []
    return dict(dim=d, cons=cons, ints=ints, obj=(obj, rng.randint(-1, 1)), mode=rng.choice(["max", "max", "min"]))


def shape_objlater(rng, p, pricing):
    """all the constraints, a first resolution with the null objective, then the objective; the other direction; the other pricings"""
    L = ["new %d" % p["dim"], "ctl " + pricing]
    if p["ints"]: L.append(ints_cmd(p["ints"]))
    if rng.random() < 0.5:
        L.append("addcs %d %s" % (len(p["cons"]), " ".join(con(c) for c in p["cons"])))
    else:
        for c in p["cons"]: L.append("addc " + con(c))
    L += ["mode " + p["mode"], rng.choice(["solve", "issat", "fpoint"]), "obj " + lin(*p["obj"]), "solve", "oval", "opoint",
          "mode " + ("min" if p["mode"] == "max" else "max"), "solve", "oval"]
    if rng.random() < 0.5:
        L += ["ctl " + rng.choice(PRICINGS), "obj " + lin(rrow(rng, p["dim"], -6, 6), 0), "solve", "oval"]
    return L


def degenerate_cases(seed, n, start=0):
    rng = random.Random(seed)
    lines, meta = [], {}
    for k in range(n):
        pricing = ["T", "F", "E", "T", "F"][k % 5]
        p = fam_cone(rng)
        r = rng.random()
        if r < 0.35: body = shape_oneshot(rng, p, pricing); sh = "oneshot"
        elif r < 0.65: body = shape_objlater(rng, p, pricing); sh = "objlater"
        elif r < 0.85: body = shape_onebyone(rng, p, pricing); sh = "onebyone"
        else: body = shape_resolve(rng, p, pricing); sh = "resolve"
        cid = "c%d" % (start + k)
        lines += ["case " + cid] + body + ["end"]
        meta[cid] = dict(family="cone", shape=sh, pricing=pricing)
    return lines, meta
