"""C14(a) outside Polyhedron: run harness/run_rejdom.cc (ill-formed calls of every documented kind on receivers of every state class, for
Box, BD_Shape, Octagonal_Shape, Grid, Pointset_Powerset, Partially_Reduced_Product, MIP_Problem, PIP_Problem) and judge every attempt:
  * the exception class is the documented one (for Box::add_constraint and MIP_Problem::add_constraint(s) the expectation is the value
    of the extracted Coq ladder; elsewhere it is the class written in the documentation, transcribed in the harness);
  * the receiver is unchanged (ascii_dump identical, or semantically equal to its snapshot and OK()), the arguments are unchanged;
  * MIP / PIP: constraint count, dimensions, OK(), solve() result and optimum of a copy before vs after, and the same after one more valid
    constraint (nothing left behind by the rejected call gets activated later).
Failures are grouped by (domain, operation, kind of ill-formed argument, what went wrong) with the set of receiver states and of
positions (first / middle / last in a system) in which they occur: that tuple is what a known finding has to match."""
import os, re, collections
import common

KV = re.compile(r"(\w+)=(\S*)")
POS = re.compile(r"-(first|middle|last)$")
OVF = re.compile(r"^overflow-(.+)$")       # the variants of a space-dimension overflow (huge counts, sums that wrap around) are positions of one kind
NO_DISJUNCT_STATES = {"marked_empty", "zero_empty", "empty_undetected", "empty_detected"}


def model_request(tag, r):
    """Coq-ladder request for the attempts that have a sibling ladder (None otherwise). The shape of the argument is
    determined by the attempt kind (the harness builds the same argument for a given kind)."""
    dom, op, kind, st = r["dom"], r["op"], r["kind"], r["state"]
    n = 0 if st.startswith("zero") else 3
    if dom == "Box" and op == "add_constraint":
        if kind == "dim": return "boxac %s %d 0 %d 1 0 1" % (tag, n, n + 1)
        if kind == "non-interval": return "boxac %s %d 0 2 0 0 2" % (tag, n)
    if dom == "MIP_Problem" and op == "add_constraint":
        if kind == "dim": return "mipac %s %d %d 0" % (tag, n, n + 1)
        if kind == "strict": return "mipac %s %d 2 1" % (tag, n)
    if dom == "MIP_Problem" and op == "add_constraints":
        if kind == "dim-last": return "mipacs %s %d %d 2 0 T 0 N" % (tag, n, n + 1)
        m = POS.search(kind)
        if kind.startswith("strict-") and m:
            rows = ["0 N", "0 N", "0 N"]; rows[["first", "middle", "last"].index(m.group(1))] = "1 N"
            return "mipacs %s %d 3 3 %s" % (tag, n, " ".join(rows))
    return None


def run(exe, judge_except, workdir):
    rc, out = common.sh([exe], timeout=240)
    recs = [dict(KV.findall(l)) for l in out.split("\n") if l.startswith("att ")]
    res = {"attempts": len(recs), "rc": rc, "tail": out[-300:], "by_dom": collections.Counter(), "by_kind": collections.Counter(), "model_checked": 0,
           "model_disagrees_with_doc_table": [], "groups": [], "variants": set()}
    # model expectations
    reqs = []
    for i, r in enumerate(recs):
        q = model_request("a%d" % i, r)
        if q: reqs.append(q)
    exp = {}
    if reqs:
        os.makedirs(workdir, exist_ok=True)
        rf = os.path.join(workdir, "rejdom.req")
        with open(rf, "w") as f: f.write("\n".join(reqs) + "\n")
        rc2, mout = common.sh([judge_except, rf], timeout=120)
        for l in mout.split("\n"):
            t = l.split(" ")
            if len(t) == 2: exp[t[0]] = t[1]
    groups = collections.OrderedDict()
    for i, r in enumerate(recs):
        res["by_dom"][r["dom"]] += 1
        base = POS.sub("", r["kind"]); pm = POS.search(r["kind"]); pos = pm.group(1) if pm else "-"
        om = OVF.match(r["kind"])
        if om: base, pos = "overflow", om.group(1)
        res["by_kind"][base] += 1
        res["variants"].add((r["dom"], r["op"], base, r["state"]))
        expect = r["expect"]
        if "a%d" % i in exp:
            res["model_checked"] += 1
            if exp["a%d" % i] != expect:
                res["model_disagrees_with_doc_table"].append((r, exp["a%d" % i]))
            expect = exp["a%d" % i]
        unchanged = r["dump_same"] == "1" or (r["sem_same"] == "1" and r["ok"] == "1")
        probs = []
        if expect == "undocumented":
            if r["got"] != "none" and not unchanged: probs.append("changed")
        elif expect.startswith("optional:"):
            if r["got"] not in ("none", expect[9:]): probs.append("got-" + r["got"])
            elif r["got"] != "none" and not unchanged: probs.append("changed")
        else:
            if r["got"] != expect: probs.append("got-" + r["got"])
            if not unchanged: probs.append("changed")
        if r["args_same"] != "1": probs.append("args-changed")
        if r["ok"] != "1": probs.append("not-OK")
        if not probs: continue
        what = ",".join(probs)
        key = (r["dom"], r["op"], base, expect, what)
        g = groups.setdefault(key, {"states": set(), "positions": set()})
        g["states"].add(r["state"]); g["positions"].add(pos)
    for (dom, op, base, expect, what), g in groups.items():
        info = {"mode": "rejdom", "dom": dom, "op": op, "kind": base, "what": what,
                "states": ",".join(sorted(g["states"])), "positions": ",".join(sorted(g["positions"]))}
        # one root cause for the powersets: validation is delegated to the disjuncts, so a powerset without (non-empty) disjuncts validates nothing
        if dom.startswith("Powerset") and g["states"] <= NO_DISJUNCT_STATES and what in ("got-none", "got-none,changed"):
            info = {"mode": "rejdom", "dom": dom, "cause": "powerset-without-disjuncts-validates-nothing", "what": "got-none"}
        res["groups"].append((info, {"dom": dom, "op": op, "kind": base, "expected": expect, "what": what, "states": sorted(g["states"]), "positions": sorted(g["positions"])}))
    return res
