#!/bin/bash
# usage: tools/seeded_verify.sh <seeded-name> [test-subdirs...]
# Independent confirmation of a seeded change: in a scratch copy of /repo HEAD
#  (1) the demo passes on the unchanged tree, (2) the change compiles, (3) the repository's tests of the
#  given sub-directories still pass with it, (4) the demo fails with it.  Appends the outcome to meta.json.
N=$1; shift; DIRS="$@"
V=$(cd $(dirname $0)/.. && pwd); D=$V/seeded/$N; S=/tmp/seedv-$N
rm -rf $S; mkdir -p $S; git -C /repo archive HEAD | tar -x -C $S
cp /repo/ppl-config.h /repo/config.h $S/; cp -n /repo/src/*.hh $S/src/ 2>/dev/null
DEMO=$(ls $D/demo.cc $D/demo.c 2>/dev/null | head -1)
build_demo() { # $1 = tag
  /root/mut/run_tests.sh $S Watchdog nonexistent_test >/dev/null 2>&1   # builds the library objects only
  g++ -std=c++11 -DHAVE_CONFIG_H -I$S/src -I$S -O1 -frounding-math -w $DEMO $(ls $S/_mutbuild/obj/*.o | grep -v -e ppl_test.o -e files.o) -lgmpxx -lgmp -lpthread -o $S/demo_$1 2> $S/demo_$1.err
}
build_demo clean; (cd $S && timeout 600 ./demo_clean > $S/out_clean.txt 2>&1); RC_CLEAN=$?
patch -p1 -s -d $S < $D/patch.diff || { echo "PATCH FAILED"; exit 2; }
rm -rf $S/_mutbuild/obj   # headers may have changed: rebuild everything
build_demo mut; (cd $S && timeout 600 ./demo_mut > $S/out_mut.txt 2>&1); RC_MUT=$?
TESTS=""
for d in $DIRS; do TESTS="$TESTS $(/root/mut/run_tests.sh $S $d 2>&1 | grep '^SUMMARY\|^FAIL')"; done
python3 - "$D/meta.json" "$RC_CLEAN" "$RC_MUT" "$TESTS" <<'PY'
import json,sys
p,rc,rm,tests=sys.argv[1:5]
m=json.load(open(p))
m["confirmed_by_lead"]={"demo_exit_on_unchanged_tree":int(rc),"demo_exit_with_change":int(rm),"repository_tests_with_change":tests.strip(),
  "how":"tools/seeded_verify.sh: scratch copy of /repo HEAD; library rebuilt from the copy; demo linked against it"}
json.dump(m,open(p,"w"),indent=1)
print(p, "clean rc", rc, "mutated rc", rm, "|", tests.strip()[:300])
PY
rm -rf $S
