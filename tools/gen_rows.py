#!/usr/bin/env python3
"""Generator of histories for C16 (deterministic for a given seed).

Tree histories (lines `T <op> ...`) drive Sparse_Row / CO_Tree registers 0..3; expression histories
(lines `E <op> ...`) drive Linear_Expression registers in both representations.  The generator tracks
just enough state (row sizes, the set of keys that may be stored) to respect the preconditions the
C++ code asserts (index < size, coefficients of linear_combine nonzero, distinct operands)."""
import random

HINTS = ["B", "E", "L", "P", "D"]


def thresholds(maxn):
    """Element counts at which the tree changes capacity: 2^k-1 and the max/min density bounds."""
    out = set()
    k = 2
    while (1 << k) - 1 <= 4 * maxn:
        R = (1 << k) - 1
        for pct in (91, 38):
            c = pct * R // 100
            for d in (-1, 0, 1, 2):
                if 1 <= c + d <= maxn:
                    out.add(c + d)
        for d in (-1, 0, 1):
            if 1 <= R + d <= maxn:
                out.add(R + d)
        k += 1
    return sorted(out)


class TreeGen:
    def __init__(self, rng, maxn):
        self.rng = rng
        self.maxn = maxn
        self.lines = []
        self.size = [0, 0, 0, 0]
        self.keys = [set(), set(), set(), set()]

    def emit(self, *a):
        self.lines.append("T " + " ".join(str(x) for x in a))

    def val(self):
        r = self.rng
        c = r.random()
        if c < 0.08:
            return 0
        if c < 0.75:
            return r.choice([-3, -2, -1, 1, 2, 3, 4, 6])
        return r.randint(-10 ** 12, 10 ** 12) * r.choice([1, 10 ** 9])

    def hint(self, reg):
        r = self.rng
        c = r.random()
        if c < 0.55:
            return r.choice(HINTS)
        if c < 0.8 and self.keys[reg]:
            return "K%d" % r.choice(sorted(self.keys[reg]))
        return "R%d" % r.randint(1, 4 * self.maxn + 8)

    def some_key(self, reg, existing=0.5):
        r = self.rng
        if self.keys[reg] and r.random() < existing:
            return r.choice(sorted(self.keys[reg]))
        return r.randrange(0, max(1, self.size[reg]))

    def new(self, reg, size):
        self.emit("new", reg, size)
        self.size[reg] = size
        self.keys[reg] = set()

    def insert(self, reg, k, mode=None):
        r = self.rng
        mode = mode or r.choice(["ins", "insk", "insh", "inshk"])
        if mode == "ins":
            self.emit("ins", reg, k, self.val())
        elif mode == "insk":
            self.emit("insk", reg, k)
        elif mode == "insh":
            self.emit("insh", reg, self.hint(reg), k, self.val())
        else:
            self.emit("inshk", reg, self.hint(reg), k)
        self.keys[reg].add(k)

    def fill(self, reg, n, order, spread):
        """n distinct keys in the given insertion order."""
        r = self.rng
        size = self.size[reg]
        pool = r.sample(range(size), min(n, size)) if spread else list(range(min(n, size)))
        ks = sorted(pool)
        if order == "asc":
            seq = ks
        elif order == "desc":
            seq = ks[::-1]
        elif order == "zigzag":
            seq = []
            i, j = 0, len(ks) - 1
            while i <= j:
                seq.append(ks[i]); i += 1
                if i <= j:
                    seq.append(ks[j]); j -= 1
        elif order == "inout":
            mid = len(ks) // 2
            seq = []
            for d in range(len(ks)):
                a = mid + (d + 1) // 2 * (1 if d % 2 else -1)
                if 0 <= a < len(ks):
                    seq.append(ks[a])
            seq = list(dict.fromkeys(seq + ks))
        else:
            seq = ks[:]
            r.shuffle(seq)
        mode = r.choice(["ins", "insk", "insh", "inshk", None])
        for k in seq:
            self.insert(reg, k, mode)

    def random_op(self, reg):
        r = self.rng
        sz = self.size[reg]
        if sz == 0:
            self.new(reg, r.randint(1, 3 * self.maxn + 10))
            return
        c = r.random()
        ks = self.keys[reg]
        if c < 0.30:
            if len(ks) < self.maxn:
                self.insert(reg, self.some_key(reg, 0.15))
            else:
                self.emit("era", reg, self.some_key(reg, 0.9))
        elif c < 0.45:
            k = self.some_key(reg, 0.85)
            self.emit("era", reg, k); ks.discard(k)
        elif c < 0.52:
            self.emit("erap", reg, self.hint(reg)); self.resync(reg)
        elif c < 0.57:
            k = self.some_key(reg, 0.5)
            self.emit("easl", reg, k)
            self.keys[reg] = set((x if x < k else x - 1) for x in ks if x != k)
            self.size[reg] -= 1
        elif c < 0.61:
            k = r.randint(0, sz) if r.random() < 0.5 else self.some_key(reg, 0.8)
            n = r.choice([0, 1, 1, 2, 5])
            self.emit("incr", reg, k, n)
            self.keys[reg] = set((x + n if x >= k else x) for x in ks)
            self.size[reg] += n
        elif c < 0.66:
            self.emit("get", reg, self.some_key(reg, 0.6))
        elif c < 0.72:
            self.emit("lb", reg, self.hint(reg), r.randint(0, sz) if r.random() < 0.3 else self.some_key(reg, 0.6))
        elif c < 0.76:
            self.emit("find", reg, self.hint(reg), self.some_key(reg, 0.6))
        elif c < 0.79:
            self.emit("bis", reg, self.hint(reg), self.some_key(reg, 0.6))
        elif c < 0.84:
            i, j = self.some_key(reg, 0.6), self.some_key(reg, 0.6)
            self.emit("swp", reg, i, j)
            hi, hj = i in ks, j in ks
            if hi and not hj:
                ks.discard(i); ks.add(j)
            elif hj and not hi:
                ks.discard(j); ks.add(i)
        elif c < 0.86:
            f = r.randint(0, sz); l = r.randint(f, min(sz, f + r.choice([0, 1, 3, 10, sz])))
            self.emit("rr", reg, f, l)
            self.keys[reg] = set(x for x in ks if not (f <= x < l))
        elif c < 0.87:
            i = self.some_key(reg, 0.5)
            self.emit("rsa", reg, i)
            self.keys[reg] = set(x for x in ks if x < i)
        elif c < 0.88:
            n = r.choice([sz, sz + 3, max(1, sz - 2), max(1, sz // 2)])
            self.emit("rsz", reg, n)
            self.keys[reg] = set(x for x in ks if x < n)
            self.size[reg] = n
        elif c < 0.93:
            m = r.choice([2, 3, 5, 7]); rem = r.randrange(m)
            self.emit("eim", reg, m, rem)
            self.keys[reg] = set(x for x in ks if x % m != rem)
        elif c < 0.94:
            self.emit("iter", reg)
            s2 = (reg + 1) % 4    # deterministic partner: equality in every representation pairing, both ways round
            if self.size[reg] <= 400 and self.size[s2] <= 400:
                self.emit("mixeq", reg, s2)
                self.emit("mixeq", reg, reg)
        elif c < 0.98:
            self.combine(reg)
        else:
            self.mixed(reg)

    def mixed(self, reg):
        """row-level operations mixing Dense_Row and Sparse_Row, and the combine templates (on copies)."""
        r = self.rng
        s = r.choice([x for x in range(4) if x != reg])
        if self.size[s] == 0 or self.size[s] > self.size[reg] or self.size[reg] > 400:
            k = r.choice([0, 2, 3])
            self.emit("dconv", reg, k) if self.size[reg] <= 400 else self.emit("iter", reg)
            return
        c = r.randrange(5)
        if c == 0:
            self.emit("mixeq", reg, s)
            self.emit("mixeq", reg, reg)   # equal values, different stored-zero patterns (no extra random draw)
        elif c == 1:
            self.emit("mixswap", reg, s)
        elif c == 2:
            c1 = r.choice([1, 1, -1, 2, 3]); c2 = r.choice([1, -1, 2, -3])
            if r.random() < 0.5:
                self.emit("mixlc", reg, s, c1, c2)
            else:
                lim = min(self.size[reg], self.size[s])
                f = r.randint(0, lim); l = r.randint(f, lim)
                self.emit("mixlc", reg, s, c1, c2, f, l)
        elif c == 3:
            self.emit("comb", reg, s, r.randrange(3))
        else:
            self.emit("dconv", reg, r.choice([0, 2, 3, 4]), r.randint(0, self.size[reg] + 3))

    def resync(self, reg):
        pass  # erap removes an unknown key; the tracked key set is only a guide for choosing keys

    def combine(self, reg):
        r = self.rng
        s = r.choice([x for x in range(4) if x != reg])
        if r.random() < 0.35 and self.size[reg] >= 8:
            # a fresh operand with many keys that are not stored in the target: the whole-row linear_combine
            # then counts enough missing keys to take its bulk-copy branch (CO_Tree iterator constructor)
            self.new(s, self.size[reg])
            cnt = r.randint(max(1, min(self.size[reg] // 8, 150)), max(2, min(self.size[reg] // 2, self.maxn, 400)))
            for k in r.sample(range(self.size[reg]), min(cnt, self.size[reg])):
                self.emit("ins", s, k, self.val() or 1)
                self.keys[s].add(k)
        if self.size[s] == 0 or self.size[s] > self.size[reg]:
            # make s a (possibly truncated) copy-derived row of a compatible size, then perturb it
            sz = r.choice([self.size[reg], max(1, self.size[reg] // 2)])
            self.emit("cpy", s, reg, sz)
            self.size[s] = sz
            self.keys[s] = set(x for x in self.keys[reg] if x < sz)
            for _ in range(r.choice([0, 1, 3, 8, 20])):
                if r.random() < 0.6:
                    self.insert(s, self.some_key(s, 0.1))
                else:
                    k = self.some_key(s, 0.9); self.emit("era", s, k); self.keys[s].discard(k)
        c1 = r.choice([1, 1, 1, -1, 2, 3, -2, 5])
        c2 = r.choice([1, -1, 1, -1, 2, -3, 7])
        if r.random() < 0.5:
            self.emit("lc", reg, s, c1, c2)
        else:
            lim = min(self.size[reg], self.size[s])
            f = r.randint(0, lim); l = r.randint(f, lim) if r.random() < 0.7 else lim
            self.emit("lcr", reg, s, c1, c2, f, l)
        self.keys[reg] |= self.keys[s]


def tree_history(seed, hid, maxn):
    """One history; maxn bounds the number of stored elements."""
    rng = random.Random(seed * 1000003 + hid * 7919 + 17)
    g = TreeGen(rng, maxn)
    g.lines.append("H %d" % hid)
    ths = thresholds(maxn)
    shape = hid % 8
    order = ["asc", "desc", "zigzag", "random", "inout", "random", "asc", "desc"][shape]
    n = rng.choice(ths) if (ths and rng.random() < 0.7) else rng.randint(1, maxn)
    spread = rng.random() < 0.6
    size = rng.choice([n, n + 1, 2 * n + 3, 3 * maxn + 10]) if not spread else rng.randint(n, 3 * maxn + 10)
    g.new(0, max(size, 1))
    g.fill(0, n, order, spread)
    # a phase of erasures crossing the low-density thresholds, in some order
    if rng.random() < 0.6:
        ks = sorted(g.keys[0])
        eorder = rng.choice(["asc", "desc", "random", "mid"])
        if eorder == "desc":
            ks = ks[::-1]
        elif eorder == "random":
            rng.shuffle(ks)
        elif eorder == "mid":
            ks = sorted(ks, key=lambda x: abs(x - (ks[len(ks) // 2] if ks else 0)))
        cut = rng.randint(0, len(ks))
        for k in ks[:cut]:
            if rng.random() < 0.8:
                g.emit("era", 0, k)
            else:
                g.emit("erap", 0, "K%d" % k)
            g.keys[0].discard(k)
    # mixed phase
    for _ in range(rng.choice([5, 20, 60]) if maxn <= 200 else rng.choice([20, 100])):
        g.random_op(rng.choice([0, 0, 0, 1, 2, 3]))
    g.emit("iter", 0)
    return g.lines


class ExprGen:
    """Histories over four Linear_Expression registers (run in four representation worlds)."""
    def __init__(self, rng, with_unsafe):
        self.rng = rng
        self.lines = []
        self.size = [1, 1, 1, 1]
        self.with_unsafe = with_unsafe

    def emit(self, *a):
        self.lines.append("E " + " ".join(str(x) for x in a))

    def val(self, nz=False):
        r = self.rng
        c = r.random()
        if c < 0.15 and not nz:
            return 0
        if c < 0.85:
            return r.choice([-4, -3, -2, -1, 1, 2, 3, 4, 6, 12])
        return r.randint(-10 ** 10, 10 ** 10) or 1

    def rng2(self, n):
        f = self.rng.randint(0, n)
        l = self.rng.randint(f, n)
        if self.rng.random() < 0.3:
            f, l = 0, n
        return f, l

    def fill(self, r):
        n = self.size[r]
        for _ in range(self.rng.randint(0, n + 1)):
            self.emit("set", r, self.rng.randrange(n), self.val())

    def observe(self, r):
        rg = self.rng
        n = self.size[r]
        s = rg.choice([x for x in range(4) if x != r])
        c = rg.randrange(13)
        if c == 0:
            self.emit("get", r, rg.randrange(n))
        elif c in (1, 2, 3, 4, 5):
            f, l = self.rng2(n)
            self.emit(["gcd", "az", "nz", "fnz", "lnz"][c - 1], r, f, l)
        elif c == 6:
            self.emit("lnza", r)
        elif c == 7:
            self.emit("iter", r)
        elif c == 8:
            self.emit("size", r)
        elif c == 9:
            f, l = self.rng2(min(n, self.size[s]))
            self.emit("sp", r, s, f, l)
        elif c == 10:
            self.emit("eq", r, s)
        elif c == 11:
            f, l = self.rng2(min(n, self.size[s]))
            self.emit("eqr", r, s, f, l)
        else:
            self.emit("cmp", r, s)

    def mutate(self, r):
        rg = self.rng
        n = self.size[r]
        s = rg.choice([x for x in range(4) if x != r])
        c = rg.randrange(24)
        if c <= 2:
            self.emit("set", r, rg.randrange(n), self.val())
        elif c <= 4:
            self.emit("add", r, rg.randrange(n), self.val(nz=True) if rg.random() < 0.8 else rg.choice([1, -1]))
        elif c == 5 and n >= 2:
            self.emit("swap", r, rg.randint(1, n - 1), rg.randint(1, n - 1))
        elif c == 6 and n < 14:
            k = rg.choice([0, 1, 2, 3])
            self.emit("shift", r, rg.randint(1, n), k); self.size[r] += k
        elif c == 7:
            m = rg.choice([n, n + 1, n + 3, max(1, n - 1), max(1, n // 2)])
            m = min(m, 16)
            self.emit("resize", r, m); self.size[r] = m
        elif c == 8:
            f, l = self.rng2(n)
            cc = self.val()
            self.emit("mulr", r, cc, f, l)
            if cc != 0 and rg.random() < 0.7:
                f2 = rg.randint(f, l); l2 = rg.randint(f2, l)
                self.emit("ediv", r, cc, f2, l2)
        elif c == 9:
            f, l = self.rng2(n)
            self.emit("negr", r, f, l)
        elif c == 10 and n >= 2:
            k = rg.randint(1, min(3, n - 1))
            vs = sorted(rg.sample(range(1, n), k))
            self.emit("rem", r, *vs); self.size[r] -= k
        elif c == 11 and n >= 3:
            k = rg.randint(2, min(5, n - 1))
            self.emit("perm", r, *rg.sample(range(1, n), k))
        elif c == 12:
            self.emit("norm", r)
        elif c == 13:
            self.emit("sgn", r)
        elif c == 14:
            cc = self.val()
            self.emit("mula", r, cc)
            if cc != 0 and rg.random() < 0.5:
                self.emit("ediv", r, cc, 0, n)
        elif c in (15, 16, 17):
            f, l = self.rng2(min(n, self.size[s]))
            self.emit("lc", r, s, rg.choice([1, 1, -1, 2, 3, -5]), rg.choice([1, -1, 2, -3, 7]), f, l)
        elif c == 18:
            self.emit("lca", r, s, rg.choice([1, 1, -1, 2, 3]), rg.choice([1, -1, 2, -3]))
            self.size[r] = max(n, self.size[s])
        elif c == 19:
            f, l = self.rng2(min(n, self.size[s]))
            self.emit("laxs", r, s, self.val(nz=True), f, l)
        elif c == 20:
            f, l = self.rng2(min(n, self.size[s]))
            self.emit("laxz", r, s, f, l)
        elif c == 21:
            self.emit("copy", r, s); self.size[r] = self.size[s]
        elif c == 22:
            ms = self.size[s]
            m = rg.choice([ms, ms + 2]) if not self.with_unsafe else rg.choice([ms, ms + 2, max(1, ms - 1), max(1, ms // 2)])
            m = min(m, 16)
            self.emit("copyn", r, s, m); self.size[r] = m
        elif c == 23 and self.with_unsafe:
            f, l = self.rng2(min(n, self.size[s]))
            self.emit("lax0", r, s, self.val(nz=True), f, l)
        else:
            self.emit("set", r, rg.randrange(n), self.val())


def expr_history(seed, hid, with_unsafe=False, length=40):
    rng = random.Random(seed * 1000003 + hid * 104729 + 5)
    g = ExprGen(rng, with_unsafe)
    g.lines.append("H %d" % hid)
    for r in range(4):
        n = rng.randint(1, 10)
        g.emit("new", r, n); g.size[r] = n
        g.fill(r)
    for _ in range(length):
        r = rng.randrange(4)
        if rng.random() < 0.55:
            g.mutate(r)
        else:
            g.observe(r)
        if rng.random() < 0.12:
            k = rng.choice(["con", "gen", "cg"])
            if k == "con":
                g.emit("con", r, rng.choice([0, 1]))
            elif k == "gen":
                g.emit("gen", r, rng.choice([0, 1, 2]), rng.choice([1, 2, 3]))
            else:
                g.emit("cg", r, rng.choice([0, 1, 2, 3, 6]))
    for r in range(4):
        g.emit("iter", r)
    g.emit("sys", 0)
    for k in rng.sample(range(6), 3):
        g.emit("sysop", 0, k)
    return g.lines


if __name__ == "__main__":
    import sys
    seed = int(sys.argv[1]) if len(sys.argv) > 1 else 1
    n = int(sys.argv[2]) if len(sys.argv) > 2 else 5
    maxn = int(sys.argv[3]) if len(sys.argv) > 3 else 40
    for h in range(n):
        print("\n".join(tree_history(seed, h, maxn)))
