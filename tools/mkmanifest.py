#!/usr/bin/env python3
"""Assemble /verif/MANIFEST.json from manifest.d/C*.json; every property without an entry is listed
under not_applicable with the reason recorded in manifest.d/unclaimed.json."""
import json, os, glob, sys
V = os.path.dirname(os.path.dirname(os.path.abspath(__file__)))
props = [json.loads(l)["id"] for l in open(os.path.join(V, "properties.jsonl")) if l.strip()]
checks = []
for p in props:
    f = os.path.join(V, "manifest.d", p + ".json")
    if os.path.exists(f):
        checks.append(json.load(open(f)))
claimed = {c["property_id"] for c in checks}
unclaimed = {}
uf = os.path.join(V, "manifest.d", "unclaimed.json")
if os.path.exists(uf):
    unclaimed = json.load(open(uf))
na = [{"property_id": p, "reason": unclaimed.get(p, "check not yet built in this development (work in progress); nothing is claimed for it")}
      for p in props if p not in claimed]
m = {
 "version": 1,
 "setup_cmd": "python3 tools/setup.py",
 "hooks": {"guard": "PPL_VERIF_HOOKS",
           "enable": "checks compile /repo/src/*.cc themselves (tools/common.py build_lib) with -DPPL_VERIF_HOOKS into /verif/build/lib-<config>-<hash>/",
           "baseline_off_cmd": "cd /repo && make -k check",
           "source_commits": json.load(open(os.path.join(V, "manifest.d", "hook_commits.json"))) if os.path.exists(os.path.join(V, "manifest.d", "hook_commits.json")) else [],
           "add_only": True},
 "engines": [{"name": "coq+correspondence", "path": "/verif/check",
              "serves_properties": sorted(claimed),
              "kind_free_text": "Coq 8.16.1 development (coq/), theorems audited with Print Assumptions on every run; models extracted to OCaml (ExtrOcamlBasic) and run against the real library rebuilt from /repo's working tree; facts regenerated from the source where the source is a table"}],
 "checks": checks,
 "notes": "See DESIGN.md. Every check is `./check <ID>`; evidence is rewritten on every run; known findings in known_findings.json (+ known_findings.d/).",
 "not_applicable": na,
}
json.dump(m, open(os.path.join(V, "MANIFEST.json"), "w"), indent=1)
print("MANIFEST.json: %d checks, %d unclaimed" % (len(checks), len(na)))
