#!/usr/bin/env python3
"""Regenerate coq/gen/Facts_Status.v from /repo's working tree (C15).

For each of the five status classes the keyword strings and the field order of the WRITER
(ascii_dump) and, separately, of the READER (ascii_load) are extracted by regular expressions over
the function bodies.  For the container classes the literal words written by ascii_dump and the
literal words compared by ascii_load are extracted (in source order).  Untrusted glue: all it has
to be is sensitive to edits; the Coq side proves (by vm_compute over these lists) that writer and
reader agree, so an edit that desynchronises them breaks a proof obligation.
"""
import os, re, sys

REPO = os.environ.get("VERIF_REPO", "/repo")
VERIF = os.path.dirname(os.path.dirname(os.path.abspath(__file__)))
OUT = os.path.join(VERIF, "coq", "gen", "Facts_Status.v")


def read(name):
    return open(os.path.join(REPO, "src", name)).read()


def strip_comments(txt):
    txt = re.sub(r"/\*.*?\*/", "", txt, flags=re.S)
    txt = re.sub(r"//[^\n]*", "", txt)
    return txt


def body_of(txt, header_re):
    """Text of the first function whose header matches header_re (brace matching)."""
    m = re.search(header_re, txt)
    if not m:
        return None
    i = txt.find("{", m.end() - 1)
    depth, j = 0, i
    while j < len(txt):
        if txt[j] == "{":
            depth += 1
        elif txt[j] == "}":
            depth -= 1
            if depth == 0:
                return txt[i + 1:j]
        j += 1
    return None


def coq_str(s):
    return '"' + s.replace('"', '""') + '"'


def coq_list(items):
    return "[" + "; ".join(items) + "]"


STATUS = [
    # (coq prefix, data file with keyword definitions, file with the bodies, class regex)
    ("ph", "Ph_Status.cc", "Ph_Status.cc", r"Polyhedron::Status"),
    ("grid", "Grid_Status.cc", "Grid_Status.cc", r"Grid::Status"),
    ("bds", "BDS_Status.cc", "BDS_Status_inlines.hh", r"BD_Shape<T>::Status"),
    ("og", "Og_Status.cc", "Og_Status_inlines.hh", r"Octagonal_Shape<T>::Status"),
    ("box", "Box_Status.cc", "Box_Status_inlines.hh", r"Box<ITV>::Status"),
]


def status_facts(prefix, kwfile, bodyfile, cls):
    kwtxt = strip_comments(read(kwfile))
    kws = dict(re.findall(r"const\s+char\s*\*\s*(\w+)\s*=\s*\"([^\"]*)\"\s*;", kwtxt))
    btxt = strip_comments(read(bodyfile))
    dump = body_of(btxt, re.escape(cls).replace(r"\ ", " ") + r"::ascii_dump\s*\(std::ostream&\s*\w+\)\s*const\s*\{")
    load = body_of(btxt, re.escape(cls).replace(r"\ ", " ") + r"::ascii_load\s*\(std::istream&\s*\w+\)\s*\{")
    dump_fields, load_fields = [], []
    if dump is not None:
        for t, pos, neg, var in re.findall(
                r"\(\s*(\w+)\s*\(\s*\)\s*\?\s*('\+'|'-'|yes|no)\s*:\s*('\+'|'-'|yes|no)\s*\)\s*<<\s*([\w:]+)", dump):
            var = var.split("::")[-1]
            polarity_ok = pos in ("'+'", "yes") and neg in ("'-'", "no")
            dump_fields.append((t if polarity_ok else "INVERTED_" + t, kws.get(var, "<writer-unknown-%s>" % var)))
    if load is not None:
        # one statement group per field: get_field, then if (positive) {A();} [else {B();}]
        parts = re.split(r"if\s*\(\s*!\s*get_field\s*\(", load)
        for part in parts[1:]:
            m = re.match(r"\s*\w+\s*,\s*([\w:]+)\s*,\s*positive\s*\)\s*\)\s*\{\s*return\s+false\s*;\s*\}(.*)", part, re.S)
            if not m:
                load_fields.append(("<reader-unparsed>", "", ""))
                continue
            var = m.group(1).split("::")[-1]
            rest = m.group(2)
            m2 = re.match(r"\s*if\s*\(\s*positive\s*\)\s*\{\s*(\w+)\s*\(\s*\)\s*;\s*\}(\s*else\s*\{\s*(\w+)\s*\(\s*\)\s*;\s*\})?", rest)
            pos_act = m2.group(1) if m2 else "<none>"
            neg_act = (m2.group(3) or "") if m2 else ""
            load_fields.append((kws.get(var, "<reader-unknown-%s>" % var), pos_act, neg_act))
    out = []
    out.append("Definition %s_dump_fields : list (string * string) :=\n  %s." % (
        prefix, coq_list("(%s, %s)" % (coq_str(t), coq_str(k)) for t, k in dump_fields)))
    out.append("Definition %s_load_fields : list (string * (string * string)) :=\n  %s." % (
        prefix, coq_list("(%s, (%s, %s))" % (coq_str(k), coq_str(a), coq_str(b)) for k, a, b in load_fields)))
    return "\n".join(out), dump_fields, load_fields


CONTAINERS = [
    # (coq prefix, file, writer header regex, reader header regex)
    ("polyhedron", "Polyhedron_public.cc", r"Polyhedron::ascii_dump\s*\(std::ostream&\s*s\)\s*const\s*\{",
     r"Polyhedron::ascii_load\s*\(std::istream&\s*s\)\s*\{"),
    ("grid_obj", "Grid_public.cc", r"Grid::ascii_dump\s*\(std::ostream&\s*s\)\s*const\s*\{",
     r"Grid::ascii_load\s*\(std::istream&\s*s\)\s*\{"),
    ("linsys", "Linear_System_templates.hh", r"Linear_System<Row>::ascii_dump\s*\(std::ostream&\s*s\)\s*const\s*\{",
     r"Linear_System<Row>::ascii_load\s*\(std::istream&\s*s\)\s*\{"),
    ("cgsys", "Congruence_System.cc", r"Congruence_System::ascii_dump\s*\(std::ostream&\s*s\)\s*const\s*\{",
     r"Congruence_System::ascii_load\s*\(std::istream&\s*s\)\s*\{"),
    ("linexpr", "Linear_Expression_Impl_templates.hh", r"Linear_Expression_Impl<Row>::ascii_dump\s*\(std::ostream&\s*s\)\s*const\s*\{",
     r"Linear_Expression_Impl<Row>::ascii_load\s*\(std::istream&\s*s\)\s*\{"),
    ("constraint", "Constraint.cc", r"Constraint::ascii_dump\s*\(std::ostream&\s*s\)\s*const\s*\{",
     r"Constraint::ascii_load\s*\(std::istream&\s*s\)\s*\{"),
    ("generator", "Generator_inlines.hh", r"Generator::ascii_dump\s*\(std::ostream&\s*s\)\s*const\s*\{",
     r"Generator::ascii_load\s*\(std::istream&\s*s\)\s*\{"),
    ("congruence", "Congruence.cc", r"Congruence::ascii_dump\s*\(std::ostream&\s*s\)\s*const\s*\{",
     r"Congruence::ascii_load\s*\(std::istream&\s*s\)\s*\{"),
    ("grid_generator", "Grid_Generator.cc", r"Grid_Generator::ascii_dump\s*\(std::ostream&\s*s\)\s*const\s*\{",
     r"Grid_Generator::ascii_load\s*\(std::istream&\s*s\)\s*\{"),
    ("representation", "globals_inlines.hh", r"\bascii_dump\s*\(std::ostream&\s*s,\s*Representation\s+r\)\s*\{",
     r"\bascii_load\s*\(std::istream&\s*is,\s*Representation&\s*r\)\s*\{"),
    ("bit_matrix", "Bit_Matrix.cc", r"Bit_Matrix::ascii_dump\s*\(std::ostream&\s*s\)\s*const\s*\{",
     r"Bit_Matrix::ascii_load\s*\(std::istream&\s*s\)\s*\{"),
    ("octagon", "Octagonal_Shape_templates.hh", r"Octagonal_Shape<T>::ascii_dump\s*\(std::ostream&\s*s\)\s*const\s*\{",
     r"Octagonal_Shape<T>::ascii_load\s*\(std::istream&\s*s\)\s*\{"),
    ("box_obj", "Box_templates.hh", r"Box<ITV>::ascii_dump\s*\(std::ostream&\s*s\)\s*const\s*\{",
     r"Box<ITV>::ascii_load\s*\(std::istream&\s*s\)\s*\{"),
    ("interval", "Interval_inlines.hh", r"Interval<Boundary,\s*Info>::ascii_dump\s*\(std::ostream&\s*s\)\s*const\s*\{",
     r"Interval<Boundary,\s*Info>::ascii_load\s*\(std::istream&\s*s\)\s*\{"),
]

WORD = re.compile(r"[A-Za-z_>=:][A-Za-z_0-9\-\>=:]*|[=>]+|\([A-Za-z_\-]+\)")


def literal_words(body, reader):
    """Words of the string/char literals of a body, in source order.  Writer: every literal that is
    streamed; reader: every literal compared with ==/!=.  '(' x 'not_' x 'up-to-date)' pieces glued
    by a ternary in the writer are normalised to the two words the reader compares against."""
    words = []
    if reader:
        lits = re.findall(r"(?:==|!=)\s*\"([^\"]*)\"", body)
        for l in lits:
            words += [w.strip("()") for w in l.split()]
    else:
        lits = re.findall(r"\"((?:[^\"\\]|\\.)*)\"|'((?:[^'\\]|\\.))'", body)
        raw = []
        for a, b in lits:
            l = a if (a or not b) else b
            l = l.replace("\\n", " ")
            raw += [w for w in re.split(r"\s+", l.replace("(", " ").replace(")", " ")) if w]
        i = 0
        while i < len(raw):
            w = raw[i]
            if w == "not_" and i + 1 < len(raw):
                words += ["not_" + raw[i + 1], raw[i + 1]]
                i += 2
            else:
                words.append(w)
                i += 1
    return words


def container_facts(prefix, fname, wre, rre):
    txt = strip_comments(read(fname))
    w = body_of(txt, wre)
    r = body_of(txt, rre)
    ww = literal_words(w, False) if w is not None else ["<writer-body-not-found>"]
    rw = literal_words(r, True) if r is not None else ["<reader-body-not-found>"]
    out = "Definition %s_dump_words : list string :=\n  %s.\n" % (prefix, coq_list(coq_str(x) for x in ww))
    out += "Definition %s_load_words : list string :=\n  %s." % (prefix, coq_list(coq_str(x) for x in rw))
    return out, ww, rw


def generate():
    parts = ["(* GENERATED by tools/translate_codec.py from %s/src -- do not edit. *)" % "REPO",
             "Require Import String List.", "Import ListNotations.", "Open Scope string_scope.", ""]
    summary = {}
    for spec in STATUS:
        txt, d, l = status_facts(*spec)
        parts.append(txt)
        summary[spec[0]] = {"dump": d, "load": l}
    parts.append("")
    for spec in CONTAINERS:
        txt, ww, rw = container_facts(*spec)
        parts.append(txt)
        summary[spec[0]] = {"dump_words": ww, "load_words": rw}
    # how Checked::float_mpq_to_string treats the sign: laid out with the digits (strlen of the signed numeral) or
    # taken off first (any of mpz_sgn / mpz_abs / mpz_neg in the body)
    ctxt = strip_comments(read("checked.cc"))
    fb = body_of(ctxt, r"float_mpq_to_string\s*\(mpq_class&\s*\w+\)\s*\{") or ""
    sep = bool(re.search(r"\bmpz_(sgn|abs|neg)\s*\(", fb))
    parts.append("Definition float_print_sign_separate : bool := %s." % ("true" if sep else "false"))
    summary["float_print_sign_separate"] = sep
    src = "\n".join(parts) + "\n"
    os.makedirs(os.path.dirname(OUT), exist_ok=True)
    old = open(OUT).read() if os.path.exists(OUT) else None
    if old != src:
        with open(OUT, "w") as f:
            f.write(src)
    return summary


if __name__ == "__main__":
    s = generate()
    for k, v in s.items():
        print(k, v)
