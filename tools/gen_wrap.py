"""Seeded generator of C17 cases (wrap_assign, contains_integer_point, drop_some_non_integer_points).

Every random choice derives from the seed.  A case line is read by harness/run_wrap.cc up to the token it needs and
by ocaml/judge_wrap.ml entirely (the trailing `cand ... ucand ...` lists are the window of candidate points whose
membership in the ARGUMENT is decided by the verified test; only members count)."""
import random, math
from fractions import Fraction as F

DOMS_WRAP = ["C", "NNC", "BDS", "OCT", "BOX", "GRID", "PC"]
GENERIC = {"C", "NNC", "BDS", "OCT", "PC"}


def row(n, b, coefs):
    """constraint text  b a0 .. a_{n-1}"""
    return "%d %s" % (b, " ".join(str(coefs.get(i, 0)) for i in range(n)))


def ge_frac(n, i, val, sign, kind=">="):
    """sign*(x_i - val) >= 0 with rational val: den*x_i*sign - num*sign >= 0"""
    val = F(val)
    return "%s %s" % (kind, row(n, -sign * val.numerator, {i: sign * val.denominator}))


def fmtq(q):
    q = F(q)
    return str(q.numerator) if q.denominator == 1 else "%d/%d" % (q.numerator, q.denominator)


def interval_for(rnd, w, sg, shape):
    """[lo, hi] (hi may be None = unbounded above, lo None = unbounded below) and the candidate values."""
    M = 1 << w
    mn = -(M >> 1) if sg else 0
    small = w == 8
    k = rnd.choice([0, 0, 1, -1, 2, -2, 3, 5]) if shape != "zero" else 0
    base = mn + k * M
    if shape == "exact":
        # width exactly 2^w, one less, one more (the boundary of "spans all the values of the type")
        lo = base + (rnd.randint(0, M - 1) if small else rnd.choice([0, 1, 3, M - 1, M - 2]))
        hi = lo + M + rnd.choice([0, 0, -1, 1])
        return F(lo), F(hi)
    if shape in ("one", "zero"):
        if small:
            lo = base + rnd.randint(0, M - 2); hi = rnd.randint(lo, base + M - 1)
        else:
            side = rnd.choice(["low", "high", "both"])
            lo = base + (rnd.randint(0, 6) if side != "high" else M - 1 - rnd.randint(0, 12))
            hi = base + M - 1 - rnd.randint(0, 6) if side != "low" else lo + rnd.randint(0, 12)
            hi = max(hi, lo)
    else:  # straddle 2..5 quadrants
        nq = rnd.randint(2, 5)
        if small:
            lo = base + rnd.randint(0, M - 1); hi = base + (nq - 1) * M + rnd.randint(0, M - 1)
            if hi <= base + M - 1 or (hi - mn) // M - (lo - mn) // M + 1 != nq:
                hi = base + (nq - 1) * M + rnd.randint(0, M - 1)
        else:
            lo = base + M - 1 - rnd.randint(0, 5); hi = base + (nq - 1) * M + rnd.randint(0, 5)
    lo, hi = F(lo), F(hi)
    if rnd.random() < 0.25:   # non-integer ends
        lo -= F(rnd.randint(1, 5), rnd.choice([2, 3, 7])) if rnd.random() < 0.5 else 0
        hi += F(rnd.randint(1, 5), rnd.choice([2, 3, 7])) if rnd.random() < 0.7 else 0
    return lo, hi


def cands_for(rnd, w, sg, lo, hi, ncand, unb_lo=False, unb_hi=False):
    import math
    M = 1 << w
    mn = -(M >> 1) if sg else 0
    a, b = math.ceil(lo), math.floor(hi)
    if unb_lo: a = a - 2 * M - 3
    if unb_hi: b = b + 2 * M + 3
    vals = set()
    for v in (a, a + 1, b - 1, b, a - 1, b + 1):
        vals.add(v)
    # quadrant boundaries inside [a, b]
    k0, k1 = (a - mn) // M, (b - mn) // M
    ks = list(range(k0, k1 + 2))
    rnd.shuffle(ks)
    for k in ks[:5]:
        for d in (-1, 0, 1) if len(vals) < ncand + 6 else (0,):
            vals.add(mn + k * M + d)
    for _ in range(4):
        if b >= a: vals.add(rnd.randint(a, b))
    vals = sorted(vals)
    if len(vals) > ncand:
        keep = set([a, b])
        rest = [v for v in vals if v not in keep]
        rnd.shuffle(rest)
        vals = sorted(list(keep) + rest[:ncand - len(keep)])
    return vals


def gen_wrap_case(rnd, cid, dom=None, force=None):
    force = force or {}
    dom = dom or rnd.choice(DOMS_WRAP)
    n = force.get("n", rnd.choice([2, 2, 3]))
    w = force.get("w", rnd.choice([8, 8, 8, 16, 32, 64]))
    sg = force.get("sg", rnd.randint(0, 1))
    ov = force.get("ov", rnd.choice([0, 0, 0, 1, 2]))
    thr = force.get("thr", rnd.choice([0, 1, 2, 2, 4, 16]))
    ind = force.get("ind", rnd.randint(0, 1))
    M = 1 << w
    mn = -(M >> 1) if sg else 0
    mx = mn + M - 1
    nv = rnd.randint(1, n) if n > 1 else 1
    if rnd.random() < 0.6: nv = max(nv, 2)
    vars_ = sorted(rnd.sample(range(n), nv))
    ncand = 9 if n == 2 else 6
    if dom == "GRID":
        return gen_grid_case(rnd, cid, n, w, sg, ov, thr, ind, vars_)
    cons, cand = [], []
    box = []
    strict_ok = dom == "NNC"
    for i in range(n):
        if i in vars_:
            shape = rnd.choice(["one", "zero", "straddle", "straddle", "straddle", "exact"])
            lo, hi = interval_for(rnd, w, sg, shape)
            unb = rnd.random() < 0.08
            ul = unb and rnd.random() < 0.5
            uh = unb and not ul
            if not ul: cons.append(ge_frac(n, i, lo, 1, ">" if strict_ok and rnd.random() < 0.15 else ">="))
            if not uh: cons.append(ge_frac(n, i, hi, -1, ">" if strict_ok and rnd.random() < 0.15 else ">="))
            cand.append(cands_for(rnd, w, sg, lo, hi, ncand, ul, uh))
            box.append((lo, hi))
        else:
            lo = F(rnd.randint(-6, 3), rnd.choice([1, 1, 2])); hi = lo + F(rnd.randint(0, 6), rnd.choice([1, 1, 3]))
            cons.append(ge_frac(n, i, lo, 1)); cons.append(ge_frac(n, i, hi, -1))
            import math
            cs_ = sorted(set([math.ceil(lo), math.floor(hi), lo, (lo + hi) / 2]))
            cand.append(cs_[:4])
            box.append((lo, hi))
    # relational constraints through a point of the box
    nrel = rnd.choice([0, 1, 1, 2])
    for _ in range(nrel):
        if n < 2: break
        i, j = rnd.sample(range(n), 2)
        a, b = rnd.choice([(1, -1), (1, 1), (-1, 1), (2, -3), (1, -2), (-1, -1)])
        ci = rnd.choice(cand[i]); cj = rnd.choice(cand[j])
        val = a * F(ci) + b * F(cj)
        slack = rnd.choice([0, 1, 3, 40, 300])
        # a x_i + b x_j >= val - slack
        c0 = val - slack
        d = c0.denominator
        cons.append("%s %s" % (">" if strict_ok and rnd.random() < 0.15 else ">=", row(n, -c0.numerator, {i: a * d, j: b * d})))
    alt = None
    if dom == "PC" and rnd.random() < 0.7:
        # a second disjunct: a shifted copy of the bounds of the wrapped variables
        alt = []
        for i in range(n):
            lo, hi = box[i]
            sh = rnd.choice([0, M, -M, 3, 2 * M + 1]) if i in vars_ else 0
            alt.append(ge_frac(n, i, lo + sh, 1)); alt.append(ge_frac(n, i, hi + sh, -1))
            if i in vars_: cand[i] = sorted(set(cand[i] + [v + sh for v in cand[i][:4]]))
    # guard
    g = rnd.choice(["none", "none", "bound", "bound", "rel"]) if not force.get("noguard") else "none"
    guard = "guard 0"
    if g == "bound":
        v = rnd.choice(vars_)
        c = rnd.choice([mn, mx, 0, mn + rnd.randint(0, 40), mx - rnd.randint(0, 40), rnd.randint(mn, mx)])
        sgn = rnd.choice([1, -1])
        kind = ">" if rnd.random() < 0.15 else ">="
        guard = "guard 1 cons 1 %s" % ge_frac(n, v, c, sgn, kind)
    elif g == "rel" and len(vars_) >= 2:
        i, j = rnd.sample(vars_, 2)
        c = rnd.choice([0, 0, 1, -1, rnd.randint(-50, 50)])
        kind = rnd.choice([">=", ">=", ">", "="])
        guard = "guard 1 cons 1 %s %s" % (kind, row(n, -c, {i: 1, j: -1}))
    ucand = sorted(set([mn, mx, 0 if mn <= 0 else mn, mn + 1, mx - 1] + [rnd.randint(mn, mx) for _ in range(2)]))
    line = "wrap %s %s %d cons %d %s" % (cid, dom, n, len(cons), " ".join(cons))
    if alt is not None:
        line += " alt cons %d %s" % (len(alt), " ".join(alt))
    line += " vars %d %s w %d sg %d ov %d %s thr %d ind %d" % (len(vars_), " ".join(map(str, vars_)), w, sg, ov, guard, thr, ind)
    if dom in ("C", "NNC"):
        line += " st %d" % rnd.randrange(NSTATES)
    line += " cand " + " ".join("%d %s" % (len(c), " ".join(fmtq(v) for v in c)) for c in cand)
    line += " ucand %d %s" % (len(ucand), " ".join(map(str, ucand)))
    return line


def gen_grid_case(rnd, cid, n, w, sg, ov, thr, ind, vars_):
    """grid given by per-variable congruences  d*x = a (mod m)  (rational frequency m/d, offset a/d), a few
    relational congruences / equalities; candidate values are members of the per-variable congruence."""
    M = 1 << w
    mn = -(M >> 1) if sg else 0
    mx = mn + M - 1
    cgs, cand = [], []
    for i in range(n):
        kind = rnd.choice(["free", "mod", "mod", "modM", "const", "frac", "fracM"])
        if kind == "free":
            vals = [rnd.randint(mn - M, mx + M) for _ in range(5)] + [mn, mx, mx + 1, mn - 1]
        elif kind == "mod":
            m = rnd.choice([2, 3, 5, 7, 16]); a = rnd.randint(0, m - 1) + rnd.choice([0, M, -M, 3 * M])
            cgs.append("%d %s" % (m, row(n, -a, {i: 1})))
            vals = [a + m * j for j in (-2, -1, 0, 1, 2, M // m, M // m + 1, -(M // m), rnd.randint(-300, 300))]
        elif kind == "modM":
            m = rnd.choice([M, 2 * M, M // 2, 3 * M]); a = rnd.randint(mn - M, mx + M)
            cgs.append("%d %s" % (m, row(n, -a, {i: 1})))
            vals = [a + m * j for j in (-3, -2, -1, 0, 1, 2, 3)]
        elif kind == "const":
            a = rnd.choice([rnd.randint(mn, mx), rnd.randint(mn - 2 * M, mx + 2 * M), mn, mx, mx + 1, mn - 1])
            cgs.append("0 %s" % row(n, -a, {i: 1}))
            vals = [a]
        elif kind == "frac":
            # d*x = a (mod m): x in a/d + (m/d) Z
            d = rnd.choice([2, 3]); m = rnd.choice([1, 2, 5, 4]); a = rnd.randint(0, 5)
            cgs.append("%d %s" % (m, row(n, -a, {i: d})))
            vals = [F(a + m * j, d) for j in range(-6, 7)]
        else:
            d = rnd.choice([3, 5]); m = M; a = rnd.randint(0, 7)
            cgs.append("%d %s" % (m, row(n, -a, {i: d})))
            vals = [F(a + m * j, d) for j in range(-2 * d, 2 * d + 1)]
        vals = sorted(set(F(v) for v in vals))
        if i in vars_:
            vals = [v for v in vals if v.denominator == 1] or vals[:1]
        cand.append(vals[:9] if n == 2 else vals[:6])
    if n >= 2 and rnd.random() < 0.4:
        i, j = rnd.sample(range(n), 2)
        m = rnd.choice([0, 2, 3, M])
        cgs.append("%d %s" % (m, row(n, -rnd.choice([0, 0, 1, M]), {i: 1, j: -1})))
    ucand = sorted(set([mn, mx, 0 if mn <= 0 else mn, mn + 1] + [rnd.randint(mn, mx) for _ in range(2)]))
    line = "wrap %s GRID %d cons 0 cgs %d %s" % (cid, n, len(cgs), " ".join(cgs))
    line += " vars %d %s w %d sg %d ov %d guard 0 thr %d ind %d" % (len(vars_), " ".join(map(str, vars_)), w, sg, ov, thr, ind)
    line += " cand " + " ".join("%d %s" % (len(c), " ".join(fmtq(v) for v in c)) for c in cand)
    line += " ucand %d %s" % (len(ucand), " ".join(map(str, ucand)))
    return line


def small_poly(rnd, n, strict_ok=False):
    """a bounded polyhedron in [-4,5]^n with rational vertices, often thin (few or no integer points)"""
    cons = []
    for i in range(n):
        lo = F(rnd.randint(-8, 4), rnd.choice([1, 2, 3])); hi = lo + F(rnd.randint(0, 9), rnd.choice([1, 2, 3, 4]))
        cons.append(ge_frac(n, i, lo, 1, ">" if strict_ok and rnd.random() < 0.2 else ">="))
        cons.append(ge_frac(n, i, hi, -1, ">" if strict_ok and rnd.random() < 0.2 else ">="))
    for _ in range(rnd.choice([0, 1, 2, 2])):
        if n < 2: break
        i, j = rnd.sample(range(n), 2)
        a, b = rnd.choice([(1, -1), (1, 1), (2, 2), (2, -2), (3, 2), (2, -3), (-1, -1), (-2, 2)])
        c = rnd.randint(-7, 7)
        if rnd.random() < 0.35:
            # a thin slab c <= a x + b y <= c + 1 scaled: 2(ax+by) in [2c+1-e, 2c+1+e]
            cons.append(">= %s" % row(n, -(2 * c + 1), {i: 2 * a, j: 2 * b}))
            cons.append(">= %s" % row(n, (2 * c + 1 + rnd.choice([0, 0, 1])), {i: -2 * a, j: -2 * b}))
        else:
            cons.append("%s %s" % (">" if strict_ok and rnd.random() < 0.2 else ">=", row(n, -c, {i: a, j: b})))
    return cons


NSTATES = 7   # lazy representation states of harness/run_wrap.cc (C / NNC polyhedra)


def open_shape(rnd, n, strict_ok):
    """integer-cornered boxes of width 0..2 whose sides are open or closed at random, optionally cut to a (half-)open diagonal
    segment or simplex: NNC sets whose CLOSURE has integral (closure) points that the set itself may lack"""
    cons = []
    for i in range(n):
        lo = rnd.randint(-3, 3); hi = lo + rnd.choice([0, 1, 1, 1, 2])
        if hi == lo:
            cons.append("= %s" % row(n, -lo, {i: 1}))
            continue
        cons.append(ge_frac(n, i, lo, 1, ">" if strict_ok and rnd.random() < 0.6 else ">="))
        cons.append(ge_frac(n, i, hi, -1, ">" if strict_ok and rnd.random() < 0.6 else ">="))
    if n >= 2 and rnd.random() < 0.6:
        i, j = rnd.sample(range(n), 2)
        k = rnd.choice(["diag", "diag", "antidiag", "lt", "sumlt"])
        c = rnd.randint(-1, 1)
        if k == "diag": cons.append("= %s" % row(n, -c, {i: 1, j: -1}))
        elif k == "antidiag": cons.append("= %s" % row(n, -rnd.randint(-3, 5), {i: 1, j: 1}))
        elif k == "lt": cons.append("%s %s" % (">" if strict_ok else ">=", row(n, -c, {i: 1, j: -1})))
        else: cons.append("%s %s" % (">" if strict_ok else ">=", row(n, rnd.randint(-2, 6), {i: -1, j: -1})))
    return cons


def poly_for(rnd, n, dom):
    if dom in ("C", "NNC") and rnd.random() < 0.5:
        return open_shape(rnd, n, dom == "NNC")
    return small_poly(rnd, n, dom == "NNC")


def states_of(rnd, dom):
    """C / NNC instances are run in EVERY lazy state (same set: same answer, equal to the verified reference)"""
    return list(range(NSTATES)) if dom in ("C", "NNC") else [None]


def gen_cip_case(rnd, cid, dom):
    n = rnd.choice([1, 2, 2, 3])
    cons = poly_for(rnd, n, dom)
    base = "%s %d cons %d %s" % (dom, n, len(cons), " ".join(cons))
    return ["cip %s%s %s%s" % (cid, "" if st is None else "s%d" % st, base, "" if st is None else " st %d" % st) for st in states_of(rnd, dom)]


def gen_drop_case(rnd, cid, dom):
    n = rnd.choice([1, 2, 2, 3])
    if rnd.random() < 0.03:
        # zero-dimensional universe: by the library's convention it contains an integer point
        return ["drop %s %s 0 cons 0%s vars -1 cx %d cand" % (cid, dom, " cgs 0" if dom == "GRID" else "", rnd.choice([0, 1, 2]))]
    line = "drop %s %s %d " % (cid, dom, n)
    if dom == "GRID":
        cgs = []
        for i in range(n):
            if rnd.random() < 0.8:
                d = rnd.choice([1, 2, 3]); m = rnd.choice([1, 2, 3, 5]); a = rnd.randint(0, 4)
                cgs.append("%d %s" % (m, row(n, -a, {i: d})))
        line += "cons 0 cgs %d %s" % (len(cgs), " ".join(cgs))
    else:
        cons = poly_for(rnd, n, dom)
        line += "cons %d %s" % (len(cons), " ".join(cons))
    if rnd.random() < 0.5:
        line += " vars -1"
    else:
        vs = sorted(rnd.sample(range(n), rnd.randint(1, n)))
        line += " vars %d %s" % (len(vs), " ".join(map(str, vs)))
    line += " cx %d" % rnd.choice([0, 1, 2])
    rng = [F(v) for v in range(-5, 7)] + [F(1, 2), F(-3, 2), F(7, 3)]
    per = rng if n <= 2 else rng[2:11] + [F(1, 2)]
    tail = " cand " + " ".join("%d %s" % (len(per), " ".join(fmtq(v) for v in per)) for _ in range(n))
    head, _, rest = line.partition(" " + cid + " ")
    return ["%s %s%s %s%s%s" % (head, cid, "" if st is None else "s%d" % st, rest, "" if st is None else " st %d" % st, tail)
            for st in states_of(rnd, dom)]


# ---------------------------------------------------------------------------------------------------
# exhaustive small table of intervals: lower end k + {0, 1/3, 1/2, 2/3}, width 0 .. 2 in steps mixing thirds and halves,
# each end open or closed (open ends only for the domains that have them: BOX, NNC)
FRACS = [F(0), F(1, 3), F(1, 2), F(2, 3)]
WIDTHS = [F(0), F(1, 3), F(1, 2), F(2, 3), F(1), F(4, 3), F(3, 2), F(2)]


def itv_table(open_ok):
    flags = [(0, 0), (1, 0), (0, 1), (1, 1)] if open_ok else [(0, 0)]
    return [(f, lo_open, f + w, hi_open) for f in FRACS for w in WIDTHS for (lo_open, hi_open) in flags]


def itv_cons(n, i, it, base=0):
    lo, lo_open, hi, hi_open = it
    return [ge_frac(n, i, lo + base, 1, ">" if lo_open else ">="), ge_frac(n, i, hi + base, -1, ">" if hi_open else ">=")]


def gen_table_cases(rnd, start, nprod, nwrap_tab):
    """cip / drop on the whole 1-D table (BOX and NNC with open ends; C, BDS, OCT closed ends), random 2-3 dimensional products,
    drop on BD shapes / octagons with fractional difference bounds and every proper subset of variables, wrap on boxes (and the
    generic domains) with ends on and around k*2^w + min_value and widths around 0..2 and 2^w."""
    out = []
    k = start
    opn = itv_table(True); clo = itv_table(False)
    cand1 = [F(v) for v in range(-2, 5)] + [F(1, 2), F(1, 3), F(5, 2)]
    def cand_txt(n, base):
        return " cand " + " ".join("%d %s" % (len(cand1), " ".join(fmtq(v + b) for v in cand1)) for b in base)
    # 1-D, exhaustive
    for dom, tab in (("BOX", opn), ("NNC", opn), ("C", clo), ("BDS", clo), ("OCT", clo)):
        for base in (0, rnd.choice([-7, -3, 4, 11])):
            for it in tab:
                cons = itv_cons(1, 0, it, base)
                sts = list(range(NSTATES)) if dom == "NNC" and it[1] + it[3] > 0 and base == 0 else [None]
                for st in sts:
                    sfx = "" if st is None else " st %d" % st
                    out.append("cip t%d %s 1 cons 2 %s%s" % (k, dom, " ".join(cons), sfx)); k += 1
                out.append("drop t%d %s 1 cons 2 %s vars -1 cx %d%s" % (k, dom, " ".join(cons), rnd.choice([0, 1, 2]), cand_txt(1, [base]))); k += 1
    # products
    for _ in range(nprod):
        dom = rnd.choice(["BOX", "BOX", "BOX", "NNC", "C", "BDS", "OCT"])
        tab = opn if dom in ("BOX", "NNC") else clo
        n = rnd.choice([2, 2, 3])
        bases = [rnd.choice([0, 0, -4, 6]) for _ in range(n)]
        cons = []
        for i in range(n):
            cons += itv_cons(n, i, rnd.choice(tab), bases[i])
        out.append("cip t%d %s %d cons %d %s" % (k, dom, n, len(cons), " ".join(cons))); k += 1
        vs = sorted(rnd.sample(range(n), rnd.randint(1, n)))
        vtxt = "vars -1" if rnd.random() < 0.4 else "vars %d %s" % (len(vs), " ".join(map(str, vs)))
        out.append("drop t%d %s %d cons %d %s %s cx %d%s" % (k, dom, n, len(cons), " ".join(cons), vtxt, rnd.choice([0, 1, 2]), cand_txt(n, bases))); k += 1
    # BD shapes / octagons: fractional difference (and sum) bounds, every non-empty subset of the variables
    import itertools
    for _ in range(max(nprod // 6, 8)):
        n = rnd.choice([2, 3, 3])
        cons = []
        for i in range(n):
            cons += itv_cons(n, i, (F(rnd.randint(-2, 0)) + rnd.choice(FRACS), 0, F(rnd.randint(1, 3)) + rnd.choice(FRACS), 0))
        for (i, j) in itertools.combinations(range(n), 2):
            if rnd.random() < 0.8:
                q = rnd.choice([F(1, 2), F(1, 3), F(3, 2), F(2, 3), F(1), F(5, 2)])
                cons.append(">= %s" % row(n, q.numerator, {i: -q.denominator, j: q.denominator}))      # x_i - x_j <= q
                if rnd.random() < 0.7:
                    q2 = rnd.choice([F(1, 2), F(1, 3), F(3, 2), F(0), F(2)])
                    cons.append(">= %s" % row(n, q2.numerator, {i: q2.denominator, j: -q2.denominator}))  # x_j - x_i <= q2
        for dom in ("BDS", "OCT", "C"):
            for r in range(1, n + 1):
                for vs in itertools.combinations(range(n), r):
                    out.append("drop t%d %s %d cons %d %s vars %d %s cx %d%s" % (k, dom, n, len(cons), " ".join(cons), len(vs), " ".join(map(str, vs)),
                                                                                 rnd.choice([0, 1, 2]), cand_txt(n, [0] * n))); k += 1
            out.append("cip t%d %s %d cons %d %s" % (k, dom, n, len(cons), " ".join(cons))); k += 1
    # wrap: ends on and around the quadrant boundaries, widths around 0..2 and around 2^w
    for _ in range(nwrap_tab):
        dom = rnd.choice(["BOX", "BOX", "BOX", "NNC", "C", "BDS", "OCT"])
        open_ok = dom in ("BOX", "NNC")
        w = rnd.choice([8, 8, 16, 32, 64]); sg = rnd.randint(0, 1); M = 1 << w; mn = -(M >> 1) if sg else 0; mx = mn + M - 1
        n = rnd.choice([1, 2, 2]); nv = rnd.randint(1, n); vars_ = sorted(rnd.sample(range(n), nv))
        cons, cand = [], []
        for i in range(n):
            if i in vars_:
                bnd = mn + rnd.choice([0, 1, 1, 2, -1, 3]) * M
                end_off = rnd.choice([F(0), F(0), F(0), F(1, 2), F(-1, 2), F(1), F(-1), F(1, 3), F(-2, 3)])
                wd = rnd.choice(WIDTHS + [F(28), F(M // 2), F(M - 1), F(M) - F(1, 2), F(M), F(M) + F(1, 2), F(M + 1)])
                if rnd.random() < 0.5:
                    hi = bnd + end_off; lo = hi - wd
                else:
                    lo = bnd + end_off; hi = lo + wd
                lo_open = open_ok and rnd.random() < 0.4; hi_open = open_ok and rnd.random() < 0.4
                cons += itv_cons(n, i, (lo, lo_open, hi, hi_open))
                a, b = math.floor(lo), math.ceil(hi)
                vals = set([a, a + 1, a + 2, b, b - 1, b - 2, (a + b) // 2])
                for q in range((a - mn) // M, (b - mn) // M + 2):
                    vals |= set([mn + q * M - 1, mn + q * M, mn + q * M + 1])
                cand.append(sorted(vals)[:14])
            else:
                it = rnd.choice(clo if not open_ok else opn)
                cons += itv_cons(n, i, it)
                cand.append(sorted(set([it[0], it[2], F(math.ceil(it[0])), (it[0] + it[2]) / 2])))
        ov = rnd.choice([0, 0, 0, 1, 2]); thr = rnd.choice([0, 1, 2, 16]); ind = rnd.randint(0, 1)
        guard = "guard 0"
        if rnd.random() < 0.3:
            v = rnd.choice(vars_); c = rnd.choice([mn, mx, 0, mn + 1, mx - 1])
            guard = "guard 1 cons 1 %s" % ge_frac(n, v, c, rnd.choice([1, -1]), ">" if rnd.random() < 0.2 else ">=")
        ucand = sorted(set([mn, mx, mn + 1, mx - 1, 0 if mn <= 0 else mn]))
        line = "wrap t%d %s %d cons %d %s vars %d %s w %d sg %d ov %d %s thr %d ind %d" % (
            k, dom, n, len(cons), " ".join(cons), len(vars_), " ".join(map(str, vars_)), w, sg, ov, guard, thr, ind)
        if dom in ("C", "NNC"): line += " st %d" % rnd.randrange(NSTATES)
        line += " cand " + " ".join("%d %s" % (len(c), " ".join(fmtq(v) for v in c)) for c in cand)
        line += " ucand %d %s" % (len(ucand), " ".join(map(str, ucand)))
        out.append(line); k += 1
    return out


def make_cases(seed, nwrap, ncip, ndrop, start=0):
    rnd = random.Random(seed)
    out = []
    k = start
    for i in range(nwrap):
        dom = DOMS_WRAP[i % len(DOMS_WRAP)]
        out.append(gen_wrap_case(rnd, "w%d" % k, dom)); k += 1
    for i in range(ncip):
        dom = ["C", "NNC", "BDS", "OCT", "BOX"][i % 5]
        out += gen_cip_case(rnd, "c%d" % k, dom); k += 1
    for i in range(ndrop):
        dom = ["C", "NNC", "BDS", "OCT", "BOX", "GRID"][i % 6]
        out += gen_drop_case(rnd, "d%d" % k, dom); k += 1
    out += gen_table_cases(rnd, 0, max(ncip // 2, 20), max(nwrap // 5, 20))
    return out


if __name__ == "__main__":
    import sys
    for l in make_cases(int(sys.argv[1]) if len(sys.argv) > 1 else 1, 14, 5, 6):
        print(l)
