"""C08: generator of adversarial ascending chains and of the widening scripts run by harness/run_widen.cc and
judged by ocaml/judge_widen.ml.  Every random choice derives from one random.Random(seed).

A chain y_0 <= y_1 <= ... (length <= 12) grows slowly: one new vertex / ray / line / closure point, or one loosened
(or dropped, or closed) bound per step.  Families:
  vertex    generators accumulated: a point next to an existing one, sometimes rational or far away, rays, lines
  climb     the affine dimension rises step by step (point, segment, triangle, ...) before vertices are added
  parabola  points (i, i^2) under a random affine map: every step adds a vertex AND a constraint
  cone      rays rotating around a fixed apex
  bounds    box / octagon-like constraints around a centre, one bound loosened (or dropped, or an equality split,
            or a strict inequality closed) per step
For each widening W in {H79, BHRZ03} the script iterates  x_0 = y_0,  x_{k+1} = (x_k hull y_{k+1}) W x_k  and at
every step rebuilds both operands through other construction routes (from constraints, from generators, with
redundant rows, through add_* sequences, with pending rows) and asks for: the plain widening on each representation
pair (`#! same`), the certificates and their comparisons (`cert`, `cmp`, `#! step`, `#! samecert`), the token
variants, limited and bounded extrapolations; at the end the multiset ordering on the certificates met (`ps`)."""
import random

ROUTES = ["cons", "mcons", "gens", "mgens", "consred", "gensred", "addc", "addg", "pendc", "pendg", "copy"]
WIDENINGS = ["H79", "BHRZ03"]


def fmt_gen(g):
    k, d, v = g
    return "%s %d %s" % (k, d, " ".join(map(str, v)))


def fmt_con(c):
    k, b, v = c
    return "%s %d %s" % (k, b, " ".join(map(str, v)))


def fmt_gens(gs):
    return "gens %d %s" % (len(gs), " ".join(fmt_gen(g) for g in gs))


def fmt_cons(cs):
    return "cons %d %s" % (len(cs), " ".join(fmt_con(c) for c in cs)) if cs else "cons 0"


class Chain:
    """y_k as ('gens', list) or ('cons', list)."""
    def __init__(self, r, family, dim, topo, length):
        self.r, self.family, self.dim, self.topo = r, family, dim, topo
        self.ys = []
        getattr(self, "fam_" + family)(length)

    # ---- helpers ----
    def small(self, lo=-3, hi=3):
        return self.r.randint(lo, hi)

    def nzvec(self, lo=-2, hi=2):
        while True:
            v = [self.r.randint(lo, hi) for _ in range(self.dim)]
            if any(v):
                return v

    def point(self, base=None, far=False):
        r = self.r
        d = r.choice([1, 1, 1, 1, 2, 3])
        if base is None:
            v = [self.small() * d for _ in range(self.dim)]
        else:
            _, bd, bv = base
            delta = self.nzvec(-2, 2)
            if far:
                delta = [x * r.choice([7, 50, 10 ** 6]) for x in delta]
            # base/bd + delta/d
            v = [bv[i] * d + delta[i] * bd for i in range(self.dim)]
            d = d * bd
        return ("p", d, v)

    # ---- families ----
    def grow_gens(self, gs, length, pray=0.12, pline=0.04):
        r = self.r
        self.ys.append(("gens", list(gs)))
        for _ in range(length):
            pts = [g for g in gs if g[0] in "pc"]
            u = r.random()
            if u < pline:
                g = ("l", 1, self.nzvec(-1, 1))
            elif u < pline + pray:
                g = ("r", 1, self.nzvec(-2, 2))
            elif self.topo == "NNC" and u < pline + pray + 0.2:
                b = r.choice(pts)
                cl = [x for x in pts if x[0] == "c"]
                if cl and r.random() < 0.5:
                    c0 = r.choice(cl); g = ("p", c0[1], c0[2])     # close an open vertex
                else:
                    p = self.point(b); g = ("c", p[1], p[2])
            else:
                g = self.point(r.choice(pts), far=(r.random() < 0.08))
            gs = gs + [g]
            self.ys.append(("gens", list(gs)))

    def fam_vertex(self, length):
        k = self.r.randint(1, 3)
        gs = [self.point() for _ in range(k)]
        if self.topo == "NNC" and self.r.random() < 0.4:
            p = self.point(gs[0]); gs.append(("c", p[1], p[2]))
        self.grow_gens(gs, length)

    def fam_climb(self, length):
        r = self.r
        p0 = self.point()
        gs = [p0]
        self.ys.append(("gens", list(gs)))
        axes = list(range(self.dim)); r.shuffle(axes)
        steps = 0
        for a in axes:
            if steps >= length: break
            e = [0] * self.dim; e[a] = r.choice([1, -1, 2])
            u = r.random()
            if u < 0.2: g = ("r", 1, e)
            elif u < 0.3: g = ("l", 1, e)
            else: g = ("p", p0[1], [p0[2][i] + e[i] * p0[1] for i in range(self.dim)])
            gs = gs + [g]; steps += 1
            self.ys.append(("gens", list(gs)))
            if r.random() < 0.4 and steps < length:
                gs = gs + [self.point(r.choice([x for x in gs if x[0] in "pc"]))]; steps += 1
                self.ys.append(("gens", list(gs)))
        ys = self.ys; self.ys = ys[:-1]
        self.grow_gens(gs, length - steps)

    def fam_parabola(self, length):
        r = self.r
        # affine map of (i, i^2) into the space
        a = self.nzvec(-2, 2); b = self.nzvec(-2, 2)
        if self.dim >= 2:
            indep = lambda: any(a[i] * b[j] - a[j] * b[i] != 0 for i in range(self.dim) for j in range(i + 1, self.dim))
            while not indep():
                b = self.nzvec(-2, 2)
        o = [self.small() for _ in range(self.dim)]
        pt = lambda i: ("p", 1, [o[j] + a[j] * i + b[j] * i * i for j in range(self.dim)])
        i0 = r.randint(-2, 0)
        gs = [pt(i0), pt(i0 + 1)] + ([pt(i0 + 2)] if r.random() < 0.7 else [])
        nxt = i0 + len(gs)
        self.ys.append(("gens", list(gs)))
        for _ in range(length):
            if r.random() < 0.1:
                gs = gs + [("r", 1, self.nzvec(-1, 1))]
            else:
                gs = gs + [pt(nxt)]; nxt += 1
            self.ys.append(("gens", list(gs)))

    def fam_cone(self, length):
        r = self.r
        apex = ("p", 1, [self.small() for _ in range(self.dim)])
        a = self.nzvec(-1, 1); b = self.nzvec(-2, 2)
        gs = [apex, ("r", 1, a)]
        if r.random() < 0.5:
            gs.append(self.point(apex))
        self.ys.append(("gens", list(gs)))
        for k in range(1, length + 1):
            v = [a[j] + k * b[j] for j in range(self.dim)]
            if not any(v): v = self.nzvec(-1, 1)
            g = ("r", 1, v) if r.random() < 0.8 else self.point(r.choice([x for x in gs if x[0] == "p"]))
            gs = gs + [g]
            self.ys.append(("gens", list(gs)))

    def fam_bounds(self, length):
        r, n = self.r, self.dim
        c = [self.small() for _ in range(n)]           # a point kept inside
        cs = []
        def add(v, kind=None):
            val = sum(v[i] * c[i] for i in range(n))
            slack = r.randint(0, 2)
            if kind is None:
                u = r.random()
                kind = "=" if u < 0.12 else (">" if (self.topo == "NNC" and u < 0.35) else ">=")
            if kind == "=": slack = 0
            if kind == ">" and slack == 0: slack = 1
            cs.append([kind, slack - val, v])      # v.x + (slack - v.c) >= 0 holds at c with margin slack
        for i in range(n):
            for s in (1, -1):
                if r.random() < 0.8:
                    v = [0] * n; v[i] = s; add(v)
        for _ in range(r.randint(0, 2 if n > 1 else 0)):
            i, j = r.sample(range(n), 2)
            v = [0] * n; v[i] = r.choice([1, -1]); v[j] = r.choice([1, -1, 2]); add(v)
        if not cs:
            v = [0] * n; v[0] = 1; add(v, ">=")
        # two equalities on the same direction could be inconsistent: keep the first of each direction
        seen, out = set(), []
        for k in cs:
            key = tuple(k[2]); neg = tuple(-x for x in k[2])
            if k[0] == "=" and (key in seen or neg in seen): continue
            seen.add(key); out.append(k)
        cs = out
        snap = lambda: ("cons", [(k[0], k[1], list(k[2])) for k in cs])
        self.ys.append(snap())
        for _ in range(length):
            if not cs:
                self.ys.append(snap()); continue
            k = r.choice(cs)
            u = r.random()
            if k[0] == "=":
                # split the equality into two inequalities, one of them loosened
                cs.remove(k)
                cs.append([">=", k[1] + r.randint(0, 2), list(k[2])])
                cs.append([">=", -k[1] + r.randint(0, 2), [-x for x in k[2]]])
            elif k[0] == ">" and u < 0.4:
                k[0] = ">="
            elif u < 0.08:
                cs.remove(k)
            else:
                k[1] += r.choice([1, 1, 2, 3, 10 ** 6] if r.random() < 0.05 else [1, 1, 2, 3])
            self.ys.append(snap())


def limit_cons(r, dim, topo, chain):
    """2-4 limiting constraints: bounds near the coordinates in play, some implied by the iterates, some not."""
    cs = []
    last = chain.ys[-1]
    if last[0] == "cons" and last[1] and r.random() < 0.7:
        for k in r.sample(last[1], min(len(last[1]), r.randint(1, 2))):
            kind = k[0] if (topo == "NNC" or k[0] != ">") else ">="
            cs.append((kind, k[1] + r.randint(0, 2), list(k[2])))
    while len(cs) < r.randint(2, 4):
        v = [0] * dim
        if r.random() < 0.6 or dim == 1:
            v[r.randrange(dim)] = r.choice([1, -1])
        else:
            i, j = r.sample(range(dim), 2); v[i] = r.choice([1, -1]); v[j] = r.choice([1, -1])
        kind = ">" if (topo == "NNC" and r.random() < 0.25) else (">=" if r.random() < 0.93 else "=")
        cs.append((kind, r.randint(-2, 12), v))
    return cs



# ---------------------------------------------------------------------------------------------------------------
# the smaller argument as the EMPTY set in every emptiness state (harness: newe)
POLY_ESTATES = ["addc", "refine", "cons", "meet", "queried", "minq", "pend"]
SHAPE_ESTATES = ["addc", "refine", "cons", "meet", "queried", "minq"]


def empty_probe(L, fresh, r, topo, dim, w, x, routes, estates, cs_text, bounded, tokens=True):
    """x widened by an empty y presented in several emptiness states: same results, same token consumption."""
    x2 = fresh(); L.append("mk %d %s %d %d" % (x2, r.choice(routes), x, r.randrange(1 << 20)))
    states = ["marked"] + r.sample(estates, 3)
    base = None
    for k, st in enumerate(states):
        ye = fresh(); L.append("newe %d %s %d %s %d" % (ye, topo, dim, st, r.randrange(1 << 20)))
        xi = x if k % 2 == 0 else x2
        p = fresh(); L.append("widen %s %d %d %d -1" % (w, p, xi, ye))
        t = p
        if tokens:
            t = fresh(); L.append("widen %s %d %d %d 2 plain %d" % (w, t, xi, ye, p))
        ids = [p, t]
        if cs_text is not None:
            l = fresh(); L.append("lim %s limited %d %d %d -1 %s plain %d" % (w, l, xi, ye, cs_text, p)); ids.append(l)
            lt = fresh(); L.append("lim %s limited %d %d %d 1 %s plain %d" % (w, lt, xi, ye, cs_text, p)); ids.append(lt)
            if bounded:
                b = fresh(); L.append("lim %s bounded %d %d %d -1 %s plain %d" % (w, b, xi, ye, cs_text, p)); ids.append(b)
        if base is None:
            base = ids
        else:
            for a, b in zip(base, ids):
                L.append("#! same %d %d" % (a, b))
            L.append("#! sametok %d %d" % (base[1], ids[1]))
            if cs_text is not None: L.append("#! sametok %d %d" % (base[3], ids[3]))
    # both arguments empty, in different states
    xe = fresh(); L.append("newe %d %s %d %s %d" % (xe, topo, dim, r.choice(estates), r.randrange(1 << 20)))
    ye = fresh(); L.append("newe %d %s %d %s %d" % (ye, topo, dim, r.choice(["marked"] + estates), r.randrange(1 << 20)))
    p = fresh(); L.append("widen %s %d %d %d -1" % (w, p, xe, ye))
    if tokens:
        t = fresh(); L.append("widen %s %d %d %d 1 plain %d" % (w, t, xe, ye, p))


def make_case(seed, cid, quick=True, family=None, dim=None, topo=None, widenings=WIDENINGS):
    r = random.Random(seed)
    family = family or r.choice(["vertex"] * 4 + ["climb"] * 3 + ["parabola"] * 2 + ["cone"] * 2 + ["bounds"] * 5)
    dim = dim or r.choice([1, 2, 2, 2, 2, 3, 3])
    if family == "parabola" and dim == 1: dim = 2
    topo = topo or r.choice(["C", "C", "NNC"])
    length = r.randint(4, 8) if quick else r.randint(6, 11)
    ch = Chain(r, family, dim, topo, length)
    ys = ch.ys[:12]
    L = ["case %s" % cid, "# family=%s dim=%d topo=%s length=%d seed=%d" % (family, dim, topo, len(ys), seed)]
    nid = [0]
    def fresh():
        nid[0] += 1; return nid[0] - 1
    def new_y(y):
        i = fresh()
        L.append("new %d %s %d %s" % (i, topo, dim, fmt_gens(y[1]) if y[0] == "gens" else fmt_cons(y[1])))
        return i
    y0 = new_y(ys[0])
    L.append("cert %d" % y0)
    X = {w: y0 for w in widenings}
    iterates = {w: [y0] for w in widenings}
    p_extra = 0.45 if quick else 0.7
    for k in range(1, len(ys)):
        yk = new_y(ys[k])
        for w in widenings:
            x = X[w]
            a = fresh(); L.append("hull %d %d %d" % (a, x, yk))
            # representations of both operands
            ra, rb = [a], [x]
            for _ in range(2):
                i = fresh(); L.append("mk %d %s %d %d" % (i, r.choice(ROUTES), a, r.randrange(1 << 20))); ra.append(i)
                i = fresh(); L.append("mk %d %s %d %d" % (i, r.choice(ROUTES), x, r.randrange(1 << 20))); rb.append(i)
            pairs = [(ra[0], rb[0]), (ra[1], rb[1]), (ra[2], rb[r.choice([0, 2])])]
            res = []
            for (ia, ib) in pairs:
                i = fresh(); L.append("widen %s %d %d %d -1" % (w, i, ia, ib)); res.append(i)
            r0 = res[0]
            L.append("#! same %d %d" % (r0, res[1])); L.append("#! same %d %d" % (r0, res[2]))
            L.append("cert %d" % r0); L.append("cert %d" % res[1])
            L.append("#! samecert %d %d" % (r0, res[1]))
            # the iteration continues on either representation (the results are the same set, or a finding)
            j = r.choice([0, 0, 1])
            nx, yop = res[j], pairs[j][1]
            if yop != x:
                # the smaller operand actually passed is another representation of x_k: its certificate must be x_k's
                L.append("cert %d" % yop); L.append("#! samecert %d %d" % (x, yop))
            L.append("cmp %d %d" % (yop, nx))
            if r.random() < 0.3: L.append("cmp %d %d" % (nx, yop))
            # the per-step hypothesis, on the objects the library was given
            L.append("#! step %s %d %d" % (w, yop, nx))
            # the variants are judged against the plain widening of the SAME representation pair
            if r.random() < p_extra:
                for (t, pi) in [(1, 0), (r.choice([2, 3]), 1), (0, 2)]:
                    i = fresh(); L.append("widen %s %d %d %d %d plain %d" % (w, i, pairs[pi][0], pairs[pi][1], t, res[pi]))
            if r.random() < p_extra:
                cs = limit_cons(r, dim, topo, ch)
                i = fresh(); L.append("lim %s limited %d %d %d -1 %s plain %d" % (w, i, pairs[0][0], pairs[0][1], fmt_cons(cs), res[0]))
                j = fresh(); L.append("lim %s limited %d %d %d -1 %s plain %d" % (w, j, pairs[1][0], pairs[1][1], fmt_cons(cs), res[1]))
                L.append("#! same %d %d" % (i, j))
                pi = r.choice([0, 2])
                i = fresh(); L.append("lim %s bounded %d %d %d -1 %s plain %d" % (w, i, pairs[pi][0], pairs[pi][1], fmt_cons(cs), res[pi]))
                if r.random() < 0.5:
                    pi = r.choice([0, 1, 2])
                    kd = r.choice(["limited", "bounded"])
                    lp = fresh(); L.append("lim %s %s %d %d %d -1 %s plain %d" % (w, kd, lp, pairs[pi][0], pairs[pi][1], fmt_cons(cs), res[pi]))
                    i = fresh(); L.append("lim %s %s %d %d %d %d %s plain %d lplain %d" % (w, kd, i, pairs[pi][0], pairs[pi][1], r.choice([0, 1, 2]), fmt_cons(cs), res[pi], lp))
                if r.random() < 0.5:
                    # x's own constraints as the limiting system: the extrapolation is x itself
                    lp = fresh(); L.append("lim %s limited %d %d %d -1 consx plain %d" % (w, lp, pairs[0][0], pairs[0][1], res[0]))
                    i = fresh(); L.append("lim %s limited %d %d %d %d consx plain %d lplain %d" % (w, i, pairs[0][0], pairs[0][1], r.choice([1, 2]), res[0], lp))
            X[w] = nx; iterates[w].append(nx)
    if r.random() < 0.5:
        cs = limit_cons(r, dim, topo, ch)
        for w in widenings:
            empty_probe(L, fresh, r, topo, dim, w, X[w], ROUTES, POLY_ESTATES, fmt_cons(cs), True)
    # the multiset ordering on the certificates met along the way
    allit = sorted(set(i for w in widenings for i in iterates[w]))
    # the transcribed comparisons against the library's on arbitrary pairs (the model is the code as written,
    # nested or not)
    for _ in range(4):
        L.append("cmp %d %d" % (r.choice(allit), r.choice(allit)))
    for _ in range(2):
        xs = [r.choice(allit) for _ in range(r.randint(1, 4))]
        ysl = [r.choice(allit) for _ in range(r.randint(1, 4))]
        L.append("ps %d %s %d %s" % (len(xs), " ".join(map(str, xs)), len(ysl), " ".join(map(str, ysl))))
    L.append("end")
    return L


# ---------------------------------------------------------------------------------------------------------------
# weakly relational shapes and boxes
SHAPE_WIDENINGS = {"BDS": ["BHMZ05", "H79", "CC76"], "OCT": ["BHMZ05", "CC76"], "BOX": ["CC76"]}
SHAPE_ROUTES = ["copy", "closed", "empt", "cons", "mcons", "poly", "addc", "consred"]


def shape_dir(r, kind, n):
    """A left-hand side in the class of the shape."""
    v = [0] * n
    if kind == "BOX" or n == 1 or r.random() < 0.5:
        v[r.randrange(n)] = r.choice([1, -1])
    else:
        i, j = r.sample(range(n), 2)
        if kind == "BDS":
            v[i], v[j] = 1, -1
        else:
            v[i], v[j] = r.choice([1, -1]), r.choice([1, -1])
    return v


def shape_chain(r, kind, n, length):
    c = [r.randint(-3, 3) for _ in range(n)]
    cs, seen = [], set()
    for _ in range(r.randint(n, 2 * n + 3)):
        v = shape_dir(r, kind, n)
        if tuple(v) in seen: continue
        seen.add(tuple(v))
        m = r.choice([1, 1, 1, 2, 3])               # common factor: rational bounds
        val = sum(v[i] * c[i] for i in range(n)) * m
        u = r.random()
        k = "=" if u < 0.1 else (">" if (kind == "BOX" and u < 0.3) else ">=")
        if k == "=" and tuple(-x for x in v) in seen: k = ">="
        slack = 0 if k == "=" else (r.randint(1, 4) if k == ">" else r.randint(0, 4))
        cs.append([k, slack - val, [m * x for x in v]])
    ys = []
    snap = lambda: [(k[0], k[1], list(k[2])) for k in cs]
    ys.append(snap())
    for _ in range(length):
        if cs:
            k = r.choice(cs)
            u = r.random()
            if k[0] == "=":
                cs.remove(k)
                cs.append([">=", k[1] + r.randint(0, 2), list(k[2])])
                cs.append([">=", -k[1] + r.randint(0, 2), [-x for x in k[2]]])
            elif k[0] == ">" and u < 0.4: k[0] = ">="
            elif u < 0.08: cs.remove(k)
            else: k[1] += r.choice([1, 1, 2, 3, 7])
        ys.append(snap())
    return ys


def stop_points(r):
    """A non-default stop-point list for the CC76 overloads: equal to the defaults, disjoint from them, overlapping,
    empty, a single point, with rationals; ascending."""
    k = r.random()
    if k < 0.1: pts = [-2, -1, 0, 1, 2]
    elif k < 0.2: pts = []
    elif k < 0.35: pts = [r.randint(-4, 12)]
    elif k < 0.6: pts = r.sample([x for x in range(-8, 16) if x < -2 or x > 2], r.randint(2, 5))       # disjoint from the defaults
    elif k < 0.85: pts = r.sample(range(-5, 12), r.randint(2, 6))                                      # overlapping
    else: pts = [x / 2 for x in r.sample(range(-9, 25), r.randint(2, 5))]
    pts = sorted(set(pts))
    fmt = lambda q: str(int(q)) if float(q).is_integer() else "%d/2" % int(round(q * 2))
    return "CC76sp[%s]" % ",".join(fmt(q) for q in pts)


def make_shape_case(seed, cid, quick=True, kind=None):
    r = random.Random(seed)
    kind = kind or r.choice(["BDS", "BDS", "OCT", "OCT", "BOX"])
    n = r.choice([1, 2, 2, 3, 3])
    ys = shape_chain(r, kind, n, r.randint(4, 7) if quick else r.randint(6, 11))[:12]
    L = ["case %s" % cid, "# family=shape-%s dim=%d topo=%s length=%d seed=%d" % (kind, n, kind, len(ys), seed)]
    nid = [0]
    def fresh():
        nid[0] += 1; return nid[0] - 1
    def new_y(y):
        i = fresh(); L.append("new %d %s %d %s" % (i, kind, n, fmt_cons(y))); return i
    y0 = new_y(ys[0])
    # the overload with EXTRA PARAMETERS: CC76 with a caller-supplied stop-point range (tokens: BDS and octagons only)
    wids = SHAPE_WIDENINGS[kind] + [stop_points(r)]
    X = {w: y0 for w in wids}
    p_extra = 0.45 if quick else 0.7
    for k in range(1, len(ys)):
        yk = new_y(ys[k])
        for w in wids:
            issp = w.startswith("CC76sp")
            x = X[w]
            a = fresh(); L.append("hull %d %d %d" % (a, x, yk))
            ra, rb = [a], [x]
            for _ in range(2):
                i = fresh(); L.append("mk %d %s %d %d" % (i, r.choice(SHAPE_ROUTES), a, r.randrange(1 << 20))); ra.append(i)
                i = fresh(); L.append("mk %d %s %d %d" % (i, r.choice(SHAPE_ROUTES), x, r.randrange(1 << 20))); rb.append(i)
            pairs = [(ra[0], rb[0]), (ra[1], rb[1]), (ra[2], rb[r.choice([0, 2])])]
            res = []
            for (ia, ib) in pairs:
                i = fresh(); L.append("widen %s %d %d %d -1" % (w, i, ia, ib)); res.append(i)
            L.append("#! same %d %d" % (res[0], res[1])); L.append("#! same %d %d" % (res[0], res[2]))
            if (r.random() < p_extra or issp) and not (issp and kind == "BOX"):
                # judged against the plain call of the same representation pair WITH THE SAME PARAMETERS
                for (t, pi) in [(1, 0), (r.choice([2, 3]), 1), (0, 2)]:
                    i = fresh(); L.append("widen %s %d %d %d %d plain %d" % (w, i, pairs[pi][0], pairs[pi][1], t, res[pi]))
            if r.random() < p_extra and not issp:
                cs = []
                for _ in range(r.randint(2, 4)):
                    v = shape_dir(r, kind, n)
                    cs.append((">=" if r.random() < 0.9 else "=", r.randint(-2, 12), v))
                i = fresh(); L.append("lim %s limited %d %d %d -1 %s plain %d" % (w, i, pairs[0][0], pairs[0][1], fmt_cons(cs), res[0]))
                j = fresh(); L.append("lim %s limited %d %d %d -1 %s plain %d" % (w, j, pairs[1][0], pairs[1][1], fmt_cons(cs), res[1]))
                L.append("#! same %d %d" % (i, j))
                if r.random() < 0.5:
                    pi = r.choice([0, 1, 2])
                    lp = fresh(); L.append("lim %s limited %d %d %d -1 %s plain %d" % (w, lp, pairs[pi][0], pairs[pi][1], fmt_cons(cs), res[pi]))
                    i = fresh(); L.append("lim %s limited %d %d %d %d %s plain %d lplain %d" % (w, i, pairs[pi][0], pairs[pi][1], r.choice([0, 1, 2]), fmt_cons(cs), res[pi], lp))
                if r.random() < 0.5:
                    lp = fresh(); L.append("lim %s limited %d %d %d -1 consx plain %d" % (w, lp, pairs[0][0], pairs[0][1], res[0]))
                    i = fresh(); L.append("lim %s limited %d %d %d %d consx plain %d lplain %d" % (w, i, pairs[0][0], pairs[0][1], r.choice([1, 2]), res[0], lp))
            X[w] = res[0]
    if r.random() < 0.7:
        cs = []
        for _ in range(r.randint(2, 3)):
            cs.append((">=", r.randint(-2, 12), shape_dir(r, kind, n)))
        for w in wids:
            sp = w.startswith("CC76sp")
            empty_probe(L, fresh, r, kind, n, w, X[w], SHAPE_ROUTES, SHAPE_ESTATES, None if sp else fmt_cons(cs), False, tokens=not (sp and kind == "BOX"))
    L.append("end")
    return L


# ---------------------------------------------------------------------------------------------------------------
# grids, and the certificate-based powerset lifting (harness/run_pswiden.cc, ocaml/judge_pswiden.ml)
GRID_ROUTES = ["copy", "cgs", "mcgs", "ggens", "mggens", "both", "aff", "aff_mg", "aff_mc", "addc", "addg", "gq", "cq"]
POLY_LAZY_ROUTES = ["copy", "cons", "mcons", "gens", "mgens", "both", "aff", "aff_mg", "aff_mc", "pendc", "pendg", "gq", "cq"]
GRID_WIDENINGS = ["congruence", "generator"]
PRIMES = [2, 3, 5, 7]


def fmt_cgs(cs):
    return "cgs %d %s" % (len(cs), " ".join("%d %d %s" % (m, b, " ".join(map(str, a))) for (m, b, a) in cs)) if cs else "cgs 0"


def grid_elem(r, n):
    """Congruences (m, b, a): a.x + b = 0 (mod m); m = 0 is an equality. All hold at an integer point c."""
    c = [r.randint(-3, 3) for _ in range(n)]
    cs, seen = [], set()
    for _ in range(r.randint(1, n + 1)):
        a = [0] * n
        if n == 1 or r.random() < 0.6:
            a[r.randrange(n)] = r.choice([1, 1, 1, 2, -1])
        else:
            i, j = r.sample(range(n), 2); a[i] = r.choice([1, -1, 2]); a[j] = r.choice([1, -1, 3])
        if tuple(a) in seen: continue
        seen.add(tuple(a))
        m = 0 if r.random() < 0.35 else r.choice([2, 3, 4, 6, 8, 12, 16, 64])
        v = sum(a[i] * c[i] for i in range(n))
        cs.append([m, -v, a])
    return cs


def grid_loosen(r, cs):
    """One step up: equality -> congruence, modulus divided by a prime factor, modulus 1 dropped."""
    cs = [list(k) for k in cs]
    if not cs: return cs
    k = r.choice(cs)
    if k[0] == 0: k[0] = r.choice([4, 6, 8, 12, 64])
    elif k[0] == 1: cs.remove(k)
    else:
        ps = [p for p in PRIMES if k[0] % p == 0]
        k[0] = k[0] // r.choice(ps) if ps else 1
    return cs


def make_grid_case(seed, cid, quick=True):
    r = random.Random(seed)
    n = r.choice([1, 2, 2, 3])
    ys = [grid_elem(r, n)]
    for _ in range(r.randint(4, 7) if quick else r.randint(6, 10)):
        ys.append(grid_loosen(r, ys[-1]))
    L = ["case %s" % cid, "# family=grid dim=%d topo=G length=%d seed=%d" % (n, len(ys), seed)]
    nid = [0]
    def fresh():
        nid[0] += 1; return nid[0] - 1
    def new_y(y):
        i = fresh(); L.append("new %d G %d %s" % (i, n, fmt_cgs([tuple(k) for k in y]))); return i
    y0 = new_y(ys[0]); L.append("cert %d" % y0)
    X = {w: y0 for w in GRID_WIDENINGS}
    p_extra = 0.45 if quick else 0.7
    for k in range(1, len(ys)):
        yk = new_y(ys[k])
        for w in GRID_WIDENINGS:
            x = X[w]
            a = fresh(); L.append("join %d %d %d" % (a, x, yk))
            ra, rb = [a], [x]
            for _ in range(2):
                i = fresh(); L.append("mk %d %s %d %d" % (i, r.choice(GRID_ROUTES), a, r.randrange(1 << 20))); ra.append(i)
                i = fresh(); L.append("mk %d %s %d %d" % (i, r.choice(GRID_ROUTES), x, r.randrange(1 << 20))); rb.append(i)
            # every representation of the smaller argument must have the same certificate
            for i in rb[1:]:
                L.append("cert %d" % i); L.append("#! samecert %d %d" % (x, i))
            pairs = [(ra[0], rb[0]), (ra[1], rb[1]), (ra[2], rb[r.choice([0, 2])])]
            res = []
            for (ia, ib) in pairs:
                i = fresh(); L.append("widen %s %d %d %d -1" % (w, i, ia, ib)); res.append(i)
            L.append("#! same %d %d" % (res[0], res[1])); L.append("#! same %d %d" % (res[0], res[2]))
            L.append("cert %d" % res[0]); L.append("cert %d" % res[1]); L.append("#! samecert %d %d" % (res[0], res[1]))
            j = r.choice([0, 0, 1])
            nx, yop = res[j], pairs[j][1]
            L.append("cmp %d %d" % (yop, nx))
            if r.random() < 0.3: L.append("cmp %d %d" % (nx, yop))
            L.append("#! step %s %d %d" % (w, yop, nx))
            if r.random() < p_extra:
                for (t, pi) in [(1, 0), (r.choice([2, 3]), 1), (0, 2)]:
                    i = fresh(); L.append("widen %s %d %d %d %d plain %d" % (w, i, pairs[pi][0], pairs[pi][1], t, res[pi]))
            if r.random() < p_extra:
                cs = []
                for _ in range(r.randint(1, 3)):
                    aa = [0] * n; aa[r.randrange(n)] = 1
                    cs.append((r.choice([0, 1, 2, 3, 4]), r.randint(-3, 3), aa))
                i = fresh(); L.append("lim %s %d %d %d -1 %s plain %d" % (w, i, pairs[0][0], pairs[0][1], fmt_cgs(cs), res[0]))
                jj = fresh(); L.append("lim %s %d %d %d -1 %s plain %d" % (w, jj, pairs[1][0], pairs[1][1], fmt_cgs(cs), res[1]))
                L.append("#! same %d %d" % (i, jj))
            X[w] = nx
    if r.random() < 0.6:
        aa = [0] * n; aa[r.randrange(n)] = 1
        cs = [(r.choice([0, 2, 3]), r.randint(-3, 3), aa)]
        for w in GRID_WIDENINGS:
            grid_empty_probe(L, fresh, r, "G", n, w, X[w], GRID_ROUTES, fmt_cgs(cs))
    L.append("end")
    return L


GRID_ESTATES = ["addc", "refine", "cons", "meet", "queried", "minq", "pend"]


def grid_empty_probe(L, fresh, r, dom, n, w, x, routes, cs_text):
    """x widened by the empty set in several emptiness states (second pipeline: no `bounded', lim takes cgs)."""
    x2 = fresh(); L.append("mk %d %s %d %d" % (x2, r.choice(routes), x, r.randrange(1 << 20)))
    states = ["marked"] + r.sample(GRID_ESTATES, 3)
    base = None
    for k, st in enumerate(states):
        ye = fresh(); L.append("newe %d %s %d %s %d" % (ye, dom, n, st, r.randrange(1 << 20)))
        xi = x if k % 2 == 0 else x2
        p = fresh(); L.append("widen %s %d %d %d -1" % (w, p, xi, ye))
        t = fresh(); L.append("widen %s %d %d %d 2 plain %d" % (w, t, xi, ye, p))
        ids = [p, t]
        if cs_text is not None:
            l = fresh(); L.append("lim %s %d %d %d -1 %s plain %d" % (w, l, xi, ye, cs_text, p)); ids.append(l)
            lt = fresh(); L.append("lim %s %d %d %d 1 %s plain %d" % (w, lt, xi, ye, cs_text, p)); ids.append(lt)
        if base is None: base = ids
        else:
            for a, b in zip(base, ids): L.append("#! same %d %d" % (a, b))
            L.append("#! sametok %d %d" % (base[1], ids[1]))
            if cs_text is not None: L.append("#! sametok %d %d" % (base[3], ids[3]))
    xe = fresh(); L.append("newe %d %s %d %s %d" % (xe, dom, n, r.choice(GRID_ESTATES), r.randrange(1 << 20)))
    ye = fresh(); L.append("newe %d %s %d %s %d" % (ye, dom, n, r.choice(["marked"] + GRID_ESTATES), r.randrange(1 << 20)))
    p = fresh(); L.append("widen %s %d %d %d -1" % (w, p, xe, ye))


def box_elem(r, n):
    c = [r.randint(-3, 3) for _ in range(n)]
    cs = []
    for i in range(n):
        lo, hi = c[i] - r.randint(0, 2), c[i] + r.randint(0, 2)
        v = [0] * n; v[i] = 1; cs.append([">=", -lo, v])
        v = [0] * n; v[i] = -1; cs.append([">=", hi, v])
    if n > 1 and r.random() < 0.4:
        i, j = r.sample(range(n), 2); v = [0] * n; v[i] = 1; v[j] = r.choice([1, -1])
        cs.append([">=", r.randint(0, 2) - (c[i] * v[i] + c[j] * v[j]), v])
    return cs


def box_loosen(r, cs):
    cs = [[k[0], k[1], list(k[2])] for k in cs]
    k = r.choice(cs)
    if r.random() < 0.1 and len(cs) > 1: cs.remove(k)
    else: k[1] += r.choice([1, 1, 2, 3])
    return cs


def make_ps_case(seed, cid, quick=True, dom=None):
    r = random.Random(seed)
    dom = dom or r.choice(["G", "G", "P"])
    n = r.choice([1, 2, 2, 3]) if dom == "G" else r.choice([1, 2, 2])
    combos = [("Grid", "default"), ("Grid", "congruence"), ("Grid", "generator")] if dom == "G" else [("BHRZ03", "H79"), ("BHRZ03", "BHRZ03"), ("H79", "H79")]
    cn, w = r.choice(combos)
    routes = GRID_ROUTES if dom == "G" else POLY_LAZY_ROUTES
    L = ["case %s" % cid, "# family=powerset-%s dim=%d topo=%s cert=%s widening=%s seed=%d" % (dom, n, dom, cn, w, seed)]
    nid = [0]
    def fresh():
        nid[0] += 1; return nid[0] - 1
    elems = []          # descriptions of the elements met so far
    def new_e(desc):
        i = fresh()
        L.append("new %d %s %d %s" % (i, dom, n, fmt_cgs([tuple(k) for k in desc]) if dom == "G" else fmt_cons([tuple(k) for k in desc])))
        elems.append(desc)
        return i
    mk_e = (lambda: grid_elem(r, n)) if dom == "G" else (lambda: box_elem(r, n))
    loosen = (lambda d: grid_loosen(r, d)) if dom == "G" else (lambda d: box_loosen(r, d))
    e0, e1 = new_e(mk_e()), new_e(mk_e())
    wid = fresh(); L.append("psnew %d %s %d 2 %d %d" % (wid, dom, n, e0, e1))
    kname = "ps%s.%s.%s" % (dom, cn, w)
    for _ in range(r.randint(4, 7) if quick else r.randint(6, 10)):
        # the chain goes up by one disjunct: a loosened copy of an element met before (or, rarely, a new one),
        # arriving in a random lazy state
        desc = loosen(r.choice(elems)) if r.random() < 0.85 else mk_e()
        e = new_e(desc)
        el = fresh(); L.append("mk %d %s %d %d" % (el, r.choice(routes), e, r.randrange(1 << 20)))
        L.append("cert %d" % e); L.append("cert %d" % el); L.append("#! samecert %d %d" % (e, el))
        x = fresh(); L.append("psadd %d %d %d" % (x, wid, el))
        x2 = fresh(); L.append("psmk %d %d %d" % (x2, x, r.randrange(1 << 20)))
        w2 = fresh(); L.append("psmk %d %d %d" % (w2, wid, r.randrange(1 << 20)))
        r1 = fresh(); L.append("pswiden %s %s %d %d %d" % (cn, w, r1, x, wid))
        r2 = fresh(); L.append("pswiden %s %s %d %d %d" % (cn, w, r2, x2, w2))
        L.append("#! pssame %s %d %d" % (kname, r1, r2))
        wid = r.choice([r1, r1, r2])
    if r.random() < 0.6:
        # the smaller powerset argument empty: no disjunct at all, or only empty disjuncts in various emptiness states
        res = []
        for k in range(3):
            es = []
            for _ in range(0 if k == 0 else r.randint(1, 2)):
                e = fresh(); L.append("newe %d %s %d %s %d" % (e, dom, n, r.choice(["marked"] + GRID_ESTATES), r.randrange(1 << 20))); es.append(e)
            ye = fresh(); L.append("psnew %d %s %d %d %s" % (ye, dom, n, len(es), " ".join(map(str, es))))
            xr = wid
            if k > 0:
                xr = fresh(); L.append("psmk %d %d %d" % (xr, wid, r.randrange(1 << 20)))
            rr = fresh(); L.append("pswiden %s %s %d %d %d" % (cn, w, rr, xr, ye)); res.append(rr)
        L.append("#! pssame %s %d %d" % (kname, res[0], res[1])); L.append("#! pssame %s %d %d" % (kname, res[0], res[2]))
    L.append("end")
    return L


def make_ps_cases(seed, n, quick=True, start=0):
    out = []
    for i in range(n):
        r = random.Random(seed * 100019 + i)
        if r.random() < 0.45:
            out.append(make_grid_case(seed * 100019 + i + 7001, "G%d" % (start + i), quick))
        else:
            out.append(make_ps_case(seed * 100019 + i + 9001, "S%d" % (start + i), quick))
    return out


def make_cases(seed, n, quick=True, start=0, shapes=0.3):
    out = []
    for i in range(n):
        r = random.Random(seed * 100003 + i)
        if r.random() < shapes:
            # an independent stream for the case itself (the selection draw above must not bias its first choices)
            out.append(make_shape_case(seed * 100003 + i + 50021, "s%d" % (start + i), quick))
        else:
            out.append(make_case(seed * 100003 + i, "g%d" % (start + i), quick))
    return out


if __name__ == "__main__":
    import sys
    for c in make_cases(int(sys.argv[1]) if len(sys.argv) > 1 else 1, int(sys.argv[2]) if len(sys.argv) > 2 else 2):
        print("\n".join(c))
