"""Run powerset case files through harness/run_pset.cc with crash isolation (protocol: every
new/copy/op/qry line is answered by a block ending in `endst', every cw line by one `cst' line)."""
import os, subprocess
import polyrun


def run_harness(exe, cases, workdir, tag, timeout=900):
    os.makedirs(workdir, exist_ok=True)
    kept, obs, crashes = [], [], []
    todo = list(cases)
    rnd = 0
    while todo:
        rnd += 1
        cf = os.path.join(workdir, "%s.%d.case" % (tag, rnd))
        with open(cf, "w") as f:
            for c in todo:
                f.write("\n".join(c) + "\n")
        try:
            p = subprocess.run([exe, cf], stdout=subprocess.PIPE, stderr=subprocess.PIPE, text=True, timeout=timeout)
            rc, out, err = p.returncode, p.stdout, p.stderr
        except subprocess.TimeoutExpired as e:
            rc, out, err = 124, (e.stdout.decode() if isinstance(e.stdout, bytes) else (e.stdout or "")), "timeout"
        blocks = polyrun.split_cases(out.split("\n"))
        if rc == 0:
            kept += todo; obs += [l for b in blocks for l in b]
            break
        if rc == 3:
            raise RuntimeError("harness rejected a case line (generator/harness bug): %s" % out[-400:])
        k = max(len(blocks) - 1, 0)
        kept += todo[:k]
        obs += [l for b in blocks[:k] for l in b]
        bad = todo[k] if k < len(todo) else todo[-1]
        produced = blocks[k][1:] if k < len(blocks) else []
        nresp = len([l for l in produced if l == "endst" or l.startswith("cst ")])
        cmds = [l for l in bad[1:] if l.split(" ")[0] in ("new", "copy", "op", "qry", "cw", "hurry")]
        line = cmds[nresp] if nresp < len(cmds) else "(unknown)"
        how = "timeout" if rc == 124 else "crash rc=%d %s" % (rc, (err or "").strip()[-200:])
        crashes.append((bad, line, how))
        todo = todo[k + 1:]
    return kept, "\n".join(obs) + "\n", crashes
