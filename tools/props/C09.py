"""C09: powersets denote the union of their disjuncts and every operation respects it."""
import os, shutil, json
import common, polyrun, psetrun, gen_pset

COQ = ["Base/FM.v", "Base/Sys.v", "Base/Gens.v", "Poly/PolyOps.v", "Base/Sup.v", "Poly/PolyQuery.v",
       "Powerset/PS.v", "Powerset/PSDom.v", "Powerset/UnionIncl.v", "Powerset/PSPoly.v", "Powerset/Cow.v", "Powerset/PP.v"]

TRUSTED = [
    "Coq 8.16.1 kernel (coqc); vm_compute only in the Examples and in the _refuted counter-model; no native_compute",
    "axioms: none (every property theorem prints 'Closed under the global context')",
    "extraction: Require Extraction + ExtrOcamlBasic only; Z, positive, nat, Q stay the extracted inductive types; OCaml 4.13.1 ocamlopt",
    "hand-written, unverified glue: harness/run_pset.cc + vh_common.hh (case interpreter, printers, private access to `reduced', `sequence', "
    "`prep', `references'), ocaml/judge_pset.ml + zutil_pset.ml (parsing, dispatch, the choice of which verified function judges which step, "
    "the transcription of Pointset_Powerset::is_universe / concatenate flag handling), tools/gen_pset.py, tools/psetrun.py; g++, GMP",
    "modelled rather than verified: the C++ of PPL is not translated mechanically; Powerset/PS.v and Powerset/Cow.v are hand transcriptions "
    "(loop for loop) of Powerset_templates.hh / Powerset_inlines.hh / Determinate_inlines.hh, tied to the code by the per-step comparison",
]


def diff_reduces_subtrahend():
    """source fact: does Pointset_Powerset<NNC_Polyhedron>::difference_assign call y.omega_reduce()?"""
    import re
    try:
        txt = open(os.path.join(common.REPO, "src", "Pointset_Powerset.cc")).read()
    except OSError:
        return True
    m = re.search(r"Pointset_Powerset<PPL::NNC_Polyhedron>\s*::difference_assign\(.*?\n}\n", txt, re.S)
    return bool(m and re.search(r"\by\.omega_reduce\(\)", m.group(0)))


def site_of(kind, line):
    t = line.split(" ")
    if kind.startswith("hurry/const-operand-collapsed"):
        return "Powerset::omega_reduce() const hurry-up branch"
    if kind.startswith("cw:"):
        return "Determinate::" + kind.split("/")[0][3:]
    if kind.startswith("qry:"):
        return kind.split("/")[0][4:]
    if kind.startswith("op:"):
        return kind.split("/")[0][3:]
    if kind.startswith("new:"):
        return "new:" + kind.split("/")[0][4:]
    return kind.split("/")[0]


def run(chk):
    chk.rule = ("histories in the powerset case language from tools/gen_pset.py (seeded): base domain C or NNC polyhedra, dimension 1-2 (3 after "
                "dimension changes), 3 powersets of <= 6 disjuncts drawn from a palette of duplicate / nested / adjacent (complementary strictness) / "
                "overlapping / empty / half-space / complementary half-space / diagonal-cut / point / strip pieces; 10-14 steps interleaving add_disjunct, "
                "meet, upper bound, difference, concatenate, add_constraint(s), affine (pre)image, unconstrain, dimension changes, closure, omega_reduce, "
                "pairwise_reduce, collapse(n), collapse(), add_non_bottom_disjunct_preserve_reduction, drop / mutate of a disjunct, copies, assignments, "
                "swaps and queries; any step that consults abandon_expensive_computations is, with probability 0.12 and in a dedicated family, run with the flag raised "
                "(`hurry'); slabs / boxes with unbounded sides in every disjunct order under pairwise_reduce; Pointset_Powerset<Grid> covers with and without finite "
                "partitions in every disjunct order (geometric predicates, difference); plus blocks of bare Determinate handle operations. A step is distinct by its case line and counted non-trivial when "
                "it is an op/qry/cw step judged by a verified function (not a skipped unchanged state)")
    chk.trusted += TRUSTED
    chk.assumptions += [
        "abandon_expensive_computations is either null or raised for the whole call (a Throwable that is never thrown): the model is run with the `never' resp. `always' oracle; other schedules (flag raised in the middle of a call) are covered only by the theorems for an arbitrary oracle ('no point is lost'), not by the tie",
        "difference_assign, simplify_using_context_assign, time_elapse_assign and fold_space_dimensions are not modelled disjunct by disjunct: difference is judged geometrically (exact set difference for NNC; x minus y <= result <= x for C), the others only through OK()",
        "generator hints for the hull come from the library's own generators, adopted only after dd_pair proved them equal to the disjunct's constraints; a rejected hint makes the hull the universe (sound) and shows up as a disagreement",
    ]
    chk.prove(COQ)
    os.environ.setdefault("VERIF_JUDGE_BUDGET", "2.0")
    os.environ["VERIF_C09_DIFF_REDUCES_Y"] = "1" if diff_reduces_subtrahend() else "0"
    chk.extra["source_fact_difference_reduces_subtrahend"] = diff_reduces_subtrahend()
    GRID_COQ = ["Grid/QVec.v", "Grid/IntLin.v", "Grid/GridSem.v", "Grid/GridRef.v", "Product/PRPArith.v", "Product/PRP.v", "Product/PRPJudge.v"]
    ok, log = common.coq_make([f[:-2] + ".vo" for f in GRID_COQ])
    if not ok:
        chk.broken.append(("coq-build-grid-reference", log[-2000:]))
    common.coq_extract("Extract_pset.v", ["pset.ml", "pset.mli"], deps=COQ + GRID_COQ + ["Extract/Extract_pset.v"])
    judge = common.ocaml_build("judge_pset", ["gen/pset.mli", "gen/pset.ml", "zutil_pset.ml", "judge_pset.ml"])
    exe = common.compile_harness("run_pset.cc")

    lines = []
    cdir = os.path.join(common.VERIF, "corpus", "C09")
    if os.path.isdir(cdir):
        for f in sorted(os.listdir(cdir)):
            if f.endswith(".case"):
                lines += [l for l in open(os.path.join(cdir, f)).read().split("\n") if l and not l.startswith("#")]
    if chk.replay:
        obj = json.load(open(chk.replay))
        lines = list(obj.get("case", []))
    else:
        n1 = 150 if chk.quick else 4000
        n2 = 60 if chk.quick else 2500
        n3 = 25 if chk.quick else 800
        lines += gen_pset.make_cases(chk.seed * 1000 + 1, n1, start=0, maxdim=2, nobj=3, steps=10, pq=0.25)
        # reductions only (dense in omega_reduce / collapse / pairwise_reduce / lub on redundant sequences)
        lines += gen_pset.make_cases(chk.seed * 1000 + 2, n2, start=n1, maxdim=2, nobj=2, steps=12, pq=0.15, dimops=False,
                                     ops=["add_disjunct", "add_disjunct", "omega_reduce", "pairwise_reduce", "collapse", "collapse_all",
                                          "upper_bound_assign", "least_upper_bound_assign", "meet_assign", "copy", "assign", "swap",
                                          "add_non_bottom_disjunct_preserve_reduction", "mutate_disjunct", "drop_disjunct", "difference_assign",
                                          "topological_closure_assign"])
        # copy-on-write heavy
        lines += gen_pset.make_cases(chk.seed * 1000 + 3, n3, start=n1 + n2, maxdim=2, nobj=2, steps=4, pq=0.1, cow_p=1.0)
        # the paths taken when abandon_expensive_computations is raised
        # slabs / boxes with unbounded sides, every disjunct order (pairwise_reduce's upper_bound_assign_if_exact)
        # Pointset_Powerset<Grid>: geometric predicates / difference on covers without finite partitions, every disjunct order
        lines += gen_pset.grid_cases(chk.seed * 1000 + 6, 60 if chk.quick else 1500, start=700000)
        lines += gen_pset.boxpair_systematic(start=800000)
        lines += gen_pset.boxpair_cases(chk.seed * 1000 + 5, 150 if chk.quick else 2500, start=900000)
        lines += gen_pset.hurry_cases(chk.seed * 1000 + 4, 60 if chk.quick else 1500, start=n1 + n2 + n3)
    cases = polyrun.split_cases(lines)
    work = os.path.join(common.BUILD, "work-C09-%d" % os.getpid())
    shutil.rmtree(work, ignore_errors=True)
    kept, obs, crashes = psetrun.run_harness(exe, cases, work, "c09")
    res, stat, cov = polyrun.run_judge(judge, kept, obs, work, "c09", timeout=6000)
    shutil.rmtree(work, ignore_errors=True)
    byid = polyrun.case_by_id(cases)

    chk.evaluations += stat.get("steps", 0)
    chk.extra["cases"] = stat.get("cases", 0)
    chk.extra["verified_checks"] = stat.get("checks", 0)
    chk.extra["judge_timeouts"] = stat.get("timeouts", 0)
    chk.extra["cases_abandoned_after_3_timeouts"] = cov.get("case-abandoned-after-3-timeouts", 0)
    chk.extra["operation_histogram"] = {k[3:]: v for k, v in sorted(cov.items()) if k.startswith("op:")}
    chk.extra["query_histogram"] = {k[4:]: v for k, v in sorted(cov.items()) if k.startswith("qry:")}
    chk.extra["grid_powerset_histogram"] = {k[5:]: v for k, v in sorted(cov.items()) if k.startswith("grid-")}
    chk.extra["cow_histogram"] = {k[3:]: v for k, v in sorted(cov.items()) if k.startswith("cw:")}
    chk.extra["constructor_histogram"] = {k[4:]: v for k, v in sorted(cov.items()) if k.startswith("new:")}
    chk.extra["unmodelled"] = {k[11:]: v for k, v in sorted(cov.items()) if k.startswith("unmodelled:")}
    chk.extra["steps_with_abandon_flag_raised"] = cov.get("hurry-steps", 0)
    chk.extra["unchanged_states_not_rejudged"] = cov.get("state-unchanged-skipped", 0)
    chk.extra["traces_validated_against_impl"] = stat.get("cases", 0)
    seen = set()
    for c in kept:
        for l in c:
            if l.startswith("hurry "):
                seen.add(l)
            elif l.split(" ")[0] in ("op", "qry", "cw"):
                seen.add(l.split(" ", 2)[-1] if l.startswith("cw") else l.split(" ", 2)[2])
    for s in seen:
        chk.nontrivial.add(s)
    for c in kept[:3]:
        chk.samples.append(" ; ".join(c[:7]))

    for f in res:
        if f.verdict == "UNDECIDED":
            chk.undecided += 1
            continue
        sub = f.kind.split("/")[-1] if "/" in f.kind else f.kind
        if "[approximate-partition-integer-residues]" in f.detail:
            chk.failure({"site": "approximate_partition_aux", "kind": "integer-residues-only", "detail": f.detail},
                        {"case": byid.get(f.case, []), "step": f.step, "line": f.line, "judge": f.detail, "replay_cmd": "./check C09 --replay <this file>"})
            continue
        info = {"site": site_of(f.kind, f.line), "kind": sub, "model_agrees": "model agrees" in f.detail, "detail": f.detail}
        chk.failure(info, {"case": byid.get(f.case, []), "step": f.step, "line": f.line, "judge": f.detail,
                           "theorem": "C09 theorems on the generic model + the verified decision procedure named in the judge's message",
                           "replay_cmd": "./check C09 --replay <this file>"})
    for (case, line, how) in crashes:
        t = line.split(" ")
        info = {"site": t[2] if len(t) > 2 else line, "kind": "crash", "detail": how}
        chk.failure(info, {"case": case, "line": line, "how": how})
    if stat.get("checks", 0) and chk.undecided * 50 > stat["checks"]:
        chk.broken.append(("too-many-undecided", "%d of %d checks undecided" % (chk.undecided, stat["checks"])))
