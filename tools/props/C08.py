"""C08 -- Widenings are upper bounds, well defined on values, and force convergence.

Proof side: coq/Widen/{Cert,CertFacts,Generic,PolyW,PSet}.v + Properties_C08.v, with coq/gen/Facts_Cert.v (the
ORDER of the certificate comparisons) regenerated from the source on every run by tools/translate_cert.py.
Tie: adversarial ascending chains (tools/gen_widen.py) run through the real library (harness/run_widen.cc) and
judged step by step (ocaml/judge_widen.ml) by functions extracted from Coq: the exact inclusion / equivalence
decisions of Base/Sys.v, the certificate transcriptions, the reference limited extrapolation, the token numbers,
the multiset order."""
import json, os, re, shutil, subprocess, collections

import common
import translate_cert
import gen_widen

VERIF = common.VERIF
COQ_FILES = ["Base/FM.v", "Base/Sys.v", "Base/Gens.v", "Poly/PolyOps.v", "Base/Sup.v", "Poly/PolyQuery.v",
             "Widen/Cert.v", "gen/Facts_Cert.v", "Widen/CertFacts.v", "Widen/Generic.v", "Widen/PolyW.v", "Widen/PSet.v"]

TRUSTED = [
    "Coq 8.16.1 kernel (coqc); vm_compute only in the closed witnesses (bhrz03_lgo_needs_growth, bhrz03_compare_not_a_refinement); no native_compute",
    "axioms: none in Properties_C08.v (every theorem prints 'Closed under the global context'); the classical corollary Generic.certified_widening_terminates_classic (not an audited obligation) uses Coq.Logic.Classical_Prop.classic",
    "extraction: Require Extraction + ExtrOcamlBasic only; Z, positive, nat, Q stay the extracted inductive types; OCaml 4.13.1 ocamlopt",
    "hand-written, unverified glue: harness/run_widen.cc + vh_common.hh (script interpreter, construction routes, printers; reads the private certificate fields), ocaml/judge_widen.ml + wzutil.ml (parsing, dispatch, bookkeeping), tools/gen_widen.py, tools/translate_cert.py (regex over the compare ladders), tools/props/C08.py; g++ 12.2, GMP",
    "modelled rather than verified: PPL's widening algorithms are not translated; each result they print is judged by functions proved exact for all inputs; the certificate classes ARE transcribed (Widen/Cert.v) and tied by CertFacts.v + the compare-tie checks",
]

Finding = collections.namedtuple("Finding", "verdict case step kind line detail")


def split_cases(lines):
    cases, cur = [], None
    for l in lines:
        if l.startswith("case "):
            cur = [l]; cases.append(cur)
        elif cur is not None and l.strip():
            cur.append(l)
    return cases


def run_harness(exe, cases, workdir, tag, timeout=900):
    """Crash isolation: a crash / hang is attributed to the case (and line) being executed; that case is dropped
    from the judged set and reported. Returns (kept_cases, obs_text, crashes)."""
    os.makedirs(workdir, exist_ok=True)
    kept, obs, crashes = [], [], []
    todo, rnd = list(cases), 0
    while todo:
        rnd += 1
        cf = os.path.join(workdir, "%s.%d.case" % (tag, rnd))
        with open(cf, "w") as f:
            for c in todo:
                f.write("\n".join(c) + "\n")
        try:
            p = subprocess.run([exe, cf], stdout=subprocess.PIPE, stderr=subprocess.PIPE, text=True, timeout=timeout)
            rc, out, err = p.returncode, p.stdout, p.stderr
        except subprocess.TimeoutExpired as e:
            rc, out, err = 124, (e.stdout.decode() if isinstance(e.stdout, bytes) else (e.stdout or "")), "timeout"
        blocks = split_cases(out.split("\n"))
        if rc == 0:
            kept += todo; obs += [l for b in blocks for l in b]
            break
        if rc == 3:
            raise RuntimeError("harness rejected a script line (generator/harness bug): %s" % out[-400:])
        k = max(len(blocks) - 1, 0)
        kept += todo[:k]
        obs += [l for b in blocks[:k] for l in b]
        bad = todo[k] if k < len(todo) else todo[-1]
        produced = blocks[k][1:] if k < len(blocks) else []
        nresp = len([l for l in produced if l.startswith("res ")])
        cmds = [l for l in bad[1:] if not l.startswith("#") and not l.startswith("end")]
        line = cmds[nresp] if nresp < len(cmds) else "(unknown)"
        how = "timeout" if rc == 124 else "crash rc=%d %s" % (rc, (err or "").strip()[-200:])
        crashes.append((bad, line, how))
        todo = todo[k + 1:]
    return kept, "\n".join(obs) + "\n", crashes


def run_judge(judge, kept, obs_text, workdir, tag, timeout=3000):
    cf = os.path.join(workdir, tag + ".kept.case")
    of = os.path.join(workdir, tag + ".obs")
    with open(cf, "w") as f:
        for c in kept:
            f.write("\n".join(c) + "\n")
    with open(of, "w") as f:
        f.write(obs_text)
    rc, out = common.sh([judge, cf, of], timeout=timeout)
    res, stat, cov, genbugs = [], {}, {}, []
    for l in out.split("\n"):
        if l.startswith("FAIL ") or l.startswith("UNDECIDED "):
            head, *rest = l.split(" | ")
            h = head.split(" ")
            res.append(Finding(h[0], h[1], int(h[2]), h[3], rest[0] if rest else "", rest[1] if len(rest) > 1 else ""))
        elif l.startswith("GENBUG "):
            genbugs.append(l)
        elif l.startswith("STAT "):
            t = l.split(" ")
            stat = {t[i]: int(t[i + 1]) for i in range(1, len(t) - 1, 2)}
        elif l.startswith("COV "):
            t = l.split(" ")
            cov[t[1]] = int(t[2])
    if rc != 0 or not stat:
        raise RuntimeError("judge failed (rc=%s): %s" % (rc, out[-1500:]))
    return res, stat, cov, genbugs


def info_of(f):
    """Failure description used to match known findings: site (operator or certificate class), kind (which
    obligation), cond (triggering condition, when the judge classified one)."""
    kind = f.kind
    cond = None
    if ":" in kind:
        kind, cond = kind.split(":", 1)
    parts = kind.split("/")
    grid = any(p.startswith("Grid") for p in parts) or parts[0].startswith("psG") or bool(cond and cond.startswith("grid-"))
    certcls = "Grid_Certificate" if grid else ("H79_Certificate" if "h79" in parts[-1] else "BHRZ03_Certificate")
    if parts[0].startswith("ps") and "." in parts[0]:
        d, c, w = parts[0].split(".", 2)
        site = "Pointset_Powerset<%s>::BHZ03_widening_assign<%s_Certificate>(%s)" % ("Grid" if d == "psG" else "C_Polyhedron", c, w)
    elif parts[0] == "cert":
        site = certcls
    elif parts[-1].startswith("cert-"):
        site = parts[0] + "_widening_assign+" + certcls
    elif parts[0] == "ps":
        site = "Pointset_Powerset::is_cert_multiset_stabilizing" if len(parts) > 1 and parts[1].endswith("-tie") else "Pointset_Powerset"
    elif parts[0] in ("input", "route", "hull", "join"):
        site = "/".join(parts[:2]) if parts[0] == "route" else parts[0]
    else:
        # H79 | BHRZ03 on polyhedra; BDS.BHMZ05, OCT.CC76, BOX.CC76, Grid.congruence, ... on the other domains
        site = parts[0] + ("_widening_assign" if len(parts) == 2 else "_extrapolation_assign/" + parts[1])
    info = {"site": site, "kind": parts[-1] if parts[0] not in ("cert", "ps") else "/".join(parts[1:]), "obligation": f.kind}
    if cond:
        info["cond"] = cond
    # an extrapolation that disagrees with the plain widening computed on copies of the same two objects
    if info["kind"] in ("upper", "exact", "below-limited") and "_extrapolation_assign/" in site and not grid:
        info["class"] = "differs-from-plain-on-same-objects"
    # grid extrapolations select the supplied congruences with Grid::relation_with(Congruence)
    if grid and "_extrapolation_assign/" in site and cond and "gen-divisor" in cond:
        info["class"] = "selection-by-relation_with-on-divisor"
    if site.startswith("Pointset_Powerset<"):
        info["routine"] = "Pointset_Powerset::BHZ03_widening_assign"
    if grid:
        info["domain"] = "Grid"
    return info


def shrink_case(case, fline):
    """Keep the script lines the failing line depends on (transitively through object ids)."""
    def ids_of(l):
        t = l.split()
        if not t: return None, []
        if t[0] == "new": return int(t[1]), []
        if t[0] == "mk": return int(t[1]), [int(t[3])]
        if t[0] == "hull": return int(t[1]), [int(t[2]), int(t[3])]
        if t[0] == "widen":
            d = [int(t[3]), int(t[4])] + ([int(t[t.index("plain") + 1])] if "plain" in t else [])
            return int(t[2]), d
        if t[0] == "lim":
            d = [int(t[4]), int(t[5])] + ([int(t[t.index("plain") + 1])] if "plain" in t else [])
            return int(t[3]), d
        if t[0] == "cert": return None, [int(t[1])]
        if t[0] == "cmp": return None, [int(t[1]), int(t[2])]
        if t[0] == "#!": return None, [int(x) for x in t[2:] if x.lstrip("-").isdigit()]
        if t[0] == "ps": return None, [int(x) for x in t[1:]]
        return None, []
    try:
        idx = case.index(fline)
    except ValueError:
        return case
    need = set(ids_of(fline)[1]); d0 = ids_of(fline)[0]
    if d0 is not None: need.add(d0)
    keep = {idx}
    for i in range(idx - 1, 0, -1):
        d, deps = ids_of(case[i])
        if d is not None and d in need:
            keep.add(i); need.update(deps)
        elif d is None and case[i].startswith("cert") and deps and deps[0] in need:
            keep.add(i)
    return [case[0]] + [case[i] for i in sorted(keep) if i > 0] + ["end"]


def pipeline(exe, judge, cases, tag):
    work = os.path.join(common.BUILD, "work-C08-%s-%d" % (tag, os.getpid()))
    shutil.rmtree(work, ignore_errors=True)
    try:
        kept, obs, crashes = run_harness(exe, cases, work, tag)
        # the judge is run in chunks so that one pathological case cannot starve the rest
        res, stat, cov, genbugs = [], collections.Counter(), collections.Counter(), []
        blocks = {}
        cur = None
        for l in obs.split("\n"):
            if l.startswith("case "):
                cur = l.split()[1]; blocks[cur] = []
            if cur is not None:
                blocks[cur].append(l)
        CH = 100
        for i in range(0, len(kept), CH):
            part = kept[i:i + CH]
            ob = [l for c in part for l in blocks.get(c[0].split()[1], [])]
            r, s, c, g = run_judge(judge, part, "\n".join(ob) + "\n", work, "%s-%d" % (tag, i))
            res += r; stat.update(s); cov.update(c); genbugs += g
    finally:
        shutil.rmtree(work, ignore_errors=True)
    return res, stat, cov, genbugs, crashes


def run(chk):
    chk.rule = ("ascending chains y_0 <= y_1 <= ... (<= 12 elements, dimension 1-3, C and NNC) from tools/gen_widen.py (seeded), growing by one vertex / ray / "
                "line / closure point or one loosened, dropped, split or closed bound per step, in five families (vertex, climb, parabola, cone, bounds); for "
                "each of H79 and BHRZ03 (and, on 30% of the cases, BHMZ05 / H79 / CC76 on BD shapes, octagons and rational boxes over chains of bounds) the iteration x_{k+1} = (x_k hull y_{k+1}) W x_k is run on the real library, both operands of every step additionally "
                "rebuilt through construction routes (constraints / minimized constraints / generators / minimized generators / redundant rows / add_constraint "
                "and add_generator sequences / pending rows); a case is distinct by its script text; a widening step is non-trivial when the verified oracle "
                "finds the result different from the previous iterate (counted as step:*:changed)")
    chk.trusted += TRUSTED
    chk.assumptions += [
        "the value of an object is read from the constraints() the library prints for a copy of it (that constraints() and generators() agree is C01's obligation)",
        "the per-step hypotheses of certified_widening_terminates (upper bound, certificate decrease on value-changing steps, certificate a function of the value) are DECIDED on each step of the sampled chains, not proved for PPL's algorithms; dimension <= 3, chains <= 12",
        "every widening / extrapolation of every domain is also called with the EMPTY set as smaller argument in each emptiness state (built EMPTY; inconsistent rows through add_*, refine_*, the constructor, an intersection, a pending row, never queried; the same after is_empty() or minimized_*()): the results, the token counts and the limited / bounded extrapolations must be the same in all states and equal to x (verified), no token spent",
        "BD_Shape<mpq_class> (BHMZ05, H79, CC76), Octagonal_Shape<mpq_class> (BHMZ05, CC76) and Rational_Box (CC76): upper bound, value-dependence, argument unchanged, tokens and limited extrapolations are judged the same way; they have no certificate class, so no per-step certificate check (only the generic theorems apply); grids and the powerset widenings themselves are not run (Grid_Certificate and the multiset order are covered on the proof side, the multiset order also by the ps tie)",
    ]
    # ---- facts from the source, proofs ----
    try:
        facts, consts = translate_cert.generate()
        chk.extra["ladders_from_source"] = {k: ["%s %s" % rf for rf in v] for k, v in facts.items()}
    except (translate_cert.TranslateError, OSError) as e:
        chk.broken.append(("translate-cert", str(e)))
        facts = None
    # 6 fact-dependent side conditions: the five ladder lemmas and the constants of CertFacts.v
    chk.prove(COQ_FILES, extra_obligations=0)
    common.coq_extract("Extract_widen.v", ["widen.ml", "widen.mli"], deps=COQ_FILES + ["Extract/Extract_widen.v"])
    judge = common.ocaml_build("judge_widen", ["gen/widen.mli", "gen/widen.ml", "wzutil.ml", "judge_widen.ml"])
    exe = common.compile_harness("run_widen.cc")

    # ---- cases: replay / corpus first, then generated ----
    lines = []
    if chk.replay:
        obj = json.load(open(chk.replay))
        lines += obj.get("case", [])
    cdir = os.path.join(VERIF, "corpus", "C08")
    if os.path.isdir(cdir):
        for f in sorted(os.listdir(cdir)):
            if f.endswith(".case"):
                lines += open(os.path.join(cdir, f)).read().split("\n")
    ncorpus = len(split_cases(lines))
    ngen = 0 if chk.replay else (300 if chk.quick else 3000)
    for c in gen_widen.make_cases(chk.seed, ngen, quick=chk.quick):
        lines += c
    cases = split_cases(lines)
    res, stat, cov, genbugs, crashes = pipeline(exe, judge, cases, "c08")
    # ---- second pipeline: grids, certificates in every lazy state, the powerset lifting ----
    judge2 = common.ocaml_build("judge_pswiden", ["gen/widen.mli", "gen/widen.ml", "wzutil.ml", "gen/grid.mli", "gen/grid.ml", "judge_pswiden.ml"])
    exe2 = common.compile_harness("run_pswiden.cc")
    lines2 = []
    if chk.replay:
        lines2 += json.load(open(chk.replay)).get("pscase", [])
    if os.path.isdir(cdir):
        for f in sorted(os.listdir(cdir)):
            if f.endswith(".pscase"):
                lines2 += open(os.path.join(cdir, f)).read().split("\n")
    ncorpus2 = len(split_cases(lines2))
    ngen2 = 0 if chk.replay else (150 if chk.quick else 2000)
    for c in gen_widen.make_ps_cases(chk.seed, ngen2, quick=chk.quick):
        lines2 += c
    cases2 = split_cases(lines2)
    res2, stat2, cov2, genbugs2, crashes2 = pipeline(exe2, judge2, cases2, "c08ps")
    byid2 = {c[0].split(" ")[1]: c for c in cases2}
    byid = {c[0].split(" ")[1]: c for c in cases}

    chk.evaluations += stat.get("checks", 0)
    chk.undecided += stat.get("undecided", 0)
    chk.extra["cases"] = stat.get("cases", 0)
    chk.extra["corpus_cases"] = ncorpus
    chk.extra["script_steps"] = stat.get("steps", 0)
    chk.extra["verified_checks"] = stat.get("checks", 0)
    chk.extra["traces_validated_against_impl"] = stat.get("cases", 0)
    chk.extra["widening_calls"] = {k[6:]: v for k, v in sorted(cov.items()) if k.startswith("widen:")}
    chk.extra["extrapolation_calls"] = {k[4:]: v for k, v in sorted(cov.items()) if k.startswith("lim:")}
    chk.extra["iteration_steps"] = {k[5:]: v for k, v in sorted(cov.items()) if k.startswith("step:")}
    chk.extra["token_outcomes"] = {k[7:]: v for k, v in sorted(cov.items()) if k.startswith("tokens:")}
    chk.extra["routes"] = {k[6:]: v for k, v in sorted(cov.items()) if k.startswith("route:")}
    chk.extra["value_dependence_pairs"] = {k[5:]: v for k, v in sorted(cov.items()) if k.startswith("same:")}
    chk.extra["status_vectors_of_widened_receivers"] = len([k for k in cov if k.startswith("flagsx:")])
    chk.extra["empty_smaller_argument"] = {"states_built": {k[6:]: v for k, v in sorted(cov.items()) if k.startswith("empty:")},
                                           "status_vectors": len([k for k in cov if k.startswith("emptyflags:")]),
                                           "widenings_with_empty_y": {k[8:]: v for k, v in sorted(cov.items()) if k.startswith("empty-y:")}}
    chk.extra["stop_point_lists_by_length"] = {k[12:]: v for k, v in sorted(cov.items()) if k.startswith("stop-points:")}
    chk.extra["limited_token_judgements"] = {k[11:]: v for k, v in sorted(cov.items()) if k.startswith("lim-tokens:")}
    chk.extra["certificates_compared"] = cov.get("cmp", 0)
    chk.extra["multiset_comparisons"] = cov.get("ps", 0)
    chk.extra["families"] = dict(collections.Counter(re.search(r"family=([\w-]+)", c[1]).group(1) for c in cases if len(c) > 1 and "family=" in c[1]))
    for c in cases:
        steps = [l for l in c if l.startswith("#! s")]
        if steps:
            chk.nontrivial.add(hash("\n".join(c)))
    for c in cases[ncorpus:ncorpus + 3]:
        chk.samples.append(" ; ".join(c[1:7])[:600])

    # second pipeline evidence
    chk.evaluations += stat2.get("checks", 0)
    chk.undecided += stat2.get("undecided", 0)
    chk.extra["cases"] += stat2.get("cases", 0)
    chk.extra["verified_checks"] += stat2.get("checks", 0)
    chk.extra["traces_validated_against_impl"] += stat2.get("cases", 0)
    chk.extra["grid_and_powerset"] = {
        "cases": stat2.get("cases", 0), "corpus_cases": ncorpus2, "verified_checks": stat2.get("checks", 0),
        "certificates_by_lazy_state": {k[10:]: v for k, v in sorted(cov2.items()) if k.startswith("certstate:")},
        "lazy_states_of_widened_receivers": {k[7:]: v for k, v in sorted(cov2.items()) if k.startswith("statex:")},
        "grid_widening_calls": {k[6:]: v for k, v in sorted(cov2.items()) if k.startswith("widen:")},
        "grid_extrapolation_calls": {k[4:]: v for k, v in sorted(cov2.items()) if k.startswith("lim:")},
        "grid_iteration_steps": {k[5:]: v for k, v in sorted(cov2.items()) if k.startswith("step:")},
        "empty_states_built": {k[6:]: v for k, v in sorted(cov2.items()) if k.startswith("empty:")},
        "widenings_with_empty_y": {k[8:]: v for k, v in sorted(cov2.items()) if k.startswith("empty-y:")},
        "powerset_widening_calls": {k[8:]: v for k, v in sorted(cov2.items()) if k.startswith("pswiden:")},
        "powerset_steps": {k[7:]: v for k, v in sorted(cov2.items()) if k.startswith("psstep:")},
        "powerset_value_dependence_pairs": {k[7:]: v for k, v in sorted(cov2.items()) if k.startswith("pssame:")},
        "families": dict(collections.Counter(re.search(r"family=([\w-]+)", c[1]).group(1) for c in cases2 if len(c) > 1 and "family=" in c[1])),
    }
    for c in cases2:
        chk.nontrivial.add(hash("\n".join(c)))
    genbugs = genbugs + genbugs2
    for f in res2:
        if f.verdict == "UNDECIDED":
            continue
        info = info_of(f)
        info["detail"] = f.detail
        case = byid2.get(f.case, [])
        upto = case[:case.index(f.line) + 1] + ["end"] if f.line in case else case
        chk.failure(info, {"pscase": upto, "full_case_id": f.case, "step": f.step, "line": f.line, "judge": f.detail,
                           "theorem": "the judged obligation is a hypothesis of certified_widening_terminates (certificate a function of the value; strict decrease on value-changing steps) or of tokens_spec / limited_between, decided on this result",
                           "replay_cmd": "./check C08 --replay <this file>"})
    for (case, line, how) in crashes2:
        t = line.split()
        chk.failure({"site": " ".join(t[:3]), "kind": "crash", "detail": how}, {"pscase": case, "line": line, "how": how})
    if not chk.replay and sum(v for k, v in cov2.items() if k.startswith("psstep:") and k.endswith(":changed")) < 30:
        chk.broken.append(("generator-too-weak", "fewer than 30 value-changing powerset widening steps"))
    if genbugs:
        chk.broken.append(("generator-precondition", "; ".join(genbugs[:5])))
    for f in res:
        if f.verdict == "UNDECIDED":
            continue
        info = info_of(f)
        info["detail"] = f.detail
        case = byid.get(f.case, [])
        chk.failure(info, {"case": shrink_case(case, f.line), "full_case_id": f.case, "step": f.step, "line": f.line, "judge": f.detail,
                           "theorem": "the judged obligation is a hypothesis of certified_widening_terminates / tokens_spec / limited_between (Properties_C08.v) decided on this result",
                           "replay_cmd": "./check C08 --replay <this file>"})
    for (case, line, how) in crashes:
        t = line.split()
        site = (t[1] + "_widening_assign") if t and t[0] in ("widen", "lim") else (t[0] if t else "?")
        chk.failure({"site": site, "kind": "crash", "detail": how}, {"case": case, "line": line, "how": how})
    if stat.get("checks", 0) and chk.undecided * 50 > stat["checks"]:
        chk.broken.append(("too-many-undecided", "%d of %d checks undecided" % (chk.undecided, stat["checks"])))
    if not chk.replay and cov.get("step:H79:changed", 0) + cov.get("step:BHRZ03:changed", 0) < 50:
        chk.broken.append(("generator-too-weak", "fewer than 50 value-changing widening steps"))
