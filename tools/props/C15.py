"""C15 -- ascii_dump / ascii_load round-trips every object in every internal state.

Proof part: coq/Codec/*.v (token-level model of the writers and readers, following the C++ bodies,
including the starting state of the target), coq/Properties/Properties_C15.v.  The keyword strings
and field order of every status writer and, separately, reader are regenerated from the source
into coq/gen/Facts_Status.v on every run; the round-trip theorems are proved by exhaustive
vm_compute over those lists, so a writer/reader desynchronisation breaks the Coq build.

Tie part: harness/run_codec.cc builds objects by random HISTORIES, dumps / loads them on the real
library, and ocaml/judge_codec (the extracted model) must (a) parse every real dump and re-emit it
token-identically, (b) predict, token for token, the dump of what a default-constructed target and
a USED target become after loading, (c) agree on accept/reject of every mutated stream.
"""
import hashlib, json, os, re, time
from collections import Counter, defaultdict

import common
import translate_codec

CODEC_FILES = ["gen/Facts_Status.v", "Codec/Tok.v", "Codec/Num.v", "Codec/Status.v", "Codec/Rows.v",
               "Codec/Mats.v", "Codec/Objs.v", "Codec/Thms.v", "Codec/Float.v"]
# named lemmas proved by vm_compute over the regenerated fact lists
FACT_OBLIGATIONS = ["ph_fresh_none", "grid_fresh_none", "bds_fresh_none", "og_fresh_none", "box_fresh_none",
                    "ph_arity", "grid_arity", "bds_arity", "og_arity", "box_arity",
                    "linexpr_kw_agree", "fset_idem_check"]
# (Float.v: bounded_check_true is a vm_compute obligation too, but it does not depend on the facts)

FLAG = re.compile(r"^[+-](ZE|EM|CM|GM|CS|GS|CP|GP|SC|SG|SPC|SPR|EUP|UN)$")
STATUS_CLASS = {"C_Polyhedron": "ph", "NNC_Polyhedron": "ph", "Grid": "grid",
                "BD_Shape_mpq": "bds", "BD_Shape_mpz": "bds", "BD_Shape_double": "bds",
                "Octagonal_Shape_mpq": "og", "Octagonal_Shape_double": "og",
                "Rational_Box": "box", "Z_Box": "box", "Double_Box": "box"}
BOXES = ("Rational_Box", "Z_Box", "Double_Box")
FLOAT_SHAPES = ("BD_Shape_double", "Octagonal_Shape_double")
MISPRINT = re.compile(r"^0\.0*-\d+$")


def compile_harness_private(src="run_codec.cc", config="mpz"):
    """common.compile_harness, but linking against a private copy of the library: another check
    running with a different VERIF_REPO drops and rebuilds build/lib-<config>-* (common.build_lib
    keeps one tree per config), which can pull the library away between build_lib and the link.
    The copy is taken under the same lock build_lib uses; the executable is cached by tree hash."""
    import shutil
    path = os.path.join(common.VERIF, "harness", src)
    key = hashlib.sha256((common.tree_hash(config + "H") + open(path).read()).encode()).hexdigest()[:16]
    cdir = os.path.join(common.BUILD, "c15-cache-" + key)
    exe = os.path.join(cdir, "run_codec")
    if os.path.exists(exe):
        return exe
    for old in [d for d in os.listdir(common.BUILD) if d.startswith("c15-cache-") and d != "c15-cache-" + key]:
        shutil.rmtree(os.path.join(common.BUILD, old), ignore_errors=True)
    last = "?"
    for attempt in range(8):
        libdir = common.build_lib(config)
        with common.Lock("lib-" + config):
            if not os.path.exists(os.path.join(libdir, "libppl_verif.a")):
                continue
            os.makedirs(os.path.join(cdir, "cfg"), exist_ok=True)
            shutil.copy(os.path.join(libdir, "libppl_verif.a"), cdir)
            shutil.copy(os.path.join(libdir, "cfg", "ppl-config.h"), os.path.join(cdir, "cfg"))
        flags = common.cxx_flags(cdir) + ["-I" + os.path.join(common.VERIF, "harness")]
        rc, out = common.sh(["g++"] + flags + [path, "-o", exe + ".tmp", os.path.join(cdir, "libppl_verif.a"), "-lgmpxx", "-lgmp"],
                            timeout=1800)
        if rc == 0:
            os.rename(exe + ".tmp", exe)
            os.remove(os.path.join(cdir, "libppl_verif.a"))
            return exe
        last = out
        break
    shutil.rmtree(cdir, ignore_errors=True)
    raise common.BuildError("harness %s failed to compile:\n%s" % (src, last[-6000:]))


def coq_witnesses(chk, full=False):
    """Evaluate the search results the DECIDED theorems branch on."""
    src = "Require Import PPLV.Codec.Status NArith List Bool.\nOpen Scope N_scope.\n"
    names = ["ph", "grid", "bds", "og", "box"]
    for n in names:
        # the scrutinee of the DECIDED theorems is cex_any (all targets x all states); when there is no counterexample
        # the full search has no early exit (512 x 512 loads for Polyhedron / Grid), so the quick tier searches the
        # targets {no flag, every single flag, all flags} only (a stale flag shows with a single-flag target) and says so
        search = ("(cex_any %s_class)" % n) if full else (
            "(find (fun p => negb (rt_ok %s_class (fst p) (snd p))) (list_prod (0 :: N.ones (N.of_nat (sc_nbits %s_class)) :: "
            "map (fun i => N.shiftl 1 (N.of_nat i)) (seq 0 (sc_nbits %s_class))) (states (sc_nbits %s_class))))" % (n, n, n, n))
        src += 'Goal True. idtac "@@@ any %s". exact I. Qed.\nEval vm_compute in %s.\n' % (n, search)
        src += ('Goal True. idtac "@@@ res %s". exact I. Qed.\n'
                'Eval vm_compute in (match %s with Some (t, s) => status_result %s_class t s | None => None end).\n' % (n, search, n))
    # every failing (target, state) pair of the exhaustive search must be explained by the root cause of a known
    # finding: a flag that the loader only ever SETS (no else-branch in the regenerated reader facts) is on in
    # the target and off in the dumped state.  Pairs not explained that way are listed (first 5).  Targets searched: no flag, every single flag, all flags
    # (the DECIDED theorems themselves quantify over all targets).
    expl = {"ph": "negb (N.land t 1 =? 0) && (N.land s 1 =? 0)", "grid": "negb (N.land t 1 =? 0) && (N.land s 1 =? 0)",
            "bds": "negb (N.land t 1 =? 0) && (N.land s 1 =? 0)", "og": "negb (N.land t 1 =? 0) && (N.land s 1 =? 0)",
            "box": "negb (N.land (N.land t (N.lxor s 7)) 3 =? 0)"}
    for n in names:
        src += 'Goal True. idtac "@@@ unexplained %s". exact I. Qed.\n' % n
        src += ('Eval vm_compute in (firstn 5 (filter (fun p => let t := fst p in let s := snd p in '
                'negb (rt_ok %s_class t s) && negb (%s)) (list_prod (0 :: N.ones (N.of_nat (sc_nbits %s_class)) :: map (fun i => N.shiftl 1 (N.of_nat i)) (seq 0 (sc_nbits %s_class))) '
                '(states (sc_nbits %s_class))))).\n' % (n, expl[n], n, n, n))
    src += 'Goal True. idtac "@@@ boxfresh". exact I. Qed.\nEval vm_compute in (cex_from box_class box_fresh_object_status).\n'
    src += ('Goal True. idtac "@@@ boxfreshres". exact I. Qed.\nEval vm_compute in (match cex_from box_class box_fresh_object_status '
            'with Some s => status_result box_class box_fresh_object_status s | None => None end).\n')
    tmp = os.path.join(common.BUILD, "c15_wit_%d.v" % os.getpid())
    with open(tmp, "w") as f:
        f.write(src)
    rc, out = common.sh(["coqc", "-Q", common.COQ, "PPLV", tmp], timeout=600)
    for ext in (".v", ".vo", ".vok", ".vos", ".glob"):
        q = tmp[:-2] + ext
        if os.path.exists(q):
            os.remove(q)
    aux = os.path.join(common.BUILD, ".c15_wit_%d.aux" % os.getpid())
    if os.path.exists(aux):
        os.remove(aux)
    if rc != 0:
        return None, out
    res = {}
    parts = re.split(r"@@@ ([^\n]+)\n", out)
    for i in range(1, len(parts), 2):
        body = parts[i + 1]
        m = re.search(r"=\s*(.*?)\s*:", body, re.S)
        val = m.group(1).strip() if m else "?"
        res[parts[i].strip()] = val
    return res, out


def parse_objs(path):
    """objects file of the harness -> {idx: {cls, d1, d2, d3, ok2, ok3, tflags, b1, b2}}"""
    objs = {}
    cur = None
    lines = open(path).read().split("\n")
    i = 0

    def block(i):
        buf = []
        while lines[i] != "ENDD":
            buf.append(lines[i]); i += 1
        return "\n".join(buf), i + 1
    while i < len(lines):
        l = lines[i]
        if l.startswith("OBJ "):
            _, idx, cls = l.split()
            cur = {"cls": cls}
            objs[int(idx)] = cur
            cur["d1"], i = block(i + 1)
        elif l.startswith("D2 ") and cur is not None and "d2" not in cur:
            cur["ok2"] = l.split()[1] == "1"
            cur["d2"], i = block(i + 1)
        elif l.startswith("D3 ") and cur is not None and "d3" not in cur:
            p = l.split()
            cur["ok3"], cur["tflags"] = p[1] == "1", int(p[2])
            cur["d3"], i = block(i + 1)
        elif l == "B1" and cur is not None:
            cur["b1"], i = block(i + 1)
        elif l == "B2" and cur is not None:
            cur["b2"], i = block(i + 1)
        else:
            i += 1
    return objs


def objs_tokens(path, idx):
    try:
        return parse_objs(path)[idx]["d1"].split()
    except Exception:
        return []


def strip_kinds(tok):
    """drop the payload of every "dimension_kinds" line (a grid that comes out marked empty neither reads nor prints it)"""
    out, skip = [], False
    for t in tok:
        if skip and t.isdigit():
            continue
        skip = t == "dimension_kinds"
        out.append(t)
    return out


def flag_diff(t1, t2):
    """positions where two equally long token lists differ, or None when the lengths differ"""
    if len(t1) != len(t2):
        return None
    return [(a, b) for a, b in zip(t1, t2) if a != b]


def only_stale_set(t1, t2, allowed):
    """every difference is a status flag dumped '-' and reloaded '+', among `allowed`"""
    d = flag_diff(t1, t2)
    if not d:
        return None
    fl = set()
    for a, b in d:
        if not (FLAG.match(a) and a[0] == "-" and b == "+" + a[1:] and a[1:] in allowed):
            return None
        fl.add(a[1:])
    return sorted(fl)


def blank_stale_sat(tok):
    """replace the parts of a polyhedron dump that its status word declares NOT up to date (con_sys /
    gen_sys rows after "(not_up-to-date)", sat_c / sat_g after -SC / -SG) by a marker"""
    out, i, sc, sg = [], 0, True, True
    n = len(tok)
    while i < n:
        t = tok[i]
        if t in ("+SC", "-SC"):
            sc = t[0] == "+"
        if t in ("+SG", "-SG"):
            sg = t[0] == "+"
        if t in ("sat_c", "sat_g") and i + 3 < n and tok[i + 2] == "x" and tok[i + 1].isdigit() and tok[i + 3].isdigit():
            k = int(tok[i + 1]) * int(tok[i + 3])
            fresh = sc if t == "sat_c" else sg
            if not fresh:
                out += [t, "<stale>"]
                i += 4 + k
                continue
        if t in ("con_sys", "gen_sys") and i + 10 < n and tok[i + 1] == "(not_up-to-date)" and tok[i + 2] == "topology" \
                and tok[i + 4].isdigit() and tok[i + 5] == "x" and tok[i + 9] == "index_first_pending":
            rows = int(tok[i + 4])
            j = i + 11
            ok = True
            for _ in range(rows):
                if j + 1 < n and tok[j] == "size" and tok[j + 1].isdigit():
                    j += 2 + int(tok[j + 1]) + 2
                else:
                    ok = False
                    break
            if ok:
                out += [t, "(not_up-to-date)", "<stale>"]
                i = j
                continue
        out.append(t)
        i += 1
    return out


SOLVER_KW = {"external_space_dim:", "internal_space_dim:", "input_cs(", "inherited_constraints:",
             "first_pending_constraint:", "input_obj_function", "opt_mode", "initialized:", "pricing:", "status:",
             "tableau", "working_cost(", "base(", "last_generator", "mapping(", "integer_variables",
             "parameters", "initial_context", "control_parameters", "big_parameter_dimension:", "current_solution:"}
APPENDED = ("input_cs(", "base(", "mapping(")


def sections(tok):
    out, cur = [], None
    for t in tok:
        if t in SOLVER_KW:
            cur = [t]
            out.append(cur)
        elif cur is not None:
            cur.append(t)
    return out


def input_cs_appended(t1, t3):
    """MIP / PIP: the dump of the used target after loading is the original dump except that the
    std::vector members (input_cs, base, mapping) still hold the target's old elements in front"""
    s1, s3 = sections(t1), sections(t3)
    if [x[0] for x in s1] != [x[0] for x in s3]:
        return False
    hit = False
    for a, b in zip(s1, s3):
        if a == b:
            continue
        if a[0] not in APPENDED or len(a) < 3 or len(b) < len(a) or a[2] != ")" or b[2] != ")":
            return False
        if not (a[1].isdigit() and b[1].isdigit() and int(b[1]) > int(a[1])):
            return False
        pa, pb = a[3:], b[3:]
        if a[0] == "mapping(":          # "i -> first -> second": the running index differs, the pairs do not
            pa = [x for k, x in enumerate(pa) if k % 5 in (2, 4)]
            pb = [x for k, x in enumerate(pb) if k % 5 in (2, 4)]
        if pa and pb[len(pb) - len(pa):] != pa:
            return False
        hit = True
    return hit


def cut_dimension_kinds(tok):
    return tok[:tok.index("dimension_kinds")] if "dimension_kinds" in tok else tok


def status_vector(tok):
    return " ".join(t for t in tok if FLAG.match(t))


def run(chk):
    chk.rule = ("objects of 34 classes (every class with an ascii_dump / ascii_load pair, stand-alone and inside its owners, incl. degenerate shapes: no rows with a positive dimension, rows with dimension 0, pending rows only, descriptions never computed) reached by random operation histories (2-9 steps: mutators interleaved with "
                "observers that trigger lazy minimisation / closure / reduction / solving), derived from VERIF_SEED; "
                "a case is one object with its dump, reload into a fresh and into a used target, follow-up battery and "
                "up to N single-token mutations; distinct = distinct dump text; non-trivial = the dump differs from the "
                "dump of every just-constructed (universe / empty / default) object of its class")
    chk.trusted += ["Coq 8.16.1 kernel; vm_compute for the exhaustive status-word searches and keyword side conditions",
                    "extraction with ExtrOcamlBasic only; OCaml 4.13.1",
                    "hand-written token-level model of the C++ ascii_dump/ascii_load bodies (coq/Codec)",
                    "tools/translate_codec.py (regex extraction of keywords / field order from the source)",
                    "harness/run_codec.cc, ocaml/judge_codec.ml, this file (glue); g++ 12, GMP"]
    chk.assumptions += [
        "a dump is modelled as its list of white-space separated words; byte identity is checked on the real code only",
        "number readers are modelled for the syntax the library itself prints (sign, digits, n/d, +inf/-inf/nan)",
        "floating-point coefficient types, Pointset_Powerset, Partially_Reduced_Product, MIP_Problem, PIP_Problem are "
        "covered by the real-code round trip and battery only (no Coq model)"]

    # ---- facts + proofs -------------------------------------------------------------------------
    summary = translate_codec.generate()
    chk.extra["facts"] = {k: v for k, v in summary.items() if k in ("ph", "grid", "bds", "og", "box", "float_print_sign_separate")}
    proved = chk.prove(CODEC_FILES, extra_obligations=len(FACT_OBLIGATIONS))
    wit = None
    if proved:
        wit, raw = coq_witnesses(chk, full=not chk.quick)
        if wit is None:
            chk.broken.append(("coq-witness-eval", raw[-1500:]))
        else:
            chk.extra["decided_branches"] = wit
            chk.extra["decided_branches_search"] = ("full cex_any" if not chk.quick else
                                                    "targets restricted to no flag / single flags / all flags (quick tier)")
            chk.log("decided statements: " + ", ".join("%s=%s" % kv for kv in sorted(wit.items())))

    # ---- model + harness ------------------------------------------------------------------------
    if proved:
        common.coq_extract("Extract_codec.v", ["codec.ml", "codec.mli"], deps=CODEC_FILES)
        judge = common.ocaml_build("judge_codec", ["gen/codec.mli", "gen/codec.ml", "judge_codec.ml"])
    else:
        judge = None
    exe = compile_harness_private("run_codec.cc")
    work = os.path.join(common.BUILD, "c15-work-%d" % os.getpid())
    os.makedirs(work, exist_ok=True)
    try:
        _run(chk, exe, judge, wit, work)
    finally:
        import shutil
        shutil.rmtree(work, ignore_errors=True)


def status_words_stage(chk, exe, have_model):
    """Every status word the dump can print, forced into real objects of every class that has a status (private
    access), dumped and loaded into a default-constructed object, into the blank word, into every single-flag word
    and into the all-flags word.  The loaded word must be the dumped one, the re-dump identical, and -- the tie of
    the exhaustive Coq search -- equal to what the model's [status_result] computes for that (target, state)."""
    rc, out = common.sh([exe, "statusall"], timeout=600)
    rows = [l.split() for l in out.split("\n") if l.startswith("S ")]
    if "DONE statusall" not in out or not rows:
        chk.failure({"site": "Status::ascii_load", "kind": "crash-in-status-word-sweep"}, {"tail": out[-800:], "rc": rc})
        return
    nb = {"ph": 9, "grid": 9, "bds": 3, "og": 2, "box": 3}
    targets = {c: sorted({int(r[3]) for r in rows if r[1] == c}) for c in nb}
    table = {}
    if have_model:
        src = "Require Import PPLV.Codec.Status NArith List.\nImport ListNotations.\nOpen Scope N_scope.\n"
        for c in nb:
            src += 'Goal True. idtac "@@@ %s". exact I. Qed.\n' % c
            src += ("Eval vm_compute in (map (fun p => status_result %s_class (fst p) (snd p)) (list_prod [%s] (states (sc_nbits %s_class)))).\n"
                    % (c, "; ".join(str(t) for t in targets[c]), c))
        tmp = os.path.join(common.BUILD, "c15_sw_%d.v" % os.getpid())
        open(tmp, "w").write(src)
        rc2, cout = common.sh(["coqc", "-Q", common.COQ, "PPLV", tmp], timeout=900)
        for q in [tmp[:-2] + e for e in (".v", ".vo", ".vok", ".vos", ".glob")] + [os.path.join(common.BUILD, ".c15_sw_%d.aux" % os.getpid())]:
            if os.path.exists(q):
                os.remove(q)
        if rc2 != 0:
            chk.broken.append(("coq-status-table", cout[-1500:]))
        else:
            parts = re.split(r"@@@ (\w+)\n", cout)
            for i in range(1, len(parts), 2):
                c = parts[i]
                vals = re.findall(r"Some (\d+)|(None)", parts[i + 1].split(":")[0] if False else parts[i + 1])
                vals = [int(a) if a else None for a, b in vals]
                keys = [(t, st) for t in targets[c] for st in range(2 ** nb[c])]
                if len(vals) >= len(keys):
                    table[c] = dict(zip(keys, vals[:len(keys)]))
                else:
                    chk.broken.append(("coq-status-table-parse", "%s: %d values for %d keys" % (c, len(vals), len(keys))))
    bad_real, bad_model, skipped = defaultdict(list), defaultdict(list), 0
    for _, c, kind, tw, st, ok, res, same in rows:
        tw, st, res = int(tw), int(st), int(res)
        chk.count(1)
        # a grid word with EMPTY and "dimension kinds meaningful" is rejected by Grid::Status::OK() and cannot be set by
        # any operation (set_empty assigns the whole word): its dump prints kinds the loader does not read
        grid_odd = c == "grid" and (st & 1) and (((st & 4) and (st & 16)) or ((st & 2) and (st & 8)))
        if ok != "1" or res != st or (same != "1" and not grid_odd):
            bad_real[c].append({"target": kind, "target_word": tw, "state_word": st, "loaded": ok == "1", "result_word": res,
                                "same_text": same == "1"})
        if grid_odd and same != "1":
            skipped += 1
        if c in table:
            m = table[c].get((tw, st), "?")
            if m != (res if ok == "1" else None):
                bad_model[c].append({"target_word": tw, "state_word": st, "real": res if ok == "1" else None, "model": m})
    for c, l in bad_real.items():
        chk.failure({"site": "Status::ascii_load", "kind": "status-word-not-reproduced", "class": c},
                    {"class": c, "n_pairs": len(l), "first_pairs": l[:10],
                     "how": "harness/run_codec statusall: status word forced through private access, dump, load, compare",
                     "theorem": "roundtrip_*_Status / roundtrip_into_any_*_Status_decided"})
    for c, l in bad_model.items():
        chk.broken.append(("status-word-model-vs-code:" + c, json.dumps(l[:5])))
        chk.failure({"site": "Status::ascii_load", "kind": "status-word-differs-from-model", "class": c},
                    {"class": c, "n_pairs": len(l), "first_pairs": l[:10]})
    chk.extra["status_word_sweep"] = {"pairs": len(rows), "targets": targets, "not_reproduced": {c: len(l) for c, l in bad_real.items()},
                                      "differs_from_model": {c: len(l) for c, l in bad_model.items()},
                                      "grid_words_rejected_by_Status_OK_text_only": skipped,
                                      "model_table": sorted(table)}
    chk.log("status-word sweep: %d (class, target, word) triples, %d not reproduced, %d differ from the model"
            % (len(rows), sum(len(l) for l in bad_real.values()), sum(len(l) for l in bad_model.values())))


def _run(chk, exe, judge, wit, work):
    if not chk.replay:
        status_words_stage(chk, exe, judge is not None)
    # replay of the Coq status witnesses on the real code
    if wit:
        reps = {}
        for n in ["ph", "grid", "bds", "og", "box"]:
            m = re.match(r"Some\s*\((\d+),\s*(\d+)\)", wit.get("any " + n, ""))
            if not m:
                continue
            t, s = m.group(1), m.group(2)
            rc, out = common.sh([exe, "witness", n, t, s], timeout=60)
            mm = re.search(r"load=(\d) result=(\d+) same=(\d)", out)
            pred = re.match(r"Some\s*(\d+)", wit.get("res " + n, ""))
            reps[n] = {"target": int(t), "state": int(s), "real": out.strip(), "model_result": wit.get("res " + n)}
            chk.count(1)
            if not mm:
                chk.broken.append(("witness-replay:" + n, out[-500:]))
            elif mm.group(3) == "1" or (pred and pred.group(1) != mm.group(2)):
                # the theorem says this (target, state) pair does NOT round-trip and which word results
                chk.broken.append(("witness-replay-disagrees:" + n, "model %s, real %s" % (wit.get("res " + n), out.strip())))
        chk.extra["status_witness_replays"] = reps
        # into-any failures of the model that no known finding explains: replay each on the real code
        for n in ["ph", "grid", "bds", "og", "box"]:
            pairs = re.findall(r"\((\d+),\s*(\d+)\)", wit.get("unexplained " + n, ""))
            for t, s_ in pairs:
                rc, out = common.sh([exe, "witness", n, t, s_], timeout=60)
                mm = re.search(r"load=(\d) result=(\d+) same=(\d)", out)
                chk.count(1)
                if mm and mm.group(3) == "0":
                    chk.failure({"site": "Status::ascii_load", "kind": "stale-flag-in-used-target-not-EM", "class": n,
                                 "target": int(t), "state": int(s_)},
                                {"witness": {"class": n, "target_status_word": int(t), "state_status_word": int(s_)},
                                 "real": out.strip(), "theorem": "roundtrip_into_any_*_Status_decided (exhaustive search)"})
                else:
                    chk.broken.append(("unexplained-model-witness-not-reproduced:" + n, "%s %s: %s" % (t, s_, out.strip())))

    if chk.replay:
        rp = json.load(open(chk.replay))
        plan = [(int(rp["harness_seed"]), int(rp["index"]) + 1, int(rp.get("maxmut", 40)), int(rp["index"]))]
    else:
        # corpus first: minimised past failures, each re-run as one object of its harness seed
        plan = []
        import glob as _glob
        for f in sorted(_glob.glob(os.path.join(common.VERIF, "corpus", "C15", "replay-*.json"))):
            rp = json.load(open(f))
            plan.append((int(rp["harness_seed"]), int(rp["index"]) + 1, int(rp.get("maxmut", 2)), int(rp["index"])))
        if chk.quick:
            plan.append((chk.seed, 1050, 40, None))
        else:
            plan += [(chk.seed * 100 + k, 3500, 60, None) for k in range(10)]

    hist = defaultdict(Counter)
    stats = Counter()
    for (hseed, count, maxmut, only) in plan:
        objf = os.path.join(work, "objs-%d.txt" % hseed)
        rc, out = common.sh([exe, str(hseed), str(count), objf, str(maxmut)], timeout=1500)
        lines = out.split("\n")
        done = any(l.startswith("DONE ") for l in lines)
        R, Mc, base, last_b, last_mb, bmark = {}, {}, defaultdict(set), None, None, {}
        for l in lines:
            if l.startswith("R "):
                p = l.split()
                R[int(p[1])] = dict([("cls", p[2])] + [kv.split("=") for kv in p[3:]])
            elif l.startswith("M "):
                p = l.split()
                Mc[(int(p[1]), int(p[2]), p[3])] = p[4]
            elif l.startswith("BASE "):
                p = l.split()
                base[p[1]].add(p[2])
            elif l.startswith("B "):
                last_b = l
            elif l.startswith("MB "):
                last_mb = l.split()
            elif l[:3] in ("BX ", "BY ", "BZ "):
                bmark[int(l.split()[1])] = l[:2]
            elif l.startswith("CRASH "):
                p = l.split()
                # the last announced mutated load of that object is the one that did not return
                tk = objs_tokens(objf, int(p[1]))
                pos, kind = (int(last_mb[2]), last_mb[3]) if last_mb and last_mb[1] == p[1] else (-1, "?")
                mt = [t for k_, t in enumerate(tk) if not (kind == "D" and k_ == pos)]
                if kind == "R" and 0 <= pos < len(mt):
                    mt[pos] = "@@"
                size0 = kind == "D" and pos >= 1 and tk[pos - 1] == "size"
                chk.failure({"site": (p[2] if not size0 else "Linear_Expression_Impl") + "::ascii_load",
                             "kind": "malformed-size-0-row" if size0 else "crash-on-malformed-stream"},
                            {"harness_seed": hseed, "index": int(p[1]), "maxmut": maxmut, "class": p[2], "exit_status": p[3],
                             "token_index": pos, "mutation": {"D": "token deleted", "R": "token replaced by @@"}.get(kind, kind),
                             "token": tk[pos] if 0 <= pos < len(tk) else None,
                             "context": " ".join(tk[max(0, pos - 6):pos + 4]) if pos >= 0 else None})
                stats["mutant_crashes"] += 1
        objs = parse_objs(objf) if os.path.exists(objf) else {}
        if not done:
            # the real library crashed (or was killed) inside a dump / load / battery: a failure of the property
            idx = int(last_b.split()[1]) if last_b else -1
            info = {"site": "ascii_load", "kind": "crash", "class": last_b.split()[2] if last_b else "?"}
            chk.failure(info, {"harness_seed": hseed, "index": idx + (0 if idx in R else 0), "maxmut": maxmut,
                               "what": "harness terminated abnormally (rc=%s) at or after object %s" % (rc, last_b),
                               "tail": out[-800:]})
        V, Mm = {}, {}
        if judge is not None and os.path.exists(objf):
            rc2, mout = common.sh([judge, objf], timeout=1500)
            if rc2 != 0:
                chk.broken.append(("judge_codec", mout[-1500:]))
            for l in mout.split("\n"):
                if l.startswith("V "):
                    p = l.split()
                    V[int(p[1])] = p[3:]
                elif l.startswith("M "):
                    p = l.split()
                    Mm[(int(p[1]), int(p[2]), p[3])] = p[4]

        for idx in sorted(R):
            if only is not None and idx != only:
                continue
            r, o = R[idx], objs.get(idx, {})
            cls = r["cls"]
            t1 = o.get("d1", "").split()
            t2 = o.get("d2", "").split()
            t3 = o.get("d3", "").split()
            nontrivial = r.get("h") not in base.get(cls, ())
            key = (cls, hashlib.sha1(o.get("d1", "").encode()).hexdigest()) if nontrivial else None
            chk.count(1, key=key,
                      sample={"class": cls, "status": status_vector(t1)[:80], "tokens": len(t1), "seed": hseed, "index": idx}
                      if nontrivial and len(t1) > 40 else None)
            hist[cls][status_vector(t1) or "flags=" + r.get("xflags", "?")] += 1
            stats["objects"] += 1
            replay = {"harness_seed": hseed, "index": idx, "maxmut": maxmut, "class": cls, "result_line": r,
                      "dump": o.get("d1", "")[:4000], "redump": o.get("d2", "")[:4000]}

            # ---- (i)-(iv) on the real code, fresh target
            fresh_ok = (r["load"] == "1" and r["same"] == "1" and r["ok"] == "1" and r["eq"] == "1"
                        and r["answers"] == "1" and r["battery"] == "1")
            if not fresh_ok:
                info = None
                if r.get("bcrash") == "1" and bmark.get(idx) == "BX":
                    # the ORIGINAL object crashed the library in its own battery, before the loaded one was touched:
                    # not a statement about dump / load (solver defects belong to C06 / C07); not judged
                    stats["original_crashed_in_battery"] += 1
                    chk.undecided += 1
                    continue
                if r.get("bcrash") == "1":
                    replay["battery_marker"] = bmark.get(idx)
                    if cls == "PIP_Problem" and bmark.get(idx) == "BY" and "DECISION" in t1 and r["load"] == "1" and r["same"] == "1":
                        # the ORIGINAL survived the battery (marker BY reached), the LOADED problem crashed
                        info = {"site": "PIP_Decision_Node::ascii_load", "kind": "loaded-decision-tree-crashes-on-resolve"}
                    else:
                        info = {"site": cls + "::ascii_load", "kind": "battery-crash", "marker": bmark.get(idx)}
                elif cls in FLOAT_SHAPES and any(MISPRINT.match(t) for t in t1):
                    # the misprinted entry either makes the load fail or is read as two entries ("0" and "-625")
                    info = {"site": "Checked::float_mpq_to_string", "kind": "negative-float-below-0.1-misprinted"}
                elif cls in BOXES and r["load"] == "1" and r["eq"] == "1" and r["answers"] == "1":
                    fl = only_stale_set(t1, t2, ("EUP", "EM"))
                    if fl:
                        info = {"site": "Box::Status::ascii_load", "kind": "flag-set-never-reset", "class": "Box"}
                        replay["flags"] = fl
                elif cls == "Pointset_Powerset_C" and r["load"] == "1" and r["eq"] == "1" and r["answers"] == "1" and r["ok"] == "1":
                    same_live = blank_stale_sat(t1) == blank_stale_sat(t2) and \
                        blank_stale_sat(o.get("b1", "").split()) == blank_stale_sat(o.get("b2", "").split())
                    if same_live:
                        info = {"site": "Pointset_Powerset::ascii_load", "kind": "stale-parts-dropped-by-copy"}
                if info is None:
                    info = {"site": cls + "::ascii_load", "kind": "roundtrip-fresh",
                            "failed": [k for k in ("load", "same", "ok", "eq", "answers", "battery") if r[k] != "1"]}
                stats["fresh:" + info["kind"]] += 1
                chk.failure(info, replay)
            else:
                stats["fresh:ok"] += 1

            # ---- load into a USED object
            if r["used_same"] != "1" and fresh_ok:
                info = None
                tfl = int(r["tflags"])
                sc = STATUS_CLASS.get(cls)
                if r["used_load"] == "1" and sc in ("ph", "grid", "bds", "og") and (tfl & 1):
                    # a grid that comes out marked empty does not read / print its dimension kinds
                    fl = only_stale_set(strip_kinds(t1), strip_kinds(t3), ("EM",)) if sc == "grid" \
                        else only_stale_set(t1, t3, ("EM",))
                    if fl:
                        info = {"site": "Status::ascii_load", "kind": "stale-empty-flag-in-used-target"}
                elif r["used_load"] == "1" and sc == "box":
                    fl = only_stale_set(t1, t3, ("EUP", "EM"))
                    if fl and all((tfl >> {"EUP": 0, "EM": 1}[f]) & 1 for f in fl):
                        info = {"site": "Box::Status::ascii_load", "kind": "flag-set-never-reset", "class": "Box"}
                if info is None and cls in ("Constraints_Product_C_Grid", "Direct_Product_NNC_BDS", "Pointset_Powerset_C") \
                        and r["used_load"] == "1":
                    # components are loaded in place: same root cause as above, seen through the container
                    fl = only_stale_set(strip_kinds(t1), strip_kinds(t3), ("EM",))
                    if fl:
                        info = {"site": "Status::ascii_load", "kind": "stale-empty-flag-in-used-target"}
                if info is None and cls in ("MIP_Problem", "PIP_Problem") and r["used_load"] == "1" and input_cs_appended(t1, t3):
                    info = {"site": "MIP_Problem/PIP_Problem::ascii_load", "kind": "vectors-appended-to-used-target"}
                if info is None:
                    info = {"site": cls + "::ascii_load", "kind": "roundtrip-used-target", "tflags": tfl}
                stats["used:" + info["kind"]] += 1
                replay2 = dict(replay); replay2["used_redump"] = o.get("d3", "")[:4000]
                chk.failure(info, replay2)
            elif fresh_ok:
                stats["used:ok"] += 1

            # ---- the model against the real dumps
            if idx in V:
                v = V[idx]
                if v != ["nomodel"]:
                    stats["model_checked"] += 1
                    bad = [x for x in v if not x.endswith("=OK")]
                    if bad:
                        stats["model_mismatch"] += 1
                        chk.broken.append(("model-vs-code:%s:%d" % (cls, idx), " ".join(bad)))
                        chk.failure({"site": cls, "kind": "model-prediction-differs", "detail": " ".join(bad)}, replay)
            elif judge is not None and STATUS_CLASS.get(cls) and cls in ("C_Polyhedron", "Grid", "Rational_Box"):
                chk.broken.append(("model-missing-verdict", "%s %d" % (cls, idx)))

        # ---- (vi) malformed streams
        for k, a in Mm.items():
            if only is not None and k[0] != only:
                continue
            if k not in Mc:                 # the real loader never returned from an earlier mutant of this object (CRASH line)
                stats["mutants_lost_after_crash"] += 1
                continue
            stats["mutants_compared"] += 1
            if a == "1":
                stats["mutants_accepted_by_both" if Mc.get(k) == "1" else "mutants_accept_disagree"] += 1
            if Mc.get(k) != a:
                cls = R.get(k[0], {}).get("cls", "?")
                tk = objs.get(k[0], {}).get("d1", "").split()
                mt = [t for k_, t in enumerate(tk) if not (k[2] == "D" and k_ == k[1])]
                if k[2] == "D" and k[1] >= 1 and tk[k[1] - 1] == "size" and a == "0":
                    # the size field of a row was deleted, so its first coefficient is taken as the size and the row ends up with fewer
                    # coefficients than its class needs (space_dimension() wraps around): the model rejects; the real loader goes on with
                    # it and either crashes or returns true with a corrupt system: same root cause as the crash finding
                    stats["mutants_size0_row"] += 1
                    chk.failure({"site": "Linear_Expression_Impl::ascii_load", "kind": "malformed-size-0-row"},
                                {"harness_seed": hseed, "index": k[0], "maxmut": maxmut, "token": k[1], "mutation": k[2],
                                 "real_accepts": Mc.get(k), "model_accepts": a, "dump": objs.get(k[0], {}).get("d1", "")[:3000]})
                    continue
                stats["mutant_disagreements"] += 1
                chk.broken.append(("mutant-accept-reject:%s" % cls, "object %d token %d kind %s: real %s model %s" % (k[0], k[1], k[2], Mc.get(k), a)))
                chk.failure({"site": cls + "::ascii_load", "kind": "malformed-stream-accept-reject-differs-from-model"},
                            {"harness_seed": hseed, "index": k[0], "maxmut": maxmut, "token": k[1], "mutation": k[2],
                             "real_accepts": Mc.get(k), "model_accepts": a, "dump": objs.get(k[0], {}).get("d1", "")[:3000]})
        stats["mutants_real_only"] += len([k for k in Mc if k not in Mm])
        chk.evaluations += len(Mc)
        try:
            os.remove(objf)
        except OSError:
            pass

    chk.extra["status_vector_histogram"] = {c: dict(h.most_common(40)) for c, h in sorted(hist.items())}
    chk.extra["distinct_status_vectors"] = {c: len(h) for c, h in sorted(hist.items())}
    chk.extra["stats"] = dict(stats)
    chk.log("objects %d, stats %s" % (stats["objects"], dict(stats)))
